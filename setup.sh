#!/bin/sh
# MANIFEST.setup_cmd — offline build of the whole Coq development (full .vo) from files on disk.
# A theory file that does not compile does not fail setup: the check that needs it rebuilds it
# with coqc and reports the broken obligation itself.
cd "$(dirname "$0")"
mkdir -p .work evidence replays
python3 harness/regen_all.py
python3 tools/gen_coqproject.py
cd coq
coq_makefile -f _CoqProject -o Makefile >/dev/null || exit 1
if timeout 3000 make -k -j16 >../.work/setup_make.log 2>&1; then
  echo "setup ok"
else
  echo "setup: some theory files did not build (see .work/setup_make.log):"
  grep -B1 -A3 "^Error" ../.work/setup_make.log | head -40
  echo "setup done (with build errors)"
fi
exit 0
