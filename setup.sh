#!/bin/sh
# MANIFEST.setup_cmd — offline build of the whole Coq development (full .vo) from files on disk.
set -e
cd "$(dirname "$0")"
mkdir -p .work evidence replays
python3 harness/regen_all.py
python3 tools/gen_coqproject.py
cd coq
coq_makefile -f _CoqProject -o Makefile >/dev/null
timeout 3000 make -j16 >../.work/setup_make.log 2>&1 || { tail -40 ../.work/setup_make.log; exit 1; }
echo "setup ok"
