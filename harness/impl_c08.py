"""C08 implementation runner: rule files / views files with ill-typed expressions through
MerchantEngine.match, normalize_merchant, parse_generic_csv, classify_by_sections.
For each item it also computes — with the implementation's own evaluator — which rules/views FAIL for
that item, and the result with exactly those removed (the property: outcome equals what it would be if
the failing rule did not exist for it). Runs under /venv/bin/python."""
import csv
import re
import datetime
import io
import json
import os
import sys
import tempfile

from tally import expr_parser as EP
from tally import merchant_engine as ME
from tally import merchant_utils as MU
from tally import section_engine as SE
from tally import analyzer as AN
from tally import parsers as PA
from tally.format_parser import parse_format_string


def render_rules(case, skip_rules=(), drop_tags=None, drop_fields=None):
    out = []
    for n, e in case.get('variables', []):
        out.append(f'{n} = {e}')
    for n, e in case.get('transforms', []):
        out.append(f'{n} = {e}')
    out.append('')
    for i, r in enumerate(case['rules']):
        if i in skip_rules:
            continue
        out.append(f'[{r["name"]}]')
        for n, e in r.get('lets', []):
            out.append(f'let: {n} = {e}')
        out.append(f'match: {r["match"]}')
        if r.get('category'):
            out.append(f'category: {r["category"]}')
        if r.get('subcategory'):
            out.append(f'subcategory: {r["subcategory"]}')
        for n, e in r.get('fields', []):
            if drop_fields and (i, n) in drop_fields:
                continue
            out.append(f'field: {n} = {e}')
        tags = [t for t in r.get('tags', []) if not (drop_tags and (i, t) in drop_tags)]
        if tags:
            out.append('tags: ' + ', '.join(tags))
        if r.get('priority') is not None:
            out.append(f'priority: {r["priority"]}')
        out.append('')
    return '\n'.join(out)


def mk_txn(t):
    d = {'description': t['description'], 'raw_description': t['description'], 'amount': t['amount'],
         'date': datetime.date.fromisoformat(t['date']) if t.get('date') else None, 'source': t.get('source', 'Bank')}
    if t.get('field') is not None:
        d['field'] = dict(t['field'])
    return d


ADDR = re.compile(r'0x[0-9a-fA-F]+')


def noaddr(x):
    # object addresses inside texts (known finding C03/generator-object-as-value) are not comparable between runs
    return ADDR.sub('0xADDR', str(x))


def canon_match(r):
    return {'matched': bool(r.matched), 'merchant': r.merchant, 'category': r.category, 'subcategory': r.subcategory,
            'rule': r.matched_rule.name if getattr(r, 'matched_rule', None) else None,
            'tags': sorted({noaddr(t) for t in (r.tags or [])}),
            'extra_fields': {k: noaddr(repr(v)) for k, v in sorted((getattr(r, 'extra_fields', None) or {}).items())}}


def guarded(f):
    try:
        return {'ok': f()}
    except EP.ExpressionError as e:
        return {'raises': 'ExpressionError', 'msg': str(e)[:100]}
    except BaseException as e:  # noqa
        return {'raises': type(e).__name__, 'msg': str(e)[:100]}


MATCHING = []


def failing_rules(engine, case, txn, ds):
    """Indices of rules whose MATCH condition cannot be evaluated for this transaction. Decided with the public
    evaluator entry point only (not with the engine's own helper methods, which are part of what is under test):
    a top-level variable that fails is absent, a let binding that fails is bound to None — failing bindings make
    just that binding inapplicable — and the rule fails iff evaluating its match expression then raises."""
    gv = {}
    for name, expr in case.get('variables', []):
        try:
            gv[name.lower()] = EP.evaluate_transaction(expr, txn, data_sources=ds)
        except EP.ExpressionError:
            pass
    fails = []
    del MATCHING[:]
    kept = [r for r in case['rules']]
    for i, r in enumerate(kept):
        variables = dict(gv)
        for n, e in r.get('lets', []):
            try:
                variables[n.lower()] = EP.evaluate_transaction(e, txn, variables=variables, data_sources=ds)
            except EP.ExpressionError:
                variables[n.lower()] = None
        try:
            if EP.matches_transaction(r['match'], txn, variables, ds):
                MATCHING.append(i)
        except EP.ExpressionError:
            fails.append(i)
    return fails


def run_engine_case(case):
    text = render_rules(case)
    ds = case.get('data_sources') or {}
    res = {'text': text}
    load = guarded(lambda: ME.parse_merchants(text))
    if 'raises' in load:
        res['load'] = load
        return res
    engine = load['ok']
    res['items'] = []
    for mode in case.get('modes', ['first_match']):
        engine.match_mode = mode
        for t in case['txns']:
            txn = mk_txn(t)
            item = {'mode': mode, 'txn': t}
            full = guarded(lambda: canon_match(engine.match(dict(txn), data_sources=ds)))
            item['full'] = full
            fr = guarded(lambda: failing_rules(engine, case, dict(txn), ds))
            item['failing'] = fr
            item['indep_matching'] = list(MATCHING)
            if 'ok' in fr:
                red_text = render_rules(case, skip_rules=set(fr['ok']))
                red = guarded(lambda: ME.parse_merchants(red_text))
                if 'ok' in red:
                    red['ok'].match_mode = mode
                    item['reduced'] = guarded(lambda: canon_match(red['ok'].match(dict(txn), data_sources=ds)))
                else:
                    item['reduced'] = red
            # normalize_merchant through the cached-engine path
            item['n_rules'] = len(engine.rules)
            res['items'].append(item)
    return res


def run_engine_reduced(case):
    """Second pass, run in a process that never evaluates the failing rules: for each (mode, transaction) the result of the file
    WITHOUT the rules that failed for it (as determined by the first pass)."""
    ds = case.get('data_sources') or {}
    out = []
    for mode, ti, skip in case['reduce']:
        red = guarded(lambda: ME.parse_merchants(render_rules(case, skip_rules=set(skip))))
        if 'ok' not in red:
            out.append(red)
            continue
        red['ok'].match_mode = mode
        txn = mk_txn(case['txns'][ti])
        out.append(guarded(lambda: canon_match(red['ok'].match(dict(txn), data_sources=ds))))
    return {'fresh_reduced': out}


def run_legacy_case(case):
    """Legacy CSV rules (merchant_categories.csv: Pattern,Merchant,Category,Subcategory,Tags) with dynamic {expr} tags that cannot be
    evaluated, through get_all_rules + normalize_merchant and through parse_generic_csv. 'reduced' = the same file without those tags."""
    d = tempfile.mkdtemp(dir=case['workdir'])
    rules_path = os.path.join(d, 'merchant_categories.csv')
    csv_path = os.path.join(d, 'data.csv')
    with open(csv_path, 'w', newline='') as f:
        w = csv.writer(f)
        w.writerow(['Date', 'Description', 'Amount'])
        for t in case['txns']:
            w.writerow([t['date'], t['description'], f"{t['amount']:.2f}"])
    spec = parse_format_string('{date:%Y-%m-%d},{description},{amount}')
    out = {}
    # the comparison with the reduced file is meaningful only when each removed tag really cannot be evaluated, for every
    # transaction (decided with the public evaluator entry point)
    all_fail = True
    for _, tag in case['bad_tags']:
        for t in case['txns']:
            txn = {'description': t['description'], 'amount': t['amount'], 'date': datetime.date.fromisoformat(t['date']), 'source': 'S'}
            try:
                EP.evaluate_transaction(tag[1:-1], txn)
                all_fail = False
            except EP.ExpressionError:
                pass
            except BaseException:  # noqa
                pass
    out['all_fail'] = all_fail
    for label in ('full', 'reduced'):
        with open(rules_path, 'w', newline='') as f:
            w = csv.writer(f)
            w.writerow(['Pattern', 'Merchant', 'Category', 'Subcategory', 'Tags'])
            for i, row in enumerate(case['rows']):
                tags = [t for t in row[4] if not (label == 'reduced' and [i, t] in case['bad_tags'])]
                w.writerow(row[:4] + ['|'.join(tags)])
        MU._cached_engine = None

        def go():
            rules = MU.get_all_rules(rules_path)
            direct = []
            for t in case['txns']:
                m = MU.normalize_merchant(t['description'], rules, amount=t['amount'],
                                          txn_date=datetime.date.fromisoformat(t['date']), data_source='S')
                direct.append([m[0], m[1], m[2], sorted({noaddr(x) for x in ((m[3] or {}).get('tags') or [])})])
            txns = PA.parse_generic_csv(csv_path, spec, rules, source_name='S')
            rows = sorted([t['description'], t['merchant'], t['category'], t['subcategory'], sorted({noaddr(x) for x in t.get('tags', [])})]
                          for t in txns)
            return {'direct': direct, 'rows': rows}
        out[label] = guarded(go)
    return out


def run_rows_case(case):
    """parse_generic_csv with a rules engine containing ill-typed rules: no row and no source may be lost."""
    d = tempfile.mkdtemp(dir=case['workdir'])
    rules_path = os.path.join(d, 'merchants.rules')
    csv_path = os.path.join(d, 'data.csv')
    with open(csv_path, 'w', newline='') as f:
        w = csv.writer(f)
        w.writerow(['Date', 'Description', 'Amount'])
        for t in case['txns']:
            w.writerow([t['date'], t['description'], f"{t['amount']:.2f}"])
    spec = parse_format_string('{date:%Y-%m-%d},{description},{amount}')
    out = {}
    for label, skip in (('full', set()), ('reduced', set(case.get('all_failing', [])))):
        with open(rules_path, 'w') as f:
            f.write(render_rules(case, skip_rules=skip))
        MU._cached_engine = None

        def go():
            rules = MU.get_all_rules(rules_path)
            txns = PA.parse_generic_csv(csv_path, spec, rules, source_name='S', transforms=MU.get_transforms(rules_path))
            return sorted([t['raw_description'] if 'raw_description' in t else t['description'], t['merchant'], t['category'],
                           t['subcategory'], sorted({noaddr(x) for x in t.get('tags', [])})] for t in txns)
        out[label] = guarded(go)
    return out


def run_views_case(case):
    """classify_by_sections with ill-typed filters / variables."""
    def views_text(skip=(), only=None):
        lines = [f'{n} = {e}' for n, e in case.get('variables', [])] + ['']
        for i, v in enumerate(case['views']):
            if i in skip or (only is not None and i != only):
                continue
            lines.append(f'[{v["name"]}]')
            for n, e in v.get('locals', []):
                lines.append(f'{n} = {e}')
            lines.append(f'filter: {v["filter"]}')
            lines.append('')
        return '\n'.join(lines)

    def by_merchant():
        txns = []
        for m in case['merchants']:
            for p in m['payments']:
                txns.append({'merchant': m['name'], 'category': m['category'], 'subcategory': m['subcategory'],
                             'amount': p['amount'], 'date': datetime.datetime.fromisoformat(p['date']),
                             'description': m['name'].upper(), 'source': 'S', 'tags': list(m.get('tags', []))})
        return AN.analyze_transactions(txns)['by_merchant']

    def classify(text):
        cfg = SE.parse_sections(text)
        res = AN.classify_by_sections(by_merchant(), cfg, num_months=12)
        return {k: sorted(m for m, _ in v) for k, v in res.items()}
    out = {'text': views_text()}
    out['full'] = guarded(lambda: classify(views_text()))
    # which (view, merchant) filter evaluations fail, recorded from the implementation's own evaluator while
    # classify_by_sections runs (section_engine calls expr_parser.evaluate_ast through the module attribute)
    def failing():
        # a view "fails for a merchant" when its filter cannot be evaluated with the view ALONE in the file (so that what
        # other views do cannot make a healthy view look failing)
        bad = []
        for i in range(len(case['views'])):
            for pair in failing_in(views_text(only=i)):
                bad.append([i, pair[1]])
        return bad

    def failing_in(text):
        cfg = SE.parse_sections(text)
        # identical filter texts share one cached AST object, so the failing view is identified by wrapping
        # evaluate_section_filter (which classify_merchants calls through the module attribute), not by the AST
        idx = {id(sec): i for i, sec in enumerate(cfg.sections)}
        bad, cur = [], [None]
        orig_ast, orig_filter = EP.evaluate_ast, SE.evaluate_section_filter

        def rec(tree, ctx):
            try:
                return orig_ast(tree, ctx)
            except EP.ExpressionError:
                m = ctx.transactions[0]['merchant'] if ctx.transactions else None
                bad.append([cur[0], m])
                raise

        def filt(section, *a, **k):
            cur[0] = idx.get(id(section), -1)
            return orig_filter(section, *a, **k)
        EP.evaluate_ast, SE.evaluate_section_filter = rec, filt
        try:
            AN.classify_by_sections(by_merchant(), cfg, num_months=12)
        finally:
            EP.evaluate_ast, SE.evaluate_section_filter = orig_ast, orig_filter
        return bad
    out['failing'] = guarded(failing)
    if 'ok' in out['failing']:
        n_elig = len({m['name'] for m in case['merchants']
                      if not ({t.lower() for t in m.get('tags', [])} & {'income', 'transfer', 'investment'})})
        always = sorted({i for i, _ in out['failing']['ok']
                         if len({m for j, m in out['failing']['ok'] if j == i}) == n_elig})
        out['always_failing_views'] = always
        out['reduced'] = guarded(lambda: classify(views_text(skip=set(always))))
    return out


def main():
    payload = json.load(sys.stdin)
    res = []
    for case in payload['cases']:
        k = case['kind']
        try:
            if k == 'engine':
                res.append(run_engine_case(case))
            elif k == 'legacy':
                res.append(run_legacy_case(case))
            elif k == 'engine_reduced':
                res.append(run_engine_reduced(case))
            elif k == 'rows':
                res.append(run_rows_case(case))
            elif k == 'views':
                res.append(run_views_case(case))
        except BaseException as e:  # noqa
            import traceback
            res.append({'harness_error': traceback.format_exc()[-800:]})
    json.dump({'results': res}, sys.stdout)


main()
