"""C13 (browser totals): for generated classified transactions, run analyze_transactions and write the report with the real
writer (separate data file), and return (a) the data object the browser will load, (b) the command-line totals, and (c) per
transaction id the classification the command line applies to it (so that a filtered subset can be re-totalled).
Amounts arrive as integer ticks (1/64). Runs under /venv/bin/python."""
import json
import os
import sys
import tempfile
import shutil
from datetime import datetime

from tally import analyzer
from tally.classification import categorize_amount

TICK = 64.0


def mk(t):
    d = {'amount': t['a'] / TICK, 'merchant': t['m'], 'category': t['c'], 'subcategory': t['s'],
         'date': datetime.strptime(t['d'], '%Y-%m-%d'), 'source': t.get('src', 'S'), 'description': t.get('desc', t['m'].upper())}
    if t['tags'] is not None:
        d['tags'] = list(t['tags'])
    if t.get('extra'):
        d['extra_fields'] = json.loads(json.dumps(t['extra']))
    return d


def run(case, workdir):
    txns = [mk(t) for t in case['txns']]
    st = analyzer.analyze_transactions(txns)
    d = tempfile.mkdtemp(dir=workdir)
    try:
        analyzer.write_summary_file_vue(st, os.path.join(d, 'out.html'), year=2025, sources=['S'], embedded_html=False)
        js = open(os.path.join(d, 'spending_data.js'), encoding='utf-8').read()
    finally:
        shutil.rmtree(d, ignore_errors=True)
    pre = 'window.spendingData = '
    assert js.startswith(pre), js[:40]
    data = json.loads(js[len(pre):].rstrip().rstrip(';'))
    cli = {k: st[k] for k in ['income_total', 'investment_total', 'spending_total', 'credits_total', 'transfers_in',
                              'transfers_out', 'transfers_net', 'cash_flow', 'count']}
    # what the command line does with each transaction, keyed the way the browser can see it: (merchant, date mm/dd, amount
    # as analysed, tags) -> buckets from the command-line classification of the ORIGINAL amount and the transaction's own tags
    per_txn = []
    for t, x in zip(case['txns'], txns):
        c = categorize_amount(x['amount'], x.get('tags', []))
        per_txn.append({'m': t['m'], 'date': x['date'].strftime('%m/%d'), 'month': x['date'].strftime('%Y-%m'),
                        'amount': x['amount'], 'tags': x.get('tags', []), 'buckets': c})
    return {'data': data, 'cli': cli, 'per_txn': per_txn}


def main():
    payload = json.load(sys.stdin)
    out = []
    for case in payload['cases']:
        try:
            out.append(run(case, payload['workdir']))
        except Exception as e:  # noqa
            import traceback
            out.append({'error': traceback.format_exc()[-600:]})
    json.dump({'results': out}, sys.stdout)


main()
