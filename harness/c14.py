"""C14 — migrating merchant_categories.csv to merchants.rules preserves classification.

Proof  : coq/theories/C14/{Model,Proofs,Props}.v — the conversion is REFUTED at full strength (one theorem per
         defect class) and PROVED for every rule list under the computable guard `safe_rule`, for every regex
         semantics satisfying two named laws (`re_search` is a section variable).
Tie    : for generated CSV rule files, inside Coq: generated text equality, the parsed-back rules (name, category,
         subcategory, tag set, match expression as mini AST), both classifications on every transaction (whole
         file and every rule alone); `unesc`/`lex_ok`/`line_unterminated` against CPython's own literal reading
         over short strings from the escape alphabet; the two regex laws on every (pattern, description) used.
Search : the property itself on the implementation: normalize_merchant over get_all_rules(csv) (fresh process per
         file) versus parse_merchants(csv_to_merchants_content(load_merchant_rules(csv))).match, on merchant /
         category / subcategory / tag set; the generated file failing to load is a violation too.  Each failing
         (file, transaction) is attributed to the rules that fail alone and classified by a predicate over the
         rule and the transaction (the signature); unknown signatures are shrunk and reported as VIOLATION."""
import csv
import datetime
import io
import itertools
import json
import os
import random
import re
from concurrent.futures import ThreadPoolExecutor
from fractions import Fraction

from common import *

COQ_FILES = ['Lib/Str.v', 'C14/Model.v', 'C14/Proofs.v', 'C14/Props.v']
IMPL = os.path.join(os.path.dirname(os.path.abspath(__file__)), 'impl_c14.py')
HEADER_LINE = 'Pattern,Merchant,Category,Subcategory,Tags\n'
UNIT = 6400

# ------------------------------------------------------------------------------------------ generator pools
# (pattern, descriptions that hit or nearly hit it)
SAFE_PATTERNS = [
    ('NETFLIX', ['NETFLIX.COM 866-579', 'Netflix monthly', 'NETFLI X']),
    ('^AMZN', ['AMZN Mktp US*2K4', 'PRIME AMZN']),
    (r'UBER\s*EATS', ['UBER EATS PENDING', 'UberEats 800', 'UBER TRIP HELP']),
    (r'COSTCO(?!\s*GAS)', ['COSTCO WHSE #0123', 'COSTCO GAS #0123', 'costco  gas']),
    ('STARBUCKS|DUNKIN', ['DUNKIN #345', 'Starbucks Store 1', 'STARBUX']),
    (r'WHOLE\s?FOODS', ['WHOLEFOODS MKT', 'WHOLE FOODS 10', 'WHOLE  FOODS']),
    (r'SQ \*[A-Z]+', ['SQ *COFFEE CART', 'SQ * 12']),
    (r'TST\*\s*\w+', ['TST* Burger Bar', 'TST- Burger']),
    (r'[0-9]{4}$', ['POS DEBIT 1234', 'POS DEBIT 12', 'CARD 1234 X']),
    (r'PAYPAL \*(EBAY|ETSY)', ['PAYPAL *ETSY INC', 'PAYPAL *STEAM']),
    (r'AMAZON\.COM', ['AMAZON.COM*MK1', 'AMAZONXCOM']),
    (r'\d{3}-\d{4}', ['CALL 555-1234', 'CALL 55-1234']),
    (r'SHELL\sOIL', ['SHELL OIL 5744', 'SHELLOIL']),
    (r'^.{0,3}LYFT', ['* LYFT RIDE', 'THE LYFT RIDE']),
    (r'TARGET\.COM|TARGET T-', ['TARGET T-1234', 'TARGET.COM *', 'TARGETS']),
    ('H&M', ['H&M 0123', 'H & M']),
    ("TRADER JOE'S", ["TRADER JOE'S #552", 'TRADER JOES']),
    (r'CVS/PHARM', ['CVS/PHARMACY #1', 'CVS PHARMACY']),
    (r'APPLE\.COM/BILL', ['APPLE.COM/BILL 866', 'APPLE COM BILL']),
    (r'(?:GOOGLE|GOOG)\s\*', ['GOOGLE *YouTube', 'GOOG *Storage', 'GOOGLE']),
    (r'DELTA AIR(LINES)?', ['DELTA AIRLINES 006', 'DELTA AIR 006', 'DELTA']),
    (r'[A-Z]{2}\d{6}', ['REF AB123456', 'REF A1234567']),
    (r'WAL-?MART', ['WALMART SUPER', 'WAL-MART #1', 'WAL MART']),
    (r'\$5 FEE', ['MONTHLY $5 FEE', '5 FEE']),
    (r'PIZZA\W+HUT', ['PIZZA  HUT', 'PIZZA-HUT 1', 'PIZZAHUT']),
    ('SPOTIFY', ['Spotify USA', 'SPOTIFY P1', 'spotifi']),
    (r'[^A-Z]7-ELEVEN', ['#7-ELEVEN 3', 'A7-ELEVEN']),
    (r'CAF\S', ['CAFE ROMA', 'CAF ROMA', 'CAFÉ ROMA', 'Café Roma']),
    ('東京', ['東京 STORE 12', 'TOKYO STORE']),
    # plain literals (no regex syntax at all) written in mixed / lower case, as users type merchant names
    ('Trader Joe', ["TRADER JOE'S #552", 'Trader Joe s', 'trader joe', 'TRADER J']),
    ('Lyft', ['LYFT *RIDE SUN', 'Lyft ride', 'lyft', 'LYF T']),
    ('Whole Foods', ['WHOLE FOODS MKT 10', 'Whole Foods Market', 'WHOLEFOODS']),
    ('netflix', ['NETFLIX.COM', 'Netflix.com', 'netflix', 'NETFLI']),
    ('At&t', ['AT&T WIRELESS', 'at&t bill', 'ATT']),
    ("Mcdonald's 12", ["MCDONALD'S 12 MAIN", "McDonald's 12", 'MCDONALDS 12']),
    ('cvs/pharmacy', ['CVS/PHARMACY #1', 'Cvs/Pharmacy', 'CVS PHARMACY']),
    ('Wal-Mart', ['WAL-MART #1', 'wal-mart', 'WALMART']),
]


def case_variants(pat):
    """Letter-case variants of a pattern that mean the same under IGNORECASE (only for patterns without
    backslash escapes or (?...) groups, where changing a letter's case cannot change the syntax)."""
    if '\\' in pat or '(?' in pat or not any(c.isalpha() and c.isascii() for c in pat):
        return [pat]
    return list(dict.fromkeys([pat, pat.lower(), pat.upper(), pat.title(),
                               ''.join(c.lower() if i % 2 else c.upper() for i, c in enumerate(pat))]))
# patterns whose quoting / legacy treatment is expected to go wrong (one hazard each)
HAZ_BACKSLASH = [
    (r'\bUBER\b', ['UBER TRIP', 'SUPERUBER']), (r'A(\d)\1', ['A11', 'A12']), (r'X\\Y', ['X\\Y 1', 'XY']),
    (r'COST\bCO', ['COSTCO', 'COST CO']), (r'A\.B\x2eC', ['A.B.C', 'A.BxC']), (r'END\b', ['THE END', 'ENDS']),
    (r'\x41BC', ['ABC', 'xBC']), (r'TAB\tX', ['TAB\tX', 'TAB X']), (r'Q\101', ['QA', 'Q101']), ('TRAIL\\', ['TRAIL\\', 'TRAIL']),
    (r"JOE\'S", ["JOE'S", 'JOES']), (r'\x2e\x2e', ['AB', '..']), (r'N\x', ['N\\x', 'Nx']), (r'\aBELL', ['\x07BELL', 'aBELL']),
    (r'(?:A|B)\1', ['AA', 'A\x01']),
]
HAZ_QUOTE = [('SAY "HI"', ['SAY "HI" NOW', 'SAY HI']), ('A"B', ['A"B', 'AB']), ('") or regex("', ['ANYTHING', '") or regex("']),
             ('A" "B', ['AB', 'A" "B']), ('"', ['QUOTE " HERE', 'NONE']), ('X", "Y', ['X', 'Y'])]
HAZ_PAREN = [('(UBER|LYFT)', ['UBER TRIP', 'LYFT RIDE']), ('(?i)uber', ['Uber', 'UBER']), ('BARNES and NOBLE', ['BARNES and NOBLE', 'BARNES']),
             ('(COSTCO)', ['COSTCO', 'COST']), ('THIS or THAT', ['THIS or THAT', 'THAT']), ('(A)(B)', ['AB', 'A B'])]
HAZ_CASE = [('UBER (?-i:Eats)', ['UBER Eats', 'UBER EATS']), ('STRASSE', ['straße 5', 'STRASSE 5'])]

AMOUNT_VALUES = ['50', '99.99', '12.5', '100.00', '0.5', '1000', '7.0078125', '20.00', '3']
MERCHANTS = ['Netflix', 'Uber Eats', "Trader Joe's", 'H&M', 'AT&T: Wireless', 'Cafe Rio', 'A, B', 'X [1]', '#hash', 'Amazon',
             'Costco', '7-Eleven', 'key = value', 'Big "Q" Store', 'Café Rio €']
CATEGORIES = ['Food', 'Bills: Utilities', 'Shopping', 'Transport', 'Subscriptions', 'Unknown', 'Health & Fitness']
SUBCATS = ['Groceries', 'Streaming', '', 'Ride: Share', 'Coffee', 'Online']
TAGSETS = [[], [], ['business'], ['a', 'b'], ['Business', 'reimbursable'], ['multi word'], ['x-1', 'Y_2', 'z.3'], ['recurring'],
           ['tax:2025'], ['a', 'A']]


def dec(s):
    return Fraction(s)


def fmt_amount(fr):
    """Decimal text of an amount that is a multiple of 1/6400 (at most 8 decimals)."""
    fr = Fraction(fr)
    assert (fr * UNIT).denominator == 1
    n = fr * 10 ** 8
    assert n.denominator == 1
    n = int(n)
    sign = '-' if n < 0 else ''
    n = abs(n)
    s = f'{n // 10**8}.{n % 10**8:08d}'.rstrip('0')
    return sign + (s + '0' if s.endswith('.') else s)


def gen_mods(rnd, today, hazard=None):
    """Returns list of (text, kind, info) modifier blocks in CSV order."""
    mods = []
    k = rnd.choice([0, 0, 1, 1, 1, 2, 2, 3])
    if hazard in ('aeq', 'rel'):
        k = rnd.choice([0, 1, 1, 2])
    kinds = []
    for _ in range(k):
        kinds.append(rnd.choice(['a>', 'a>=', 'a<', 'a<=', 'a:', 'd=', 'd:', 'm=', 'a=c']))
    if hazard == 'aeq':
        kinds.append('a=')
    if hazard == 'rel':
        kinds.append('rel')
    rnd.shuffle(kinds)
    for kd in kinds:
        sp = rnd.choice(['', '', '', ' '])
        if kd in ('a>', 'a>=', 'a<', 'a<='):
            v = rnd.choice(AMOUNT_VALUES)
            mods.append((f'[amount{sp}{kd[1:]}{sp}{v}]', 'amount', {'op': kd[1:], 'v': v}))
        elif kd == 'a:':
            lo, hi = sorted(rnd.sample(AMOUNT_VALUES, 2), key=dec)
            mods.append((f'[amount:{sp}{lo}{sp}-{sp}{hi}]', 'amount', {'op': ':', 'lo': lo, 'hi': hi}))
        elif kd in ('a=', 'a=c'):
            v = rnd.choice(AMOUNT_VALUES)
            mods.append((f'[amount{sp}={sp}{v}]', 'amount', {'op': '=', 'v': v}))
        elif kd == 'd=':
            d = datetime.date(2025, rnd.randint(1, 12), rnd.randint(1, 28))
            mods.append((f'[date{sp}={sp}{d.isoformat()}]', 'date', {'op': '=', 'd': d}))
        elif kd == 'd:':
            d1 = datetime.date(rnd.choice([2024, 2025]), rnd.randint(1, 12), rnd.randint(1, 28))
            d2 = d1 + datetime.timedelta(days=rnd.choice([0, 1, 30, 364, 400]))
            mods.append((f'[date:{sp}{d1.isoformat()}..{d2.isoformat()}{sp}]', 'date', {'op': ':', 'lo': d1, 'hi': d2}))
        elif kd == 'm=':
            m = rnd.randint(1, 12)
            mods.append((f'[month{sp}={sp}{m}]', 'date', {'op': 'month', 'm': m}))
        elif kd == 'rel':
            n = rnd.choice([7, 30, 90, 365])
            mods.append((f'[date:last{n}days]', 'date', {'op': 'relative', 'n': n}))
    return mods


def gen_rule(rnd, today, hazard):
    """One CSV rule spec. `hazard` names the (single) known-defect feature deliberately put in, or None."""
    pool = {'backslash': HAZ_BACKSLASH, 'quote': HAZ_QUOTE, 'paren': HAZ_PAREN, 'case': HAZ_CASE}.get(hazard, SAFE_PATTERNS)
    pat, descs = rnd.choice(pool)
    if hazard is None and rnd.random() < 0.35:
        pat = rnd.choice(case_variants(pat))
    if hazard is None and rnd.random() < 0.06:
        pat, descs = '', ['ANY DESCRIPTION']           # modifiers only
    spec = {'pattern': pat, 'descs': list(descs), 'mods': gen_mods(rnd, today, hazard if hazard in ('aeq', 'rel') else None),
            'm': rnd.choice(MERCHANTS), 'c': rnd.choice(CATEGORIES), 's': rnd.choice(SUBCATS),
            'tags': list(rnd.choice(TAGSETS)), 'ncols': 5, 'hazard': hazard}
    if rnd.random() < 0.12 and spec['tags']:
        spec['c'] = ''                                    # tag-only rule
        spec['s'] = ''
    if not spec['pattern'] and not spec['mods']:
        spec['pattern'], spec['descs'] = 'NETFLIX', ['NETFLIX.COM']
    if hazard == 'blank':
        which = rnd.choice(['m', 'm2', 'c'])
        if which == 'm':
            spec['m'] = ''
        elif which == 'm2':
            spec['m'] = '  '
        else:
            spec['c'], spec['tags'] = rnd.choice(['', ' ']), []
    elif hazard == 'ws':
        f = rnd.choice(['m', 'c', 's'])
        spec[f] = rnd.choice([' ', '  ']) + (spec[f] or 'Sub') if rnd.random() < .6 else (spec[f] or 'Sub') + ' '
    elif hazard == 'none':
        spec['ncols'] = rnd.choice([2, 3])
        spec['tags'] = []
    elif hazard == 'tag':
        spec['tags'] = rnd.choice([['a,b', 'c'], ['f(x', 'y)'], ['one', 'two,three']])
    elif hazard == 'badmod':
        spec['mods'] = [(rnd.choice(['[amount>>5]', '[month=13]', '[date=2025-13-01]', '[amount=1.2.3]']), 'bad', {})]
    return spec


def rule_line(spec):
    cells = [spec['pattern'] + ''.join(m[0] for m in spec['mods']), spec['m'], spec['c'], spec['s'], '|'.join(spec['tags'])]
    cells = cells[:spec.get('ncols', 5)]
    buf = io.StringIO()
    csv.writer(buf, lineterminator='\n').writerow(cells)
    return buf.getvalue()


def gen_txns(rnd, specs, today, per_rule=4):
    txns = []
    for spec in specs:
        amts, dates = [], []
        for _, kind, info in spec['mods']:
            if kind == 'amount':
                if info['op'] == ':':
                    bs = [dec(info['lo']), dec(info['hi'])]
                else:
                    bs = [dec(info['v'])]
                for b in bs:
                    amts += [b, b + Fraction(1, 100), b - Fraction(1, 100), b + Fraction(1, 128), b - Fraction(1, 128)]
            elif kind == 'date':
                if info['op'] == '=':
                    dates += [info['d'], info['d'] + datetime.timedelta(1), info['d'] - datetime.timedelta(1)]
                elif info['op'] == ':':
                    dates += [info['lo'], info['hi'], info['lo'] - datetime.timedelta(1), info['hi'] + datetime.timedelta(1)]
                elif info['op'] == 'month':
                    m = info['m']
                    first = datetime.date(2025, m, 1)
                    nxt = datetime.date(2025 + (m == 12), m % 12 + 1, 1)
                    dates += [first, nxt - datetime.timedelta(1), first - datetime.timedelta(1), nxt, datetime.date(2025, m, m)]
                elif info['op'] == 'relative':
                    c = today - datetime.timedelta(info['n'])
                    dates += [c, c - datetime.timedelta(1), c + datetime.timedelta(1), today]
        if not amts:
            amts = [Fraction(s) for s in ('5', '12.34', '99.99', '100', '250.5', '-20')]
        if not dates:
            dates = [datetime.date(2025, 3, 15), datetime.date(2024, 12, 31), datetime.date(2025, 7, 1)]
        for _ in range(per_rule):
            d = rnd.choice(spec['descs'])
            if rnd.random() < 0.3:
                d = rnd.choice([d.lower(), d.title(), d.upper(), 'POS ' + d])
            txns.append({'d': d, 'a': fmt_amount(rnd.choice(amts)), 'dt': rnd.choice(dates).isoformat()})
    seen, out = set(), []
    for t in txns:
        k = json.dumps(t, sort_keys=True)
        if k not in seen:
            seen.add(k)
            out.append(t)
    return out


HAZARDS = ['backslash', 'quote', 'paren', 'case', 'aeq', 'rel', 'blank', 'ws', 'none', 'tag', 'badmod']


def make_case(specs, txns, decorate=None):
    lines = [rule_line(s) for s in specs]
    body = ''
    for i, l in enumerate(lines):
        if decorate:
            body += decorate[i % len(decorate)]
        body += l
    return {'header': HEADER_LINE, 'rule_lines': lines, 'csv': HEADER_LINE + body, 'txns': txns, 'specs': specs}


def mk(pattern, m, c, s, tags=(), mods=(), descs=()):
    return {'pattern': pattern, 'descs': list(descs), 'mods': [(x, 'text', {}) for x in mods], 'm': m, 'c': c, 's': s,
            'tags': list(tags), 'ncols': 5, 'hazard': None}


def tx(d, a='12.5', dt='2025-03-15'):
    return {'d': d, 'a': a, 'dt': dt}


def interaction_cases():
    """Deterministic corpus for rule-ORDER and block-IDENTITY effects (the CSV is first-match in file order, tags
    accumulate over all matching rows): the same merchant/category/subcategory/tags repeated on non-adjacent rows
    with an overlapping rule of another merchant in between, exact duplicate rows, same merchant with another
    category, rows out of alphabetical order, shadowing, modifiers on the repeated row, tag-only rows in between."""
    A = ('Amazon', 'Shopping', 'Online')
    P = ('Prime Video', 'Subscriptions', 'Streaming')
    txs = [tx('AMAZON PRIME VIDEO CHANNELS'), tx('AMZN MKTP US*2K4'), tx('PRIME VIDEO *1A2'), tx('AMAZON.COM*MK1'),
           tx('AMZN MKTP PRIME VIDEO'), tx('WHOLE FOODS')]
    out = []
    # the later row of a merchant must not move up past the rule in between
    out.append(([mk('AMZN MKTP', *A), mk('PRIME VIDEO', *P), mk('AMAZON', *A)], txs))
    out.append(([mk('AMZN MKTP', *A, tags=['shop']), mk('PRIME VIDEO', *P, tags=['tv']), mk('AMAZON', *A, tags=['shop'])], txs))
    out.append(([mk('AMZN MKTP', *A), mk('PRIME VIDEO', *P), mk('WHOLE FOODS', 'Whole Foods', 'Food', 'Groceries'),
                 mk('AMAZON', *A)], txs))
    # ... nor the earlier one move down
    out.append(([mk('AMAZON', *A), mk('PRIME VIDEO', *P), mk('AMZN MKTP', *A)], txs))
    # modifiers on the repeated rows (and/or precedence if blocks were merged)
    out.append(([mk('AMZN MKTP', *A, mods=['[amount>50]']), mk('PRIME VIDEO', *P, mods=['[amount<=20]']),
                 mk('AMAZON', *A, mods=['[amount:10-100]'])],
                [tx('AMAZON PRIME VIDEO CHANNELS', a) for a in ('5', '15', '20', '60', '150')]
                + [tx('AMZN MKTP US', a) for a in ('5', '50', '50.01', '150')]))
    out.append(([mk('AMZN', *A, mods=['[month=3]']), mk('PRIME', *P), mk('AMAZON', *A, mods=['[date:2025-01-01..2025-06-30]'])],
                [tx('AMAZON PRIME', dt=d) for d in ('2025-03-15', '2025-07-01', '2024-03-15')]
                + [tx('AMZN PRIME', dt=d) for d in ('2025-03-15', '2025-04-15')] + [tx('AMAZON', dt='2025-07-01')]))
    # adjacent repeats, exact duplicate rows
    out.append(([mk('AMZN MKTP', *A), mk('AMAZON', *A), mk('PRIME VIDEO', *P)], txs))
    out.append(([mk('AMAZON', *A, tags=['x']), mk('PRIME VIDEO', *P), mk('AMAZON', *A, tags=['x'])], txs))
    # same merchant, other category / subcategory / tags: never the same block
    out.append(([mk('AMZN MKTP', *A), mk('PRIME VIDEO', *P), mk('AMAZON', 'Amazon', 'Bills', 'Online')], txs))
    out.append(([mk('AMZN MKTP', *A), mk('PRIME VIDEO', *P), mk('AMAZON', 'Amazon', 'Shopping', 'Video')], txs))
    out.append(([mk('AMZN MKTP', *A, tags=['a']), mk('PRIME VIDEO', *P, tags=['p']), mk('AMAZON', *A, tags=['b'])], txs))
    # merchant names differing only in letter case
    out.append(([mk('AMZN MKTP', 'Amazon', 'Shopping', 'Online'), mk('PRIME VIDEO', *P), mk('AMAZON', 'AMAZON', 'Shopping', 'Online')], txs))
    # tag-only rows in between and repeated tag-only rows (tags accumulate; first categorising row wins)
    out.append(([mk('PRIME', 'Prime tag', '', '', tags=['prime']), mk('AMAZON', *A, tags=['shop']), mk('VIDEO', 'Prime tag', '', '', tags=['prime']),
                 mk('PRIME VIDEO', *P)], txs))
    out.append(([mk('AMAZON', 'T', '', '', tags=['t1']), mk('PRIME VIDEO', *P), mk('CHANNELS', 'T', '', '', tags=['t1']), mk('AMAZON', *A)], txs))
    # rows out of alphabetical order with an overlap (a converter that sorts or groups by name would reorder)
    out.append(([mk('VIDEO', 'Zulu', 'Z', 'z'), mk('PRIME', 'Alpha', 'A', 'a'), mk('AMAZON', 'Mike', 'M', 'm')], txs))
    out.append(([mk('AMAZON', 'Mike', 'M', 'm'), mk('PRIME', 'Alpha', 'A', 'a'), mk('VIDEO', 'Zulu', 'Z', 'z')], txs))
    # general rule first shadows the specific one / specific first
    out.append(([mk('AMAZON', *A), mk('AMAZON PRIME VIDEO', *P)], txs))
    out.append(([mk('AMAZON PRIME VIDEO', *P), mk('AMAZON', *A)], txs))
    # a skipped no-op row between repeats, and one as the first row
    out.append(([mk('AMZN MKTP', *A), mk('PRIME', 'Noop', '', ''), mk('PRIME VIDEO', *P), mk('AMAZON', *A)], txs))
    out.append(([mk('PRIME', 'Noop', '', ''), mk('AMAZON', *A), mk('PRIME VIDEO', *P)], txs))
    return [make_case(specs, t) for specs, t in out]


SEPARATORS = ['\x0b', '\x0c', '\x1c', '\x1d', '\x1e', '\x85', '\u2028', '\u2029']


def separator_cases():
    """ORACLE-ONLY corpus (outside the Coq model's boundary): characters that str.splitlines() treats as line
    breaks but split('\\n') does not — VT, FF, FS, GS, RS, NEL (cp1252 ellipsis read as latin-1), LS, PS — and
    Unicode spaces, inside and at the ends of every kind of cell. The generated file must load and classify
    like the CSV rules."""
    out = []
    for ch in SEPARATORS:
        txs = [tx(f'CAFE{ch}BAR 12'), tx('CAFE BAR 12'), tx('CAFEBAR'), tx('OTHER')]
        out.append(([mk('CAFE', f'Caf{ch}Bar', 'Food', 'Coffee', tags=['t'])], txs))
        out.append(([mk('CAFE', 'Cafe', f'Food{ch}Drink', 'Coffee')], txs))
        out.append(([mk('CAFE', 'Cafe', 'Food', f'Cof{ch}fee')], txs))
        out.append(([mk(f'CAFE{ch}BAR', 'Cafe', 'Food', 'Coffee'), mk('OTHER', 'Other', 'Misc', '')], txs))
        out.append(([mk('CAFE', 'Cafe', 'Food', 'Coffee', tags=[f'a{ch}b', 'c'])], txs))
        out.append(([mk('CAFE', f'{ch}Cafe{ch}', f'Food{ch}', f'{ch}Coffee')], txs))
    for sp in ['\xa0', '\u2003', '\u3000', '\t']:
        txs = [tx(f'CAFE{sp}BAR 12'), tx('CAFE BAR 12')]
        out.append(([mk(f'CAFE{sp}BAR', f'Caf{sp}Bar', f'{sp}Food', f'Coffee{sp}', tags=[f'a{sp}b'])], txs))
    cases = [make_case(specs, t) for specs, t in out]
    for c in cases:
        c['oracle_only'] = True
    return cases


ESCAPE_PAIRS = [
    # two patterns that differ ONLY in the letter case of a meaningful escape (or of nothing but letters), with
    # descriptions separating them: both rules live in ONE file (= one process), both get transactions
    (r'CHECK\s+\d+', r'CHECK\s+\D+', ['CHECK 1042', 'CHECK CARD PURCHASE', 'CHECK  77 X', 'CHECKS']),
    (r'ATM\sWD', r'ATM\SWD', ['ATM WD 12', 'ATM-WD 12', 'ATMWD']),
    (r'ID\w\w', r'ID\W\W', ['IDAB', 'ID--', 'ID A']),
    (r'\bPAY\b', r'\BPAY\B', ['PAY NOW', 'XPAYX', 'REPAY']),
    (r'REF\d{4}', r'REF\D{4}', ['REF1234', 'REFABCD', 'REF12AB']),
    (r'\AZELLE', r'\aZELLE', ['ZELLE TO BOB', '\x07ZELLE', 'X ZELLE']),
    (r'X\d\S', r'X\D\s', ['X1Y', 'XY ', 'X12']),
    ('uber eats', 'UBER EATS', ['Uber Eats 12', 'UBER TRIP']),
    (r'[\d]+ST', r'[\D]+ST', ['12ST', 'ABST', '1AST']),
]


def escape_pair_cases():
    """Deterministic corpus: escape-case pattern pairs in one file, in both orders, as different merchants, and
    with an unrelated rule in between; every description against the whole file."""
    out = []
    for p1, p2, descs in ESCAPE_PAIRS:
        txs = [tx(d) for d in descs] + [tx(d.lower()) for d in descs[:2]]
        a, b = mk(p1, 'First', 'Cat1', 'Sub1', tags=['one']), mk(p2, 'Second', 'Cat2', 'Sub2', tags=['two'])
        mid = mk('NETFLIX', 'Netflix', 'Subs', 'Tv')
        out.append(([a, b], txs))
        out.append(([b, a], txs))
        out.append(([a, mid, b], txs + [tx('NETFLIX.COM')]))
    # all pairs in one file (one process compiles every pattern)
    alls = []
    for i, (p1, p2, descs) in enumerate(ESCAPE_PAIRS):
        alls += [mk(p1, f'A{i}', '', '', tags=[f'a{i}']), mk(p2, f'B{i}', '', '', tags=[f'b{i}'])]
    out.append((alls, [tx(d) for _, _, ds in ESCAPE_PAIRS for d in ds[:2]]))
    return [make_case(specs, t) for specs, t in out]


QUOTING_PATTERNS = [
    # quotes and backslashes in every arrangement: escaped quote, escaped backslash before a quote, quote at
    # either end, runs of backslashes, single quotes, triple quotes, a literal that looks raw / prefixed
    (r'SQ \*\"THE LOCAL\" CAFE', ['SQ *"THE LOCAL" CAFE 12', 'SQ *THE LOCAL CAFE']),
    (r'[^\"]+X', ['ABX', '"X']),
    (r'A\\"B', ['A\\"B', 'A"B']),
    (r'A\\\"B', ['A\\"B', 'A\\B']),
    (r'\"', ['SAY "HI"', 'SAY HI']),
    (r'END\"', ['THE END"', 'THE END']),
    (r'"START', ['"START', 'START']),
    (r'TAIL\\', ['TAIL\\ X', 'TAIL X']),
    (r'\\', ['A\\B', 'AB']),
    ('\\\\\\\\', ['A\\\\B', 'A\\B']),
    ('"""', ['TRIPLE """ Q', 'TRIPLE " Q']),
    ('""', ['TWO "" Q', 'ONE " Q']),
    ('JOE\\\'S \\"BAR\\"', ['JOE\'S "BAR"', 'JOES BAR']),
    ("IT'S", ["IT'S HERE", 'ITS HERE']),
    ("'" * 3, ["A " + "'" * 3 + " B", "A ' B"]),
    ('r"RAW"', ['r"RAW" X', 'RAW X']),
    (r'\d+"', ['12" PIZZA', '12 PIZZA']),
    (r'"\d+', ['SIZE "12', 'SIZE 12']),
    ('\\\\d"', ['\\d" X', '5" X']),
    ('X#"#', ['AX#"# B', 'AX## B']),
]


def quoting_cases():
    """Deterministic corpus: each quoting pattern alone and all of them in one file."""
    out = []
    for i, (p, descs) in enumerate(QUOTING_PATTERNS):
        out.append(([mk(p, f'Q{i}', 'Cat', 'Sub', tags=['q'])], [tx(d) for d in descs]))
    out.append(([mk(p, f'Q{i}', 'Cat', 'Sub') for i, (p, _) in enumerate(QUOTING_PATTERNS)],
                [tx(d) for _, ds in QUOTING_PATTERNS for d in ds]))
    return [make_case(specs, t) for specs, t in out]


SYNTAX_VALUES = [
    # plain values that look like rules-file / expression syntax: comment markers, separators, brackets, quotes,
    # key-like prefixes, assignment, expression text (the reader must take a property value verbatim)
    'Unit #4', 'Kids #2', '#work', 'a # b', 'x  #', '#', 'No. 5 ; misc', 'Food // Drink', 'A: B', 'key: value', ': lead',
    'a = b', 'x=1', '[Bracket]', 'In [brackets] here', '"Quoted"', "'single'", 'back\\slash', 'trail\\', '100%', 'a & b',
    'match: regex("X")', 'category: Other', 'tags: x', 'true', 'amount > 5', 'R&D {team}', 'semi;colon', 'pipe!bang', '-- dash',
    '/* c */', '<tag>', 'tab\there', 'dollar $5', 'at @home', 'star *', 'q?', 'tilde ~', 'caret ^', 'back`tick', 'under_score',
]


def syntax_value_cases():
    """Deterministic corpus: each value as category, as subcategory, as a tag and as merchant of its own rule (one
    file per value, four rules), plus all of them as categories in one file; every rule gets a matching transaction."""
    out = []
    for v in SYNTAX_VALUES:
        tagv = v if not any(ch in v for ch in ',()') and not (v.startswith('{') and v.endswith('}')) else 'plain'
        specs = [mk('CATX', 'McCat', v, 'Sub'), mk('SUBX', 'McSub', 'Cat', v), mk('TAGX', 'McTag', 'Cat', 'Sub', tags=['travel', tagv]),
                 mk('MERX', v, 'Cat', 'Sub', tags=['m']), mk('ONLYTAGX', 'McOnly', '', '', tags=[tagv])]
        out.append((specs, [tx('CATX 1'), tx('SUBX 1'), tx('TAGX 1'), tx('MERX 1'), tx('ONLYTAGX 1'), tx('CATX TAGX ONLYTAGX'), tx('NONE')]))
    some = SYNTAX_VALUES[::3]
    out.append(([mk(f'P{i}X', f'M{i}', v, v, tags=['t']) for i, v in enumerate(some)], [tx(f'P{i}X 1') for i in range(len(some))]))
    return [make_case(specs, t) for specs, t in out]


def dec_text(fr):
    """Exact decimal text of a fraction with a finite decimal expansion."""
    import decimal
    with decimal.localcontext() as ctx:
        ctx.prec = 60
        d = decimal.Decimal(fr.numerator) / decimal.Decimal(fr.denominator)
        s = format(d, 'f')
    if '.' in s:
        s = s.rstrip('0')
        s = s + '0' if s.endswith('.') else s
    return s


AMOUNT_EDGE_VALUES = ['0', '0.01', '0.02', '0.5', '1', '100', '12345678.9', '50000000', '999999999.99']


def amount_boundary_cases():
    """Deterministic corpus: every amount modifier form at one value N (small, zero, and so large that a relative
    tolerance or float spacing matters), all six as tag-only rules of ONE file so that a single transaction shows
    which of them match; amounts N, N +- {0.005, 1/128, 0.01, 0.02, 0.03, 0.05, 0.06}, the float neighbours of N and
    the float results of N +- 0.01, and their negations."""
    import math
    out = []
    for N in AMOUNT_EDGE_VALUES:
        n = Fraction(N)
        hi = dec_text(n + Fraction(1, 100))
        specs = [mk('EDGE', 'Eq', '', '', tags=['eq'], mods=[f'[amount={N}]']),
                 mk('EDGE', 'Gt', '', '', tags=['gt'], mods=[f'[amount>{N}]']),
                 mk('EDGE', 'Ge', '', '', tags=['ge'], mods=[f'[amount>={N}]']),
                 mk('EDGE', 'Lt', '', '', tags=['lt'], mods=[f'[amount<{N}]']),
                 mk('EDGE', 'Le', '', '', tags=['le'], mods=[f'[amount<={N}]']),
                 mk('EDGE', 'Pt', '', '', tags=['pt'], mods=[f'[amount:{N}-{N}]']),
                 mk('EDGE', 'Rg', '', '', tags=['rg'], mods=[f'[amount:{N}-{hi}]']),
                 mk('EDGE', 'Cat', 'C', 'S', mods=[f'[amount={hi}]'])]
        amts = []
        for d in ('0', '0.005', '0.0078125', '0.01', '0.0100001', '0.02', '0.03', '0.05', '0.06'):
            for sg in (1, -1):
                amts.append(dec_text(n + sg * Fraction(d)))
        f = float(N)
        for x in (math.nextafter(f, math.inf), math.nextafter(f, -math.inf), f + 0.01, f - 0.01, f + 0.02, f * (1 + 1e-9), f * (1 - 1e-9)):
            amts.append(dec_text(Fraction(repr(x))) if 'e' not in repr(x) else None)
        amts = [a for a in dict.fromkeys(amts) if a is not None]
        amts += ['-' + a for a in amts[:6] if not a.startswith('-') and Fraction(a) != 0]
        out.append((specs, [tx('EDGE CASE', a) for a in amts]))
    return [make_case(specs, t) for specs, t in out]


def date_boundary_cases():
    """Deterministic corpus: [date:A..B] ranges that start on the 1st and end on the last day, the day before it and
    (February) the 28th/29th of every month, in leap, non-leap and century years; ranges not starting on the 1st,
    crossing a month / a year, one-day and empty ranges; [date=D] and [month=M] at month ends. All ranges of a year
    are tag-only rules of ONE file, so a single transaction shows exactly which of them match; transactions on the
    last days of each month and the first day of the next."""
    import calendar
    out = []
    D = datetime.date
    one = datetime.timedelta(1)
    for y in (2023, 2024, 1900, 2000):
        specs, days = [], set()
        for m in (range(1, 13) if y in (2023, 2024) else (1, 2, 3, 12)):
            last = calendar.monthrange(y, m)[1]
            ends = {last, last - 1} | ({28} if m == 2 else set())
            for e in sorted(ends):
                specs.append(mk('EDGE', f'R{m}_{e}', '', '', tags=[f'r{m}-{e}'], mods=[f'[date:{D(y, m, 1).isoformat()}..{D(y, m, e).isoformat()}]']))
            for d in (D(y, m, last) - one, D(y, m, last), D(y, m, last) + one, D(y, m, 1), D(y, m, 1) - one, D(y, m, 15)):
                days.add(d)
            if m == 2:
                days |= {D(y, 2, 27), D(y, 2, 28), D(y, 3, 1), D(y, 3, 2)}
        specs.append(mk('EDGE', 'Cat', 'C', 'S', mods=[f'[date:{y}-02-01..{y}-02-28]']))
        out.append((specs, [tx('EDGE CASE', dt=d.isoformat()) for d in sorted(days)]))
    y = 2024
    specs = [mk('EDGE', 'A', '', '', tags=['from2'], mods=['[date:2024-02-02..2024-02-29]']),
             mk('EDGE', 'B', '', '', tags=['cross-month'], mods=['[date:2024-01-31..2024-03-01]']),
             mk('EDGE', 'C', '', '', tags=['cross-year'], mods=['[date:2023-12-31..2024-01-01]']),
             mk('EDGE', 'D', '', '', tags=['one-day'], mods=['[date:2024-02-29..2024-02-29]']),
             mk('EDGE', 'E', '', '', tags=['empty'], mods=['[date:2024-03-01..2024-02-29]']),
             mk('EDGE', 'F', '', '', tags=['whole-year'], mods=['[date:2024-01-01..2024-12-31]']),
             mk('EDGE', 'G', '', '', tags=['eq-leap'], mods=['[date=2024-02-29]']),
             mk('EDGE', 'H', '', '', tags=['feb'], mods=['[month=2]']),
             mk('EDGE', 'I', '', '', tags=['dec'], mods=['[month=12]']),
             mk('EDGE', 'J', '', '', tags=['feb-and-range'], mods=['[month=2]', '[date:2024-02-01..2024-02-28]']),
             mk('EDGE', 'K', '', '', tags=['two-months'], mods=['[date:2024-02-01..2024-03-31]']),
             mk('EDGE', 'Cat', 'C', 'S', mods=['[date:2024-04-01..2024-04-30]'])]
    days = [D(2023, 12, 30), D(2023, 12, 31), D(2024, 1, 1), D(2024, 1, 2), D(2024, 1, 30), D(2024, 1, 31), D(2024, 2, 1), D(2024, 2, 2),
            D(2024, 2, 28), D(2024, 2, 29), D(2024, 3, 1), D(2024, 3, 2), D(2024, 3, 31), D(2024, 4, 1), D(2024, 4, 30), D(2024, 5, 1),
            D(2024, 12, 31), D(2025, 1, 1), D(2023, 2, 28), D(2025, 2, 28), D(2025, 4, 15)]
    out.append((specs, [tx('EDGE CASE', dt=d.isoformat()) for d in days]))
    return [make_case(specs, t) for specs, t in out]


def gen_cases(seed, n, today):
    rnd = random.Random(seed)
    cases = (interaction_cases() + separator_cases() + escape_pair_cases() + quoting_cases() + syntax_value_cases()
             + amount_boundary_cases() + date_boundary_cases())
    # boundary stream: every hazard pattern alone, every safe pattern alone with one modifier of each kind
    for hz, pool in (('backslash', HAZ_BACKSLASH), ('quote', HAZ_QUOTE), ('paren', HAZ_PAREN), ('case', HAZ_CASE)):
        for pat, descs in pool:
            spec = {'pattern': pat, 'descs': list(descs), 'mods': [], 'm': 'Merch', 'c': 'Cat', 's': 'Sub', 'tags': ['t1'],
                    'ncols': 5, 'hazard': hz}
            cases.append(make_case([spec], gen_txns(rnd, [spec], today, per_rule=3)))
    for pat, descs in SAFE_PATTERNS:
        vs = case_variants(pat)
        if len(vs) == 1:
            continue
        specs = [{'pattern': v, 'descs': list(descs), 'mods': [], 'm': f'Merch{i}', 'c': 'Cat', 's': 'Sub', 'tags': [f't{i}'],
                  'ncols': 5, 'hazard': None} for i, v in enumerate(vs)]
        tx = [{'d': d2, 'a': '12.5', 'dt': '2025-03-15'} for d in descs[:3] for d2 in dict.fromkeys([d, d.upper(), d.lower()])]
        cases.append(make_case(specs, tx))
    for hz in ('aeq', 'rel', 'blank', 'ws', 'none', 'tag', 'badmod'):
        for _ in range(3):
            spec = gen_rule(rnd, today, hz)
            cases.append(make_case([spec], gen_txns(rnd, [spec], today, per_rule=5)))
    for i in range(n):
        k = rnd.choice([1, 2, 2, 3, 3, 4, 6])
        clean = rnd.random() < 0.6
        specs = []
        for _ in range(k):
            hz = None if clean or rnd.random() < 0.6 else rnd.choice(HAZARDS)
            specs.append(gen_rule(rnd, today, hz))
        deco = None
        if rnd.random() < 0.4:
            deco = rnd.sample(['# a comment line\n', '\n', '   \n', '#UBER,Commented,Out,Rule,\n', '  # indented comment\n', ''], 3)
        cases.append(make_case(specs, gen_txns(rnd, specs, today, per_rule=rnd.choice([2, 3, 4])), deco))
    return cases


# ------------------------------------------------------------------------------------------ direct oracle
def same(a, b):
    """Observable equality of the two paths on one transaction."""
    if 'error' in a or 'error' in b:
        return False
    if a['matched'] != b['matched'] or set(a['tags']) != set(b['tags']):
        return False
    return (not a['matched']) or (a['m'], a['c'], a['s']) == (b['m'], b['c'], b['s'])


def pair_failures(res):
    """Indices of transactions on which the two paths disagree (all, when the generated file does not load)."""
    if 'legacy' not in res or 'content' not in res:
        return None
    n = len(res['legacy'])
    if res.get('load') != 'ok':
        return [i for i in range(n) if 'error' not in res['legacy'][i]]
    return [i for i in range(n) if 'error' not in res['legacy'][i] and not same(res['legacy'][i], res['migrated'][i])]


FN = r'^(contains|normalized|anyof|startswith|fuzzy|regex|extract|split|substring|trim|exists)\s*\('
VAR = r'^(amount|month|year|day|source|description)\s*[<>=!]'


def is_expr_pattern(p):
    return bool(re.match(FN, p) or re.match(VAR, p) or p.startswith('field.') or ' and ' in p or ' or ' in p or p.startswith('('))


def rank(sig):
    """Severity of a culprit's label: unclassified (0) > a class whose finding is recorded as FIXED, i.e. a
    regression, never suppressed (1) > a still-known finding (2)."""
    if sig.startswith('C14/unclassified'):
        return 0
    return 2 if sig in SUPPRESSED else 1


def label(preds):
    """One culprit rule: a still-known defect class that applies explains its failure; otherwise the failure
    is named after a repaired class that applies (regression), otherwise it is unclassified."""
    known = [q for q in preds if q in SUPPRESSED]
    if known:
        return known[0]
    return preds[0] if preds else 'C14/unclassified'


SUPPRESSED = {f['signature'] for f in load_known_findings('C14') if f.get('status') == 'finding'}


def predicates(rule, txn, oracles):
    """Defect-class predicates over ONE loaded rule (impl JSON) and ONE transaction. Classes whose finding is
    recorded as fixed keep their predicate so that a regression is reported under its old name."""
    out = []
    p, m, c, s, tags = rule['p'], rule['m'], rule['c'], rule['s'], rule['tags']
    if m is None or c is None or s is None:
        return ['C14/missing-column-renders-None']
    if '"' in p:
        out.append('C14/quote-in-pattern')
    elif oracles['lit'].get(p, p) != p:
        out.append('C14/backslash-escape-in-pattern')
    if any(d['op'] == 'relative' for d in rule['dc']):
        out.append('C14/relative-date-modifier')
    a = Fraction(txn['a'])
    for cnd in rule['ac']:
        if cnd['op'] == '=' and 0 < abs(a - Fraction(cnd['v'])) < Fraction(101, 10000):
            out.append('C14/amount-eq-tolerance')
            break
    if not c.strip() and not tags:
        out.append('C14/blank-merchant-or-category')
    elif not m.strip():
        out.append('C14/blank-merchant')
    elif any(x != x.strip() for x in (m, c, s)):
        out.append('C14/name-whitespace-trimmed')
    if is_expr_pattern(p):
        out.append('C14/legacy-paren-pattern-is-expression')
    if any((ch in t) for t in tags for ch in ',()'):
        out.append('C14/comma-in-tag')
    d = txn['d']
    if d != d.upper() and oracles['re'].get((p, d), 0) != oracles['re'].get((p, d.upper()), 0):
        out.append('C14/description-uppercased-before-search')
    return out


def oracle_tables(res):
    return {'lit': {p: u for p, u in res.get('lit', [])}, 're': {(p, d): v for p, d, v in res.get('re', [])}}


UNALIGNED = [0]


def analyse(case, res):
    """Returns list of failures: dicts {txn index, culprits [(rule index, preds)], signature}."""
    fails = pair_failures(res)
    if not fails:
        return []
    tabs = oracle_tables(res)
    loaded = res.get('loaded') or []
    alone = res.get('alone') or []
    aligned = len(loaded) == len(alone) and all(a.get('n_loaded') == 1 for a in alone)
    if not aligned:
        UNALIGNED[0] += 1
    out = []
    for i in fails:
        culprits = []
        if aligned:
            for j, a in enumerate(alone):
                af = pair_failures(a)
                if af is not None and i in af:
                    culprits.append((j, predicates(loaded[j], case['txns'][i], tabs)))
        if not culprits:
            sig = 'C14/unclassified-interaction' if aligned else 'C14/unclassified-unaligned'
            if not aligned:       # rows dropped by the loader: classify over all loaded rules
                ls = sorted({label(predicates(r, case['txns'][i], tabs)) for r in loaded}, key=rank)
                if ls and not ls[-1].startswith('C14/unclassified'):
                    sig = ls[-1]
        else:
            sigs = [label(ps) for j, ps in culprits]
            sig = sorted(sigs, key=rank)[0]
        out.append({'txn': i, 'culprits': culprits, 'signature': sig})
    return out


# ------------------------------------------------------------------------------------------ running, shrinking
def run_files(cases, today_chk=True, timeout=1500):
    d = os.path.join(WORK, 'C14_impl')
    os.makedirs(d, exist_ok=True)
    payload = {'workdir': d, 'files': [{k: c[k] for k in ('header', 'rule_lines', 'csv', 'txns')} for c in cases]}
    return run_impl(IMPL, payload, timeout=timeout)


def case_fails(case, want_sig=None):
    out = run_files([case])
    res = out['files'][0]
    fl = analyse(case, res)
    if want_sig is None:
        return bool(fl)
    return any(f['signature'] == want_sig for f in fl)


def respec(spec, **kw):
    s = dict(spec)
    s.update(kw)
    return s


def shrink(case, sig, budget=40):
    """Greedy: fewer rules, fewer transactions, fewer modifiers, plainer names, shorter pattern — keeping the signature."""
    specs, txns = list(case['specs']), list(case['txns'])
    used = [0]

    def ok(sp, tx):
        if used[0] >= budget or not sp or not tx:
            return False
        used[0] += 1
        try:
            return case_fails(make_case(sp, tx), sig)
        except Exception:  # noqa
            return False
    changed = True
    while changed and used[0] < budget:
        changed = False
        for i in range(len(specs)):
            if len(specs) > 1 and ok(specs[:i] + specs[i + 1:], txns):
                specs, changed = specs[:i] + specs[i + 1:], True
                break
        if changed:
            continue
        for i in range(len(txns)):
            if len(txns) > 1 and ok(specs, txns[:i] + txns[i + 1:]):
                txns, changed = txns[:i] + txns[i + 1:], True
                break
        if changed:
            continue
        for i, s in enumerate(specs):
            cands = [respec(s, mods=s['mods'][:k] + s['mods'][k + 1:]) for k in range(len(s['mods']))]
            if s['tags']:
                cands.append(respec(s, tags=[]))
                cands.append(respec(s, tags=s['tags'][:1]))
            for f, plain in (('m', 'M'), ('c', 'C'), ('s', 'S')):
                if s[f] != plain:
                    cands.append(respec(s, **{f: plain}))
            p = s['pattern']
            if len(p) > 1:
                cands += [respec(s, pattern=p[:k] + p[k + 1:]) for k in range(len(p))][:12]
            for c in cands:
                if ok(specs[:i] + [c] + specs[i + 1:], txns):
                    specs = specs[:i] + [c] + specs[i + 1:]
                    changed = True
                    break
            if changed:
                break
    return make_case(specs, txns)


def public_case(case):
    specs = [{k: (v if k != 'mods' else [m[0] for m in v]) for k, v in s.items() if k not in ('descs',)} for s in case['specs']]
    return {'csv': case['csv'], 'header': case['header'], 'rule_lines': case['rule_lines'], 'txns': case['txns'], 'specs': specs}


# ------------------------------------------------------------------------------------------ model side (Coq)
HEADER = r'''From Coq Require Import String Ascii List Bool ZArith NArith.
From Tally Require Import Lib.Str C14.Model.
Import ListNotations.
Open Scope string_scope.
Definition sbytes (l : list N) : string := fold_right (fun n s => String (Ascii.ascii_of_N n) s) EmptyString l.
Definition R := Build_csv_rule. Definition A := Build_acond. Definition T := Build_txn. Definition ER := Build_eng_rule.
Definition cmp_eqb (a b : cmp) : bool :=
  match a, b with CGt, CGt | CGe, CGe | CLt, CLt | CLe, CLe | CEq, CEq => true | _, _ => false end.
Definition atom_eqb (a b : eatom) : bool :=
  match a, b with
  | ERegex p, ERegex q => String.eqb p q
  | EAmt o v, EAmt o' v' => (cmp_eqb o o' && Z.eqb v v')%bool
  | EAmtNear v, EAmtNear v' => Z.eqb v v'
  | EDate o d, EDate o' d' => (cmp_eqb o o' && Z.eqb d d')%bool
  | EMonth m, EMonth m' => Z.eqb m m'
  | _, _ => false
  end.
Fixpoint list_eqb {X} (e : X -> X -> bool) (a b : list X) : bool :=
  match a, b with [], [] => true | x :: r, y :: s => (e x y && list_eqb e r s)%bool | _, _ => false end.
Definition set_eqb (a b : list string) : bool := (forallb (fun x => mem x b) a && forallb (fun x => mem x a) b)%bool.
Definition erule_eqb (a b : eng_rule) : bool :=
  (String.eqb (e_name a) (e_name b) && String.eqb (e_cat a) (e_cat b) && String.eqb (e_sub a) (e_sub b)
   && set_eqb (e_tags a) (e_tags b) && list_eqb atom_eqb (e_match a) (e_match b))%bool.
Inductive eload := XOk (l : list eng_rule) | XErr | XSkip | XOutside.
Definition load_ok (rules : list csv_rule) (x : eload) : bool :=
  match x, load_all rules with
  | XSkip, _ => true | _, LUnm => true
  | XErr, LErr => true
  | XOk l, LOk l' => list_eqb erule_eqb l' l
  | _, _ => false
  end.
Definition xres := option (option (string * string * string) * list string).
Definition cls_eqb (a b : option (string * string * string)) : bool :=
  match a, b with
  | None, None => true
  | Some (m, c, s), Some (m', c', s') => (String.eqb m m' && String.eqb c c' && String.eqb s s')%bool
  | _, _ => false
  end.
Definition res_ok (r : result) (x : xres) : bool :=
  match x with None => true | Some (c, tg) => (cls_eqb (r_cls r) c && set_eqb (r_tags r) tg)%bool end.
Fixpoint assoc (p : string) (l : list (string * option bool)) : option bool :=
  match l with [] => None | (q, v) :: r => if String.eqb p q then v else assoc p r end.
(* every regex query the model makes must be answered by the table *)
Definition queries_ok (tbl : list (string * string * option bool)) (rules : list csv_rule) (t : txn) : bool :=
  forallb (fun r => (match tbl_lookup tbl (pat r) (upper (desc t)) with Some _ => true | None => false end
                     && match tbl_lookup tbl (pat r) (desc t) with Some _ => true | None => false end)%bool) rules.
(* one sub-case: rules, today, expected text (or none), expected load, regex table,
   transactions with (legacy-expression answers, expected legacy result, expected migrated result) *)
Definition case_t : Type := (list csv_rule * Z * option string * eload * list (string * string * option bool)
                      * list (txn * list (string * option bool) * xres * xres))%type.
Definition check (c : case_t) : list nat :=
  let '(rules, today, text, xl, tbl, txs) := c in
  let re := tbl_search tbl in
  app (match text with Some s => if String.eqb (gen_content rules) s then [] else [1%nat] | None => [] end)
  (app (if load_ok rules xl then [] else [2%nat])
  (app (if forallb cells_stripped rules then [] else [6%nat])          (* the loader strips the cells *)
  (flat_map (fun '(t, lx, xleg, xmig) =>
        app (if queries_ok tbl rules t then [] else [3%nat])
        (app (if res_ok (legacy_classify re (fun p _ => assoc p lx) today rules t) xleg then [] else [4%nat])
            (match load_all rules with
            | LOk ers => if res_ok (engine_classify re ers t) xmig then [] else [5%nat]
            | _ => []
            end))) txs))).
(* how many generated rules lie inside the guard of c14_conversion_preserves_partial (whole-file sub-cases only) *)
Definition safe_count (l : list case_t) : nat * nat :=
  fold_right (fun (c : case_t) acc =>
    let '(rules, _, text, _, _, _) := c in
    match text with
    | Some _ => (fst acc + length (filter safe_rule rules), snd acc + length rules)%nat
    | None => acc
    end) (0, 0)%nat l.
Fixpoint failing (i : nat) (l : list case_t) : list (nat * list nat) :=
  match l with [] => [] | c :: r => match check c with [] => failing (S i) r | e => (i, e) :: failing (S i) r end end.
'''


GEN_HEADER = ('# Tally Merchant Rules\n# Migrated from merchant_categories.csv\n#\n# Format:\n#   [Rule Name]\n'
              '#   match: <expression>\n#   category: <category>\n#   subcategory: <subcategory>\n'
              '#   tags: tag1, tag2  # optional\n\n')
HEADER += 'Definition HDR : string := "' + GEN_HEADER + '".\n'


def z(n):
    return f'({n})' if n < 0 else str(n)


def cstr(s):
    """Coq string term for arbitrary text: printable ASCII and newlines literally, other bytes through sbytes."""
    bs = s.encode('utf-8')
    if all(32 <= c < 127 or c == 10 for c in bs):
        return '"' + bs.decode('ascii').replace('"', '""') + '"'
    parts, cur, odd = [], bytearray(), []
    for c in bs:
        if 32 <= c < 127 or c == 10:
            if odd:
                parts.append('sbytes [' + ';'.join(str(x) for x in odd) + ']%N')
                odd = []
            cur.append(c)
        else:
            if cur:
                parts.append('"' + cur.decode('ascii').replace('"', '""') + '"')
                cur = bytearray()
            odd.append(c)
    if odd:
        parts.append('sbytes [' + ';'.join(str(x) for x in odd) + ']%N')
    if cur:
        parts.append('"' + cur.decode('ascii').replace('"', '""') + '"')
    return '(' + ' ++ '.join(parts) + ')'


def units(s):
    """Exact value of the double float(s) in units of 2^-64 (None for doubles finer than that: 0 < |x| < 2^-11)."""
    fr = Fraction(float(s)) * (1 << 64)
    return int(fr) if fr.denominator == 1 else None


def ascii_upper(s):
    return ''.join(chr(ord(c) - 32) if 'a' <= c <= 'z' else c for c in s)


def ascii_lower(s):
    return ''.join(chr(ord(c) + 32) if 'A' <= c <= 'Z' else c for c in s)


class Skip(Exception):
    pass


def coq_rule(r):
    if any(r[k] is None for k in ('m', 'c', 's')) or not isinstance(r['p'], str):
        raise Skip('none-field')
    am = []
    for c in r['ac']:
        op = {'>': 'AGt', '>=': 'AGe', '<': 'ALt', '<=': 'ALe', '=': 'AEq', ':': 'ARange'}[c['op']]
        vt = c['lo'] if c['op'] == ':' else c['v']
        ht = c['hi'] if c['op'] == ':' else ''
        v = units(vt)
        hi = units(ht) if c['op'] == ':' else 0
        if v is None or hi is None:
            raise Skip('amount-finer-than-model-unit')
        am.append(f'A {op} {z(v)} {z(hi)} {coq_str(vt)} {coq_str(ht)}')
    dt = []
    for c in r['dc']:
        if c['op'] == '=':
            dt.append(f'DEq {c["value"]}')
        elif c['op'] == ':':
            dt.append(f'DRange {c["start"]} {c["end"]}')
        elif c['op'] == 'month':
            dt.append(f'DMonth {c["month"]}')
        else:
            dt.append(f'DRel {c["days"]}')
    for t in r['tags']:
        if ascii_lower(t) != t.lower():
            raise Skip('non-ascii-case')
    return (f'R {coq_str(r["p"])} [{"; ".join(am)}]%Z [{"; ".join(dt)}]%Z {coq_str(r["m"])} {coq_str(r["c"])} '
            f'{coq_str(r["s"])} [{"; ".join(coq_str(t) for t in r["tags"])}]')


def coq_opt_bool(v):
    return {True: 'Some true', False: 'Some false', None: 'None'}[v]


def coq_xres(r):
    if r is None or 'error' in r:
        return 'None'
    cls = f'Some ({coq_str(r["m"])}, {coq_str(r["c"])}, {coq_str(r["s"])})' if r['matched'] else 'None'
    return f'Some ({cls}, [{"; ".join(coq_str(t) for t in r["tags"])}])'


def coq_atoms(a):
    out = []
    ops = {'>': 'CGt', '>=': 'CGe', '<': 'CLt', '<=': 'CLe', '==': 'CEq'}
    for x in a:
        if x[0] == 're':
            out.append(f'ERegex {coq_str(x[1])}')
        elif x[0] == 'amt':
            u = units(x[2])
            if u is None:
                raise Skip('amount-finer-than-model-unit')
            out.append(f'EAmt {ops[x[1]]} {z(u)}')
        elif x[0] == 'near':
            u = units(x[1])
            if u is None:
                raise Skip('amount-finer-than-model-unit')
            out.append(f'EAmtNear {z(u)}')
        elif x[0] == 'date':
            out.append(f'EDate {ops[x[1]]} {x[2]}')
        else:
            out.append(f'EMonth {x[1]}')
    return '[' + '; '.join(out) + ']%Z'


def coq_subcase(sub, txns, today, tabs_src, stats, with_text=True):
    """sub: a run_pair result (whole file or one rule alone). Returns Coq term or raises Skip."""
    if 'loaded' not in sub or 'content' not in sub:
        raise Skip('no-loaded')
    rules = [coq_rule(r) for r in sub['loaded']]
    if len(sub['content']) > 6000:
        raise Skip('long')
    if sub['load'] == 'ok':
        ers = []
        outside = any(e['ast'] is None or isinstance(e['ast'], dict) for e in sub['engine_rules'])
        for e in ([] if outside else sub['engine_rules']):
            ers.append(f'ER {coq_str(e["name"])} {coq_str(e["c"])} {coq_str(e["s"])} [{"; ".join(coq_str(t) for t in e["tags"])}] {coq_atoms(e["ast"])}')
        xl = 'XOutside' if outside else f'XOk [{"; ".join(ers)}]'
    else:
        xl = 'XErr' if sub['load'].get('error') == 'MerchantParseError' else 'XSkip'
    pats = set()
    for r in sub['loaded']:
        pats.add(r['p'])
    tbl, txs = [], []
    texts = set()
    for i, t in enumerate(txns):
        d = t['d']
        if ascii_upper(d) != tabs_src['upper'][d]:
            stats['txn_skipped_non_ascii_upper'] = stats.get('txn_skipped_non_ascii_upper', 0) + 1
            continue
        a = units(t['a'])
        if a is None:
            stats['txn_skipped_amount_finer_than_model_unit'] = stats.get('txn_skipped_amount_finer_than_model_unit', 0) + 1
            continue
        leg, mig = sub['legacy'][i], (sub.get('migrated') or [None] * len(txns))[i]
        lx = []
        bad = False
        for p, row in tabs_src['lx']:
            if p not in pats or not is_expr_pattern(p):      # only the legacy-expression answers this sub-case can use
                continue
            if isinstance(row[i], str):
                bad = True
            else:
                lx.append(f'({coq_str(p)}, {coq_opt_bool(row[i])})')
        for text in (d, tabs_src['upper'][d]):
            texts.add(text)
        if bad:
            stats['txn_skipped_legacy_crash'] = stats.get('txn_skipped_legacy_crash', 0) + 1
            continue
        ordd = datetime.date.fromisoformat(t['dt']).toordinal()
        txs.append(f'(T {coq_str(d)} {z(a)} {ordd}, [{"; ".join(lx)}], {coq_xres(leg)}, {coq_xres(mig)})')
    for p in sorted(pats):
        for text in sorted(texts):
            v = tabs_src['re'].get((p, text), 'missing')
            if v == 'missing':
                continue
            if isinstance(v, str):
                raise Skip('re-crash')
            tbl.append(f'({coq_str(p)}, {coq_str(text)}, {coq_opt_bool(v)})')
    if not with_text:
        text = 'None'
    elif sub['content'].startswith(GEN_HEADER):
        text = f'(Some (HDR ++ {cstr(sub["content"][len(GEN_HEADER):])}))'
    else:
        text = f'(Some {cstr(sub["content"])})'
    return (f'([{"; ".join(rules)}], {today}%Z, {text}, {xl}, [{"; ".join(tbl)}], [{"; ".join(txs)}])', len(txs))


def run_chunk(args):
    name, body = args
    rc, out, errt = run_cases(name, HEADER, body, timeout=900)
    return rc, out, errt


def model_check(cases, results, today, stats, chunk=120):
    terms, where = [], []
    for ci, (case, res) in enumerate(zip(cases, results)):
        if case.get('oracle_only'):
            stats['oracle_only_files'] = stats.get('oracle_only_files', 0) + 1
            stats['oracle_only_pairs'] = stats.get('oracle_only_pairs', 0) + len(case['txns'])
            continue
        if 'loaded' not in res or 're' not in res:
            stats['files_skipped_loader'] = stats.get('files_skipped_loader', 0) + 1
            continue
        tabs = {'lit': {p: u for p, u in res['lit']}, 're': {(p, d): v for p, d, v in res['re']}, 'lx': res['lx'],
                'upper': {t['d']: res['upper'][k] for k, t in enumerate(case['txns'])}}
        subs = [('file', res)]
        alone = res.get('alone') or []
        if len(alone) == len(res['loaded']) > 1 and all(a.get('n_loaded') == 1 for a in alone):
            for j, a in enumerate(alone):
                a = dict(a)
                a['loaded'] = [res['loaded'][j]]
                if a.get('load') == 'ok':
                    a['engine_rules'] = a.get('engine_rules')
                subs.append((f'rule{j}', a))
        for label, sub in subs:
            try:
                if label != 'file' and sub.get('load') == 'ok' and sub.get('engine_rules') is None:
                    raise Skip('alone-no-engine-rules')
                term, ntx = coq_subcase(sub, case['txns'], today, tabs, stats, with_text=(label == 'file'))
            except Skip as e:
                stats['skip:' + str(e)] = stats.get('skip:' + str(e), 0) + 1
                continue
            terms.append(term)
            where.append((ci, label))
            stats['model_txn_evals'] = stats.get('model_txn_evals', 0) + ntx
    jobs = []
    for off in range(0, len(terms), chunk):
        part = terms[off:off + chunk]
        body = ''.join(f'Definition c{i} : case_t :=\n{t}.\n' for i, t in enumerate(part))
        body += 'Definition cases : list case_t := [' + '; '.join(f'c{i}' for i in range(len(part))) + '].\nEval vm_compute in failing 0 cases.\nEval vm_compute in safe_count cases.\n'
        jobs.append((f'C14_{off // chunk}', body))
    bad = []
    with ThreadPoolExecutor(max_workers=4) as ex:
        outs = list(ex.map(run_chunk, jobs))
    for k, (rc, out, errt) in enumerate(outs):
        m = re.search(r'=\s*(\[.*\])\s*:\s*list \(nat \* list nat\)', out, re.S)
        if rc != 0 or not m:
            return None, where, (out + errt)[-1500:]
        ms = re.search(r'=\s*\((\d+)(?:%nat)?,\s*(\d+)(?:%nat)?\)\s*:\s*nat \* nat', out)
        if ms:
            stats['rules_inside_guard'] = stats.get('rules_inside_guard', 0) + int(ms.group(1))
            stats['rules_in_coq_files'] = stats.get('rules_in_coq_files', 0) + int(ms.group(2))
        txt = m.group(1).replace('%nat', '')
        for mm in re.finditer(r'\((\d+),\s*\[([^\]]*)\]\)', txt):
            bad.append((where[k * chunk + int(mm.group(1))], [int(x) for x in mm.group(2).replace(' ', '').replace('\n', '').split(';') if x]))
    return bad, where, ''


# ---- un-escaping / lexing correspondence ---------------------------------------------------------------
LIT_HEADER = r'''From Coq Require Import String Ascii List Bool ZArith NArith.
From Tally Require Import Lib.Str C14.Model.
Import ListNotations.
Open Scope string_scope.
Definition sbytes (l : list N) : string := fold_right (fun n s => String (Ascii.ascii_of_N n) s) EmptyString l.
Definition dqs : string := String (chr 34) "".
(* (body, what CPython reads for "body": Some value | None) *)
Definition ok (c : string * option string) : bool :=
  let '(s, py) := c in
  if lex_ok s then
    match unesc s, py with
    | UVal v, Some w => String.eqb v w
    | UErr, None => true
    | UUnm, _ => true
    | _, _ => false
    end
  else match line_unterminated ("(" ++ dqs ++ s ++ dqs ++ ")"), py with
       | Some true, Some _ => false
       | _, _ => true
       end.
Definition idok (c : string * option string) : bool :=     (* esc_free s <-> CPython reads s back, for lexable s *)
  let '(s, py) := c in
  if lex_ok s then Bool.eqb (esc_free s) (match py with Some w => String.eqb w s | None => false end) else true.
Fixpoint failing (i : nat) (l : list (string * option string)) : list nat :=
  match l with [] => [] | c :: r => if (ok c && idok c)%bool then failing (S i) r else i :: failing (S i) r end.
'''


def lit_strings(seed, tier):
    alpha = ['\\', '"', "'", 'a', 'b', 'n', 'x', '0', '1', '7', '8', '4', 'N', 'u', '{', 'g', ' ', '#', 'f', 'A']
    out = ['']
    small = alpha[:14] if tier == 'quick' else alpha
    for L in (1, 2, 3):
        for tup in itertools.product(small if L == 3 else alpha, repeat=L):
            out.append(''.join(tup))
    if tier != 'quick':
        for tup in itertools.product(alpha[:12], repeat=4):
            out.append(''.join(tup))
    rnd = random.Random(seed + 14)
    for _ in range(1500 if tier == 'quick' else 20000):
        out.append(''.join(rnd.choice(alpha + ['\\', '\\']) for _ in range(rnd.randint(4, 8))))
    out += [p for p, _ in SAFE_PATTERNS + HAZ_BACKSLASH + HAZ_QUOTE + HAZ_PAREN + HAZ_CASE]
    return list(dict.fromkeys(out))


def lit_check(seed, tier):
    strings = lit_strings(seed, tier)
    d = os.path.join(WORK, 'C14_impl')
    os.makedirs(d, exist_ok=True)
    vals = run_impl(IMPL, {'workdir': d, 'lit': strings})['lit']
    rows = []
    for s, v in zip(strings, vals):
        rows.append(f'({coq_str(s)}, {"None" if v is None else "Some " + coq_str(v)})')
    jobs = []
    CH = 4000
    for off in range(0, len(rows), CH):
        jobs.append((f'C14_lit_{off // CH}', 'Definition cases := [\n' + ';\n'.join(rows[off:off + CH]) +
                     '\n].\nEval vm_compute in failing 0 cases.\n'))
    bad = []

    def go(job):
        return run_cases(job[0], LIT_HEADER, job[1], timeout=900)
    with ThreadPoolExecutor(max_workers=4) as ex:
        outs = list(ex.map(go, jobs))
    for k, (rc, out, errt) in enumerate(outs):
        m = re.search(r'=\s*\[(.*?)\]\s*:\s*list nat', out, re.S)
        if rc != 0 or not m:
            return None, len(strings), (out + errt)[-800:]
        bad += [strings[k * CH + int(x)] for x in m.group(1).replace('%nat', '').replace('\n', ' ').split(';') if x.strip()]
    return bad, len(strings), ''


# ---- line reader correspondence --------------------------------------------------------------------------
PROBE_HEADER = r'''From Coq Require Import String Ascii List Bool ZArith NArith.
From Tally Require Import Lib.Str C14.Model.
Import ListNotations.
Open Scope string_scope.
Definition sbytes (l : list N) : string := fold_right (fun n s => String (Ascii.ascii_of_N n) s) EmptyString l.
Definition set_eqb (a b : list string) : bool := (forallb (fun x => mem x b) a && forallb (fun x => mem x a) b)%bool.
(* a complete block [Probe] / match: true / category: Z0 / subcategory: Z1 / tags: z2 followed by ONE more line:
   None = not modelled (match/let/field/priority), Some None = the file is rejected,
   Some (Some (name, merchant, category, subcategory, tags)) = the single rule that results *)
Definition expect (line : string) : option (option (string * string * string * string * list string)) :=
  match classify_line true line with
  | KBlank | KComment => Some (Some ("Probe", "Probe", "Z0", "Z1", ["z2"]))
  | KHeader _ | KEmptyHeader | KGarbage | KTopLevel => Some None
  | KProp k v =>
    if String.eqb k "category" then Some (Some ("Probe", "Probe", v, "Z1", ["z2"]))
    else if String.eqb k "subcategory" then Some (Some ("Probe", "Probe", "Z0", v, ["z2"]))
    else if String.eqb k "tags" then Some (Some ("Probe", "Probe", "Z0", "Z1", split_tags v))
    else if String.eqb k "merchant" then Some (Some ("Probe", (if nonempty v then v else "Probe"), "Z0", "Z1", ["z2"]))
    else if (String.eqb k "match" || String.eqb k "let" || String.eqb k "field" || String.eqb k "priority")%bool then None
    else Some None
  end.
Definition ok (c : string * option (string * string * string * string * list string)) : bool :=
  let '(line, obs) := c in
  match expect line, obs with
  | None, _ => true
  | Some None, None => true
  | Some (Some (n, m, ca, su, tg)), Some (n', m', ca', su', tg') =>
    (String.eqb n n' && String.eqb m m' && String.eqb ca ca' && String.eqb su su' && set_eqb tg tg')%bool
  | _, _ => false
  end.
Fixpoint failing (i : nat) (l : list (string * option (string * string * string * string * list string))) : list nat :=
  match l with [] => [] | c :: r => if ok c then failing (S i) r else i :: failing (S i) r end.
'''


def probe_lines():
    vals = SYNTAX_VALUES + ['', ' ', 'plain', 'a,b', 'f(x, y), z', ' padded ', 'x ]', '[ y']
    out = ['', '   ', '# comment', '  # indented', 'category:', 'tags:', 'tags: ,', 'subcategory :x', 'CATEGORY: Up', ' Tags : A , b ']
    for v in vals:
        out += [f'category: {v}', f'subcategory:{v}', f'  tags :  {v}, x', f'[{v}]', v, f'Category: {v}', f'merchant: {v}',
                f'unknown: {v}', f'[ {v} ]  ']
    return [l for l in dict.fromkeys(out) if not any(ch in l for ch in '\n\r\x00')]


def probe_check():
    lines = probe_lines()
    obs = run_impl(IMPL, {'workdir': WORK, 'probe': lines})['probe']
    rows = []
    for l, o in zip(lines, obs):
        if o is None or len(o) != 1:
            term = 'None'
        else:
            n, m, c, sc, tg = o[0]
            term = f'Some ({cstr(n)}, {cstr(m)}, {cstr(c)}, {cstr(sc)}, [{"; ".join(cstr(t) for t in tg)}])'
        rows.append(f'({cstr(l)}, {term})')
    body = 'Definition cases := [\n' + ';\n'.join(rows) + '\n].\nEval vm_compute in failing 0 cases.\n'
    rc, out, errt = run_cases('C14_probe', PROBE_HEADER, body, timeout=600)
    m = re.search(r'=\s*\[(.*?)\]\s*:\s*list nat', out, re.S)
    if rc != 0 or not m:
        return None, len(lines), (out + errt)[-800:]
    bad = [lines[int(x)] for x in m.group(1).replace('%nat', '').replace('\n', ' ').split(';') if x.strip()]
    return bad, len(lines), ''


# ------------------------------------------------------------------------------------------ witnesses of the refutations
WITNESSES = [
    # (expected signature or None = must migrate faithfully, csv rule line, transaction)
    # -- witnesses of the refutations in C14/Props.v, replayed on the real code
    ('C14/relative-date-modifier', 'X[amount>3][date:last30days],R,C,S,\n', {'d': 'X', 'a': '5.0', 'dt': '2020-01-01'}),
    ('C14/relative-date-modifier', 'X[date:last30days],R,C,S,\n', {'d': 'X', 'a': '5.0', 'dt': '2020-01-01'}),
    ('C14/blank-merchant', 'X,  ,C,S,\n', {'d': 'X', 'a': '5.0', 'dt': '2025-01-01'}),
    ('C14/legacy-paren-pattern-is-expression', '(UBER|LYFT),Ride,C,S,\n', {'d': 'UBER TRIP', 'a': '5.0', 'dt': '2025-01-01'}),
    ('C14/comma-in-tag', 'X,M,C,S,"a,b|c"\n', {'d': 'X', 'a': '5.0', 'dt': '2025-01-01'}),
    ('C14/description-uppercased-before-search', 'UBER (?-i:Eats),M,C,S,\n', {'d': 'UBER Eats', 'a': '5.0', 'dt': '2025-01-01'}),
    # -- witnesses of the repaired defects (c14_fixed_* Examples): must now agree
    (None, '\\bUBER\\b,Uber,Transport,Ride,\n', {'d': 'UBER TRIP', 'a': '5.0', 'dt': '2025-01-01'}),
    (None, 'A(\\d)\\1,Rep,C,S,\n', {'d': 'A11', 'a': '5.0', 'dt': '2025-01-01'}),
    (None, '"A""B",Q,C,S,\n', {'d': 'A"B', 'a': '5.0', 'dt': '2025-01-01'}),
    (None, 'END\\,E,C,S,\n', {'d': 'END\\', 'a': '5.0', 'dt': '2025-01-01'}),
    (None, 'X[amount=10.00],E,C,S,\n', {'d': 'X', 'a': '10.0078125', 'dt': '2025-01-01'}),
    (None, 'X[amount=10.00],E,C,S,\n', {'d': 'X', 'a': '10.01', 'dt': '2025-01-01'}),
    (None, 'X,M, ,S,\n', {'d': 'X', 'a': '5.0', 'dt': '2025-01-01'}),
    (None, 'NETFLIX, Netflix, Subs ,Stream,\n', {'d': 'NETFLIX', 'a': '5.0', 'dt': '2025-01-01'}),
    (None, 'X,M\n', {'d': 'X', 'a': '5.0', 'dt': '2025-01-01'}),
]


def witness_cases():
    out = []
    for sig, line, t in WITNESSES:
        out.append({'header': HEADER_LINE, 'rule_lines': [line], 'csv': HEADER_LINE + line, 'txns': [t], 'specs': None, 'expect': sig})
    return out


# ------------------------------------------------------------------------------------------ main
def main(tier):
    run = Run('C14', tier)
    run.assumptions = [
        'ORACLE re_search : pattern -> text -> option bool (re.search with IGNORECASE; None = re.error) is a Section variable: '
        'c14_conversion_preserves_partial holds for EVERY regex semantics satisfying the two named laws below',
        'LAW re_case_law: re_search p (upper d) = re_search p d (the legacy loop searches description.upper(), the engine the '
        'description itself); checked against CPython re on every (pattern, description) used; it fails for scoped inline flags '
        '(?-i:...) and for descriptions whose upper() is not a case-only change (ß -> SS) — recorded as a known finding',
        'LAW re_empty_law: re_search "" d = Some true (a modifiers-only rule: the legacy loop still searches the empty pattern, the '
        'converter omits regex())',
        'ORACLE legacy_expr : the legacy path evaluating a CSV pattern as an expression (_is_expression_pattern); a Section '
        'variable, irrelevant under safe_rule',
        'money in the model is the EXACT value of the IEEE double (Z, unit 2^-64): comparisons are those of the doubles, and the '
        'float test abs(amount - v) < 0.01 is decided exactly (|a - v| <= NEAR_MID, by monotonicity of round-to-nearest-even and '
        'the odd significand of the double 0.01); every generated amount is compared inside Coq (only doubles with 0 < |x| < 2^-11 '
        'are finer than the unit; none is generated). float.__repr__ and the reading of a float literal are CPython library: the '
        'number text is carried through the model (a_txt) and only its placement is modelled',
        'the model describes the tree after the adopted fixes (escaped pattern literal, abs() tolerance, stripped loader cells, skipped '
        'no-op rows); signatures recorded as fixed are not suppressed: a regression is a VIOLATION under its old signature',
        'transactions always carry an amount and a date (as tally builds them); dates are proleptic Gregorian ordinals',
        'the rules-file reader is modelled at field level (strip, non-empty header, category-or-tags, char-level tag splitting); '
        'the string literal of regex("...") is lexed and un-escaped char by char; comparison atoms are taken structurally; the '
        "agreement of all of this with MerchantEngine.parse / CPython's parser on the generated text is checked on every case",
        'not modelled (counted, never compared): newline/CR/NUL inside a field, dynamic {expr} tags, '
        'non-ASCII case mapping, relative windows longer than today\'s ordinal']
    res = run.proof_step(COQ_FILES, extra_trusted=[
        'harness/c14.py + harness/impl_c14.py (generators, correspondence, oracle)',
        'CPython re / ast (library oracles, instantiated by tables computed with the implementation interpreter)'])
    broken = []
    if not res['ok']:
        broken.append({'kind': 'broken-obligation', 'detail': first_error(res['log'])})
    if res['hygiene']:
        broken.append({'kind': 'hygiene', 'detail': res['hygiene']})

    today = datetime.date.today()
    n = 120 if tier == 'quick' else 4000
    wit = witness_cases()
    cases = wit + gen_cases(run.seed, n, today)
    out = run_files(cases, timeout=3000)
    results = out['files']
    if out['today'] != today.toordinal():
        broken.append({'kind': 'harness', 'detail': 'date changed during the run'})
    # upper-casing used by the legacy loop, per transaction (for the ASCII-fragment filter)
    ups = run_impl(IMPL, {'workdir': os.path.join(WORK, 'C14_impl'), 'upper': [t['d'] for c in cases for t in c['txns']]})['upper']
    k = 0
    for c, r in zip(cases, results):
        r['upper'] = ups[k:k + len(c['txns'])]
        k += len(c['txns'])

    # ---- direct oracle on the implementation
    stats = {}
    by_sig = {}
    n_pairs = n_fail_pairs = discards = 0
    law_checked = law_failed = 0
    nontrivial = set()
    hist_rules, hist_mods = {}, {}
    for ci, (c, r) in enumerate(zip(cases, results)):
        if 'legacy' not in r or 'content' not in r:
            discards += 1
            stats['discard:loader-or-converter-raises'] = stats.get('discard:loader-or-converter-raises', 0) + 1
            if 'convert' in r:
                by_sig.setdefault('C14/converter-raises', []).append((ci, {'txn': 0, 'culprits': [], 'signature': 'C14/converter-raises'}))
            continue
        n_pairs += len(c['txns'])
        nl = len(r.get('loaded') or [])
        hist_rules[nl] = hist_rules.get(nl, 0) + 1
        for lr in r.get('loaded') or []:
            km = len(lr['ac']) + len(lr['dc'])
            hist_mods[km] = hist_mods.get(km, 0) + 1
        for p, d, v in r.get('re', []):
            pass
        tabs = oracle_tables(r)
        for t in c['txns']:
            for lr in r.get('loaded') or []:
                a, b = tabs['re'].get((lr['p'], t['d']), 0), tabs['re'].get((lr['p'], t['d'].upper()), 0)
                law_checked += 1
                if a != b:
                    law_failed += 1
        fl = analyse(c, r)
        n_fail_pairs += len(fl)
        for f in fl:
            by_sig.setdefault(f['signature'], []).append((ci, f))
        # non-trivial: both paths agree on a categorised transaction although some other rule of the file did not match
        if r.get('load') == 'ok' and nl >= 2:
            al = r.get('alone') or []
            for i, t in enumerate(c['txns']):
                if 'error' in r['legacy'][i] or not same(r['legacy'][i], r['migrated'][i]) or not r['legacy'][i]['matched']:
                    continue
                hit = [a for a in al if a.get('legacy') and a['legacy'][i].get('matched')]
                if 0 < len(hit) < len(al):
                    nontrivial.add(json.dumps([c['csv'], t], sort_keys=True))
        if c.get('expect'):
            got = {f['signature'] for f in fl}
            if c['expect'] not in got:
                broken.append({'kind': 'witness-not-reproduced', 'obligation': 'refutation witness ' + c['expect'],
                               'detail': {'csv': c['csv'], 'txn': c['txns'], 'got': sorted(got)}})

    # ---- model vs implementation inside Coq
    model_bad, where = [], []
    lit_bad, lit_n = [], 0
    if res['ok']:
        mb, where, errt = model_check(cases, results, today.toordinal(), stats)
        if mb is None:
            broken.append({'kind': 'broken-correspondence', 'obligation': 'model_vs_impl(C14.Model, merchant_engine/merchant_utils)',
                           'detail': 'cases.v did not evaluate: ' + errt})
        elif mb:
            (ci, label), codes = mb[0]
            names = {1: 'generated text differs', 2: 'parsed-back rules differ', 3: 'regex table incomplete', 4: 'legacy classification differs',
                     5: 'migrated classification differs', 6: 'loaded Merchant/Category/Subcategory cell not stripped'}
            sub = results[ci] if label == 'file' else results[ci]['alone'][int(label[4:])]
            broken.append({'kind': 'broken-correspondence', 'obligation': 'model_vs_impl(C14.Model, merchant_engine/merchant_utils)',
                           'detail': {'what': [names.get(x, x) for x in sorted(set(codes))], 'sub_case': label, 'csv': cases[ci]['csv'],
                                      'txns': cases[ci]['txns'], 'implementation': {k: sub.get(k) for k in ('content', 'load', 'legacy', 'migrated', 'engine_rules')},
                                      'n_disagreeing_sub_cases': len(mb)}})
            model_bad = mb
        lb, lit_n, errt = lit_check(run.seed, tier)
        if lb is None:
            broken.append({'kind': 'broken-correspondence', 'obligation': 'unesc/lex_ok/line_unterminated vs CPython literal reading',
                           'detail': 'cases.v did not evaluate: ' + errt})
        elif lb:
            broken.append({'kind': 'broken-correspondence', 'obligation': 'unesc/lex_ok/line_unterminated vs CPython literal reading',
                           'detail': {'strings': lb[:10], 'n': len(lb)}})
            lit_bad = lb
    known = {f['signature'] for f in run.findings if f.get('status') == 'finding'}
    reported = []
    for sig, lst in sorted(by_sig.items()):
        ci, f = min(lst, key=lambda x: (len(cases[x[0]]['rule_lines']), len(cases[x[0]]['csv'])))
        case = cases[ci]
        if sig in known:
            run.violation('cex', {'kind': 'counterexample', 'case': public_case(case) if case.get('specs') else {k: case[k] for k in ('csv', 'header', 'rule_lines', 'txns')}},
                          signature=sig)
            reported.append({'signature': sig, 'n_failing_pairs': len(lst), 'status': 'known-finding'})
            continue
        small = case
        if case.get('specs'):
            cj = [j for j, _ in f['culprits']] or list(range(len(case['specs'])))
            if len(case['specs']) == len(case['rule_lines']):
                small = make_case([case['specs'][j] for j in cj if j < len(case['specs'])] or case['specs'], [case['txns'][f['txn']]])
                try:
                    if not case_fails(small, sig):
                        small = case
                    small = shrink(small, sig, budget=30 if tier == 'quick' else 80)
                except Exception:  # noqa
                    small = case
        r1 = run_files([small])['files'][0]
        obs = {k: r1.get(k) for k in ('legacy', 'migrated', 'load', 'content')}
        run.violation('cex', {'kind': 'counterexample', 'case': public_case(small) if small.get('specs') else {k: small[k] for k in ('csv', 'header', 'rule_lines', 'txns')},
                              'expected': 'both paths give the same merchant/category/subcategory/tag set and the generated file loads',
                              'observed': obs, 'analysis': analyse(small, r1), 'obligation': 'c14_conversion_preserves on the implementation',
                              'n_failing_pairs_with_this_signature': len(lst), 'broken': broken, 'shrunk_from': len(case['csv'])},
                      signature=sig)
        reported.append({'signature': sig, 'n_failing_pairs': len(lst), 'status': 'VIOLATION'})

    probe_n = 0
    if res['ok']:
        pb, probe_n, errt = probe_check()
        if pb is None:
            broken.append({'kind': 'broken-correspondence', 'obligation': 'classify_line vs MerchantEngine.parse (one line appended to a block)',
                           'detail': 'cases.v did not evaluate: ' + errt})
        elif pb:
            broken.append({'kind': 'broken-correspondence', 'obligation': 'classify_line vs MerchantEngine.parse (one line appended to a block)',
                           'detail': {'lines': pb[:10], 'n': len(pb)}})
    unknown = [x for x in reported if x['status'] == 'VIOLATION']
    if broken and not unknown:
        run.violation('broken', {'kind': broken[0]['kind'], 'obligation': broken[0].get('obligation') or
                                 (broken[0]['detail'].get('obligation') if isinstance(broken[0]['detail'], dict) else None),
                                 'broken': broken, 'searched': f'{n_pairs} (file, transaction) pairs; no failing input outside the known signatures'},
                      found_input=False)
    run.cov.update({
        'evaluations': n_pairs + stats.get('model_txn_evals', 0) + lit_n + probe_n,
        'distinct_nontrivial': len(nontrivial),
        'rule': 'CSV rule files of 1-6 rules (37 realistic patterns: regexes with classes, anchors, alternation, look-aheads, groups, '
                'quantifiers, and plain literals, each in upper/lower/title/mixed letter case; every modifier form amount > >= < <= = range, date = range relative, month, in combinations, with '
                'optional inner spaces; pipe-separated tags; comment/blank lines; CSV-quoted cells) x transactions whose '
                'descriptions hit/miss each pattern in upper/lower/title case, amounts on every modifier boundary +-0.01 and '
                '+-1/128, dates on every range/month/relative boundary +-1 day; 40 % of files carry one known-hazard feature '
                'per rule (escapes, quotes, expression-like patterns, relative dates, = amounts, blank/padded names, missing '
                'columns, comma tags, invalid modifiers). non-trivial = distinct (file, transaction) with >= 2 rules where '
                'both paths agree on a categorised result and some but not all rules match alone',
        'samples': [public_case(cases[len(wit) + 60]), public_case(cases[-1])] if len(cases) > len(wit) + 60 else [],
        'files': len(cases), 'file_txn_pairs_on_implementation': n_pairs, 'failing_pairs': n_fail_pairs,
        'signatures': reported, 'rules_per_file_histogram': hist_rules, 'modifiers_per_rule_histogram': hist_mods,
        'model_vs_impl_sub_cases_in_coq': len(where), 'model_vs_impl_txn_evaluations_in_coq': stats.get('model_txn_evals', 0),
        'model_disagreements': len(model_bad), 'line_reader_probes_vs_parser': probe_n, 'literal_strings_vs_cpython': lit_n, 'literal_disagreements': len(lit_bad),
        're_case_law_checked': law_checked, 're_case_law_failed': law_failed,
        'discards': {k: v for k, v in stats.items() if k not in ('model_txn_evals', 'rules_inside_guard', 'rules_in_coq_files')},
        'discarded_files': discards, 'failing_pairs_in_unaligned_files': UNALIGNED[0],
        'oracle_only_files_outside_model': stats.get('oracle_only_files', 0), 'oracle_only_pairs_outside_model': stats.get('oracle_only_pairs', 0),
        'generated_rules_inside_safe_rule_guard': [stats.get('rules_inside_guard', 0), stats.get('rules_in_coq_files', 0)],
        'fresh_process_per_file': len({r.get('pid') for r in results if r.get('pid')}),
        'impl_python': out.get('python')})
    run.finish()


def replay(path):
    obj = json.load(open(path))
    if obj.get('kind') != 'counterexample':
        main('quick')
        return 0
    c = obj['case']
    case = {'header': c.get('header', HEADER_LINE), 'rule_lines': c.get('rule_lines') or [], 'csv': c['csv'], 'txns': c['txns'], 'specs': None}
    r = run_files([case])['files'][0]
    fl = analyse(case, r)
    print(json.dumps({'failures': fl, 'observed': {k: r.get(k) for k in ('legacy', 'migrated', 'load', 'content')}}, indent=1, default=str))
    if fl:
        print(f'VIOLATION property=C14 replay={path}')
        return 1
    return 0
