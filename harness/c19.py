"""C19 — every rule that discover suggests matches the transaction it was suggested for.

Proof: C19/Props.v over the hand model C19/Model.v; the regex / prefix literals and the statement
lists of the modelled functions are regenerated from commands/discover.py on every run
(tools/c19_patterns.py -> Gen/C19Patterns.v) and must equal what the model was written against.
Tie: suggest_pattern / suggest_merchant_name / needle / suggested rule text / load+match outcome of
the implementation vs the model (cases.v, vm_compute) on generated descriptions.
Search (direct oracle, implementation only): the suggested rule text is fed to parse_merchants and
matched against the very description — must load, must match; the same suggestion appended to a rules
text that already holds a same-named rule (any letter case) not covering the description must load and
the description must then match the rule carrying the suggested match text; the discover -> append ->
rerun loop through the CLI (also with such pre-existing same-named rules) must strictly shrink the Unknown
list. /repo has the repaired design since f2d3c2b: the old failure signatures are no longer known findings."""
import csv
import io
import itertools
import json
import os
import random
import shutil
import subprocess

from common import *
import c19_patterns

COQ_FILES = ['Lib/Str.v', 'C19/Model.v', 'C19/Source.v', 'Gen/C19Patterns.v', 'C19/Proofs.v', 'C19/Props.v']
IMPL = os.path.join(os.path.dirname(os.path.abspath(__file__)), 'impl_c19.py')
META = '.*+?^${}()|[]\\'

# ------------------------------------------------------------------------------------ generators
WORDS = ['STARBUCKS', 'Acme', 'netflix', 'AMZN', 'Mktp', 'US', 'Joes', 'COFFEE', 'Shop', 'store', 'X', 'ab', 'Wa', 'DES', 'id',
         'FOO', 'BAR', 'baz', 'THE', 'MARKET', 'a1', '7ELEVEN', 'T4', 'ca', 'PAYPAL', 'SQ', 'TST', 'SP', 'Uber', 'EATS']
PREFIXES = ['SQ *', 'sq *', 'TST*', 'TST* ', 'tst* ', 'PAYPAL *', 'APLPAY ', 'Aplpay ', 'SP ', 'PP*', 'GOOGLE *', 'Google *',
            'SQ*', 'SP', 'APLPAY SQ *', 'SQ *APLPAY ', ' SQ *']
SUFFIXES = [' #1234', ' #12', '  #7', '#12', ' #12X', ' # 12', ' 12345', ' 1234', ' 123', ' 123456 SEATTLE WA', ' 98101 WA', ' CA',
            ' ca', ' Ca', '  WA', ' WAS', ' W', ' WA 98101', ' DES:xyz 12', ' des: a', ' ID:123', ' id:9', ' ID', ' 0001 X\n', '\n',
            ' CA\n', ' 12345\n', ' 1234\nX', '\tNY', ' #1 #22 #333', ' 2024']
SEPS = [' ', ' ', ' ', ' ', '  ', '\t', '   ', '\x1f', '\x0b', '\r', '\n', '\x0c ']
PUNCT = list(META) + ['"', "'", '&', '-', '/', ',', ':', '=', '#', '@', '!', '%', '_', '~', '`', '<', '>', ';']
NONASCII = ['€', '日本', '№', '☕', '\U0001F600', '·']     # caseless, not space, not digit
CTRL = ['\x01', '\x7f', '\x08', '\x1b', '\x00']
SMALL_ALPHABET = ['A', 'b', ' ', '1', '#', '"', '\\', '.', '\n']


def in_fragment(d):
    """Descriptions on which the byte/ASCII model of upper/isspace/\\d/title is exact."""
    for c in d:
        if ord(c) < 128:
            continue
        if c.upper() != c or c.lower() != c or c.isspace() or c.isdecimal() or c.isdigit() or 0xD800 <= ord(c) <= 0xDFFF:
            return False
    return True


def casing(rnd, w):
    return rnd.choice([w, w.upper(), w.lower(), w.title(), ''.join(c.upper() if rnd.random() < .5 else c.lower() for c in w)])


def gen_word(rnd):
    r = rnd.random()
    w = casing(rnd, rnd.choice(WORDS))
    if r < 0.45:
        return w
    if r < 0.70:
        p = rnd.choice(PUNCT)
        return rnd.choice([w + p, p + w, w[:1] + p + w[1:], w + p + casing(rnd, rnd.choice(WORDS)), p, p + rnd.choice(PUNCT)])
    if r < 0.80:
        return w + rnd.choice(NONASCII) if rnd.random() < .5 else rnd.choice(NONASCII)
    if r < 0.86:
        return w + rnd.choice(CTRL) + 'z'
    if r < 0.93:
        return str(rnd.choice([7, 42, 123, 1234, 12345, 123456])) + rnd.choice(['', 'A', '-1'])
    return ''.join(rnd.choice('Ab1#"\\.* $') for _ in range(rnd.randint(1, 5)))


def gen_description(rnd):
    n = rnd.choice([1, 1, 2, 2, 2, 3, 3, 4, 5])
    parts = [gen_word(rnd) for _ in range(n)]
    s = parts[0]
    for p in parts[1:]:
        s += rnd.choice(SEPS) + p
    if rnd.random() < 0.35:
        s = rnd.choice(PREFIXES) + s
    if rnd.random() < 0.5:
        k = rnd.randint(0, n)      # suffix-looking text in the middle or at the end
        if k == n or rnd.random() < 0.6:
            s = s + rnd.choice(SUFFIXES)
        else:
            ws = s.split(' ')
            ws.insert(min(len(ws), k + 1), rnd.choice(SUFFIXES).strip(' ') or 'X')
            s = ' '.join(ws)
    if rnd.random() < 0.08:
        s = rnd.choice([' ', '\t', '  ']) + s + rnd.choice([' ', '', '\n'])
    return s


def fixed_stream():
    """Boundary cases: always run, in this order."""
    out = ['', ' ', '\n', 'A', 'a b', 'NETFLIX', 'Acme Foo', 'STARBUCKS STORE 12345 SEATTLE WA', 'ACME.COM', 'STORE #12X',
           'ACME #12 FOO BAR', 'a"b', 'A\\B', 'A\\"B', 'SQ *COFFEE SHOP', 'TST* PIZZA PLACE', 'PAYPAL *FOO', "JOE'S", 'ACME  FOO',
           'AB 1234 X\n', 'x\x00y', 'A\tB', 'A\rB', 'A B C D', 'UBER   EATS', 'COSTCO WHSE #0123 SEATTLE WA', 'ab cd', 'ab CD',
           'APLPAY SQ *X Y', 'SP', 'SP ', 'GOOGLE *YouTube', 'a ID:5', 'pay des:x', '12345', ' 12345', 'A 12345 B\nC', 'A CA\n',
           'A B\nCA', '[x]', '#tag', 'k: v', 'a=b', '\\', '"', '\\"', '\\\\', 'A\\', 'a\\u0041', 'a\\n', 'a\\x41', '\\N{DASH}',
           '€5 CAFE', '日本 STORE WA', 'x\x7fy z', 'x\x01y', 'it\'s "the" place']
    out += [m for m in META] + ['A' + m + 'B' for m in META] + ['A ' + m + ' B' for m in META]
    # needles that a wildcard / glob / LIKE / regex reading of contains() would treat specially: contains() is literal
    out += ['PAYPAL *[EBAY] GADGETSHOP', 'PAYPAL *EBAY [US]', 'A*[B]', '*[x]', 'a*b[c]d', '[a]*', 'X *[]]', 'A*[!B]', 'A*[B-A]', 'A*[^B]',
            'US*2K4 [REF]', 'WHAT?*', 'A*B?C', 'A**B', '{a,b}*', 'A%B_C', '100% [OFF]*', 'A\\*[B]', '[[]*', '[]*', '*]x[', 'TST* [A-Z] BAR']
    W = ['*', '?', '!', '^', '-', '\\', '%', '_', '.', '+']
    out += [f'A{x}[B]{y}' for x in W for y in W] + [f'[{x}A]{y}Z' for x in W for y in W]
    # typographic characters (caseless, inside the byte model): a loader or matcher that normalises them breaks the literal
    TYPO = ['\u2018', '\u2019', '\u201c', '\u201d', '\u201e', '\u201a', '\u00ab', '\u00bb', '\u2039', '\u203a', '\u2032', '\u2033',
            '\u00b4', '\uff02', '\uff07', '\uff3c', '\u2216', '\u2013', '\u2014', '\u2026', '\uff08', '\uff09', '\uff0a', '\u2217', '\u00d7']
    out += ['MCDONALD\u2019S F1234 AUSTIN TX', 'SQ *THE \u201cBEST\u201d BAGELS 12345', 'JOE\u2018S \u201cDINER\u201d', '\u201cQUOTED\u201d',
            'A \u201c B', 'O\u2019NEIL\u2019S PUB #12', 'caf\u00e9'.upper().replace('\u00c9', '\u2019E'), '\u00abLE BISTRO\u00bb PARIS FR']
    out += [t for t in TYPO] + ['A' + t + 'B' for t in TYPO] + ['X ' + t + 'Y' + t + ' Z' for t in TYPO]
    out += [p + 'Cafe Nero' for p in PREFIXES] + ['Cafe Nero' + s for s in SUFFIXES] + ['Cafe' + s + ' Nero' for s in SUFFIXES]
    return out


def special_case_chars():
    """Characters outside the ASCII model whose case mapping is not a length-preserving involution:
    upper()/lower() lengthens the text (ß, ﬁ, ŉ, ǰ, ΐ ...) or the upper/lower round trip is not the identity
    (ı, İ, ſ, Kelvin K, Angstrom Å, final sigma ...)."""
    out = []
    for i in range(0x80, 0x30000):
        if 0xD800 <= i <= 0xDFFF:
            continue
        c = chr(i)
        u, l = c.upper(), c.lower()
        if len(u) > 1 or len(l) > 1 or u.lower() != l or l.upper() != u or u.upper() != u:
            out.append(c)
    return out


def unicode_stream():
    """Deterministic non-ASCII family: run through the direct oracle and the CLI loop only (the Coq model is
    ASCII for case mapping, so these are not compared with it; counted separately). The needle covers (nearly)
    the whole description, which is where a length- or case-sensitive shortcut in the matcher shows."""
    out = ['Gießerei', 'gießerei', 'Straße', 'STRASSE ß', 'Maße #12', 'Gießerei 12345 Köln DE', 'SQ *Gießerei', 'aßb cßd eßf gßh',
           'ﬁsh', 'ﬂower shop', 'Oﬃce', 'Caﬀe Nero', 'ŉgo', 'ǰa', 'ΐota', 'ılık', 'ILIK ı', 'İstanbul', 'iİ', 'Miſter', 'Kelvin \u212a',
           'σς ΣΑΣ', 'straße café', 'ÇA VA', 'Ünal Döner', 'ﬁﬂﬀ', 'ß 1234', 'ß CA', 'ß 98101', 'tst* ﬅop', 'Åre \u212b', 'ǅ ǈ ǋ',
           'e\u0301 cafe\u0301', '\u00a0Nbsp\u00a0shop', 'A\u2003B', 'X \u0661\u0662\u0663\u0664\u0665', 'Ⅻ ⅻ', 'ⓐⓑ Ⓒ']
    for c in special_case_chars():
        out += [c, 'a' + c, c + 'b', c + c, 'Cafe ' + c + 'x', c + ' 12345 WA']
    return out


def small_exhaustive(maxlen):
    out = []
    for n in range(1, maxlen + 1):
        out += [''.join(t) for t in itertools.product(SMALL_ALPHABET, repeat=n)]
    return out


def gen_cases(seed, n, maxlen):
    rnd = random.Random(seed)
    ds = fixed_stream() + small_exhaustive(maxlen)
    ds += [gen_description(rnd) for _ in range(n)]
    cases, seen, discarded = [], set(), 0
    for d in ds:
        if d in seen:
            continue
        seen.add(d)
        if not in_fragment(d):
            discarded += 1
            continue
        cases.append({'d': d, 'neg': (len(cases) % 7 == 3), 'dup': ['same', 'upper', 'lower', 'swap'][len(cases) % 4]})
    for d in unicode_stream():
        if d not in seen:
            seen.add(d)
            cases.append({'d': d, 'neg': False, 'dup': ['same', 'upper', 'lower', 'swap'][len(cases) % 4], 'u': True})
    return cases, discarded


# ------------------------------------------------------------- the property, on implementation outputs only
def signature(case, r):
    """None if the property holds for this case; else a specific name for the way it fails."""
    if 'error' in r:
        return 'C19/suggestion-raises'
    d = case['d']
    worst = None
    for which in ('raw', 'cat'):
        o = r[which]
        if o['load'] != 'ok' or o.get('nrules') != 1:
            # the suggested text is not accepted by the loader (or is not exactly one rule)
            if o['load'] == 'parse-error' and '\x00' in r['rule'] and \
                    loads(r['rule'].replace('\x00', '')):
                return 'C19/nul-byte-in-suggested-rule-does-not-load'      # the NUL byte is the only obstacle
            return 'C19/suggested-rule-does-not-load'
        if o['matched'] is not True:
            needle_is_pattern = r['needle'] == r['pattern']
            if needle_is_pattern and '\\s*' in r['pattern']:
                worst = 'C19/regex-needle-in-contains-multiword'
            elif needle_is_pattern and '\\' in r['pattern']:
                worst = 'C19/regex-needle-in-contains-escaped-metachar'
            elif needle_is_pattern and re.search(r'\s+#\d+', d.upper()) and r['pattern'].upper() not in d.upper():
                worst = 'C19/store-number-cut-out-of-needle'
            else:
                return 'C19/suggested-rule-does-not-match-its-description'
    if worst is None and 'quote_d_value' in r:
        # the quoting function, for ANY text: tally's own expression parser must read the literal back as that text
        if r['quote_d_value'] != {'value': d} or r.get('needle_literal_value') != {'value': r['needle']}:
            return 'C19/quoted-literal-does-not-denote-the-text'
    if worst is None and r.get('dup') is not None:
        # the same suggestion appended to a rules text that already has a rule of that name (any letter case)
        # whose match does not cover d: the file must load and d must now match the rule with the suggested match text
        o = r['dup']
        if o['existing_alone']['load'] == 'ok' and o['existing_alone']['matched'] is False:
            if o['load'] != 'ok':
                return 'C19/rules-file-with-appended-suggestion-does-not-load'
            if o['matched'] is not True or o.get('matched_expr') != o['suggested_expr'] or o.get('category') != 'Food':
                return 'C19/appended-suggestion-lost-when-rule-name-already-exists'
    return worst


def loads(text):
    o = run_impl(IMPL, {'mode': 'texts', 'texts': [{'text': text, 'd': ''}]})['results'][0]
    return o['load'] == 'ok' and o.get('nrules') == 1


def run_cases_impl(cases):
    return run_impl(IMPL, {'cases': cases}, timeout=1200)


def sig_of(d, neg=False, dup='same'):
    c = {'d': d, 'neg': neg, 'dup': dup}
    r = run_cases_impl([c])['results'][0]
    return signature(c, r), r


def shrink(d, sig, neg=False, budget=120, dup='same'):
    """Delete words, then characters, keeping the same failure signature."""
    d0 = d
    def fails(x):
        nonlocal budget
        if budget <= 0 or (in_fragment(d0) and not in_fragment(x)) or (d0.strip() and not x.strip()):     # keep a visible description
            return False
        budget -= 1
        return sig_of(x, neg, dup)[0] == sig
    changed = True
    while changed and budget > 0:
        changed = False
        ws = d.split(' ')
        for i in range(len(ws)):
            cand = ' '.join(ws[:i] + ws[i + 1:])
            if cand != d and fails(cand):
                d, changed = cand, True
                break
        if changed:
            continue
        for i in range(len(d)):
            cand = d[:i] + d[i + 1:]
            if fails(cand):
                d, changed = cand, True
                break
    cand = re.sub(r'\s', ' ', d)
    if cand != d and fails(cand):
        d = cand
    return d


# ------------------------------------------------------------------------------------ model side
def header(variant):
    return '''From Coq Require Import String List Bool NArith Ascii.
From Tally Require Import Lib.Str C19.Model.
Import ListNotations.
Open Scope string_scope.
Definition sbytes (l : list N) : string := fold_right (fun n s => String (Ascii.ascii_of_N n) s) EmptyString l.
Definition V : variant := %s.
Definition oeq (a : option string) (b : string) : bool := match a with Some x => String.eqb x b | None => false end.
Definition code (o : obs) : nat := match o with ObsLoaded true => 0 | ObsLoaded false => 1 | ObsLoadErr => 2 | ObsUnm => 3 end.
Definition no_re (p t : string) : option bool := None.
Definition lit_ok (d qd qv : string) : bool :=
  (String.eqb (quote_fixed d) qd &&
   match parse_expr ("contains(" ++ qd ++ ")") with POk (ECall f v) => (String.eqb f "contains" && String.eqb v qv)%%bool | _ => false end)%%bool.
Definition ok (c : string * bool * (string * string * string * string) * nat * (string * nat) * (string * string * nat)) : bool :=
  let '(d, neg, (pat, nm, needle, rule), k, (duptext, k2), (qd, qv, k3)) := c in
  let tags := if neg then ["refund"] else [] in
  (oeq (suggest_pattern d) pat && oeq (suggest_merchant_name d) nm && oeq (needle_of V d) needle
   && oeq (suggested_rule V d tags) rule && Nat.eqb (code (observe no_re V d tags)) k
   && (Nat.eqb k2 99 || Nat.eqb (code (observe_text no_re duptext d)) k2)
   && (Nat.eqb k3 99 || lit_ok d qd qv))%%bool.
Fixpoint failing (i : nat) (l : list _) : list nat :=
  match l with [] => [] | c :: r => if ok c then failing (S i) r else i :: failing (S i) r end.
''' % ('Fixed' if variant == 'fixed' else 'Orig')


def obs_code(r, which='raw'):
    o = r[which]
    if o['load'] == 'ok':
        return 0 if o['matched'] is True else 1
    if o['load'] == 'parse-error':
        return 2
    return 9      # an exception the model has no outcome for: always a disagreement


def model_check(cases, results, variant, name='C19'):
    rows, idx = [], []
    for i, (c, r) in enumerate(zip(cases, results)):
        if 'error' in r or c.get('u'):
            continue
        rows.append(f"({coq_str(c['d'])}, {'true' if c.get('neg') else 'false'}, ({coq_str(r['pattern'])}, {coq_str(r['name'])}, "
                    f"{coq_str(r['needle'])}, {coq_str(r['rule'])}), {obs_code(r)}, "
                    + (f"({coq_str(r['dup']['text'])}, {obs_code(r, 'dup')}), " if r.get('dup') else '("", 99), ')
                    + (f"({coq_str(r['quote_d'])}, {coq_str(r['quote_d_value'].get('value', chr(1) + 'no value'))}, 0))"
                       if 'quote_d' in r else '("", "", 99))'))
        idx.append(i)
    bad = []
    CH = 400
    from concurrent.futures import ThreadPoolExecutor

    def chunk(off):
        body = 'Definition cases := [\n' + ';\n'.join(rows[off:off + CH]) + '\n].\nEval vm_compute in failing 0 cases.\n'
        return off, run_cases(f'{name}_{off // CH}', header(variant), body)
    with ThreadPoolExecutor(max_workers=4) as ex:
        outs = list(ex.map(chunk, range(0, len(rows), CH)))
    for off, (rc, out, err) in outs:
        m = re.search(r'=\s*\[(.*?)\]\s*:\s*list nat', out, re.S)
        if rc != 0 or not m:
            return None, idx, (out + err)[-800:]
        bad += [idx[off + int(x)] for x in m.group(1).replace('%nat', '').replace('\n', ' ').split(';') if x.strip()]
    return bad, idx, ''


# ------------------------------------------------------------------------------------ CLI loop
SETTINGS = '''year: 2025
data_sources:
  - name: Bank
    file: data/bank.csv
    format: "{date:%Y-%m-%d},{description},{amount}"
merchants_file: config/merchants.rules
'''
BASE_RULES = '[Netflix]\nmatch: contains("NETFLIX")\ncategory: Fun\nsubcategory: Streaming\n'

CLI_BUDGETS = [
    ['PAYPAL *[EBAY] GADGETSHOP', 'A*[B]', 'WHAT?* [X]', '100% [OFF]*', 'MCDONALD\u2019S F1234 AUSTIN TX', 'SQ *THE \u201cBEST\u201d BAGELS 12345',
     '\u00abLE BISTRO\u00bb PARIS FR', 'NETFLIX'],                                                    # wildcard-looking and typographic needles
    ['Gießerei', 'Oﬃce Depot', 'ŉgo', 'İstanbul Kebap', 'ılık', 'Miſter \u212a', 'ß', 'NETFLIX'],       # case mapping changes length / is no involution
    ['NETFLIX', 'COSTCO', 'Shell', 'TARGET 12345 SEATTLE WA', 'SQ *BAKERY'],                        # single plain words only
    ['STARBUCKS STORE 12345 SEATTLE WA', 'Acme Foo', 'UBER EATS', 'TST* PIZZA PLACE', 'NETFLIX'],     # all multi-word
    ['ACME.COM', 'AMZN Mktp US*2K4', 'SAY "HI" CAFE', "JOE'S DINER #12", 'A\\B', 'Shell', 'DUNKIN"DONUTS', 'NETFLIX'],
    ['COSTCO WHSE #0123 SEATTLE WA', 'STORE #12X', 'ACME #12 FOO BAR', 'NETFLIX.COM', 'PAYPAL *FOO BAR'],
]


# the user already has [Amazon] for AMZN; the statement also shows AMAZON ...: discover derives the same rule name
AMAZON_BUDGET = ['AMZN MKTP US', 'AMAZON 00012345 SEATTLE WA', 'NETFLIX', 'Starbucks #1234']
AMAZON_RULES = '\n[Amazon]\nmatch: contains("AMZN")\ncategory: Shopping\nsubcategory: Online\n'


def cli(budget, *args):
    p = subprocess.run([PY, '-m', 'tally'] + list(args), cwd=budget, capture_output=True, text=True, env=env_impl(), timeout=120)
    return p.returncode, p.stdout, p.stderr


def write_budget(path, descs, extra_rules=''):
    shutil.rmtree(path, ignore_errors=True)
    os.makedirs(os.path.join(path, 'config'))
    os.makedirs(os.path.join(path, 'data'))
    with open(os.path.join(path, 'config', 'settings.yaml'), 'w') as f:
        f.write(SETTINGS)
    with open(os.path.join(path, 'config', 'merchants.rules'), 'w', encoding='utf-8') as f:
        f.write(BASE_RULES + extra_rules)
    buf = io.StringIO()
    w = csv.writer(buf, lineterminator='\n')
    w.writerow(['Date', 'Description', 'Amount'])
    for i, d in enumerate(descs):
        w.writerow([f'2025-01-{1 + i % 27:02d}', d, f'{5 + i}.50'])
        if i % 3 == 0:
            w.writerow([f'2025-02-{1 + i % 27:02d}', d, f'{2 + i}.25'])
    with open(os.path.join(path, 'data', 'bank.csv'), 'w', encoding='utf-8', newline='') as f:
        f.write(buf.getvalue())


def discover_json(budget):
    rc, out, err = cli(budget, 'discover', '--format', 'json', '--limit', '0', 'config')
    if out.startswith('No unknown transactions found'):
        return []
    try:
        return json.loads(out[out.index('['):])
    except ValueError:
        raise RuntimeError(f'discover --format json: rc={rc} out={out[:300]!r} err={err[-300:]!r}')


def text_blocks(budget):
    """The rule blocks printed by the default (human-readable) format, in output order."""
    rc, out, err = cli(budget, 'discover', '--limit', '0', 'config')
    out = re.sub(r'\x1b\[[0-9;]*m', '', out)
    blocks, cur = [], None
    for line in out.split('\n'):
        s = line[3:] if line.startswith('   ') else line
        if cur is None:
            if line.startswith('   [') and s.rstrip().endswith(']'):
                cur = [s]
        else:
            if s.startswith(('match:', 'category:', 'subcategory:', 'tags:')):
                cur.append(s)
            else:
                blocks.append('\n'.join(cur))
                cur = None
    return blocks


def fill(text):
    return '\n'.join('category: Food' if l == 'category: CATEGORY' else 'subcategory: Coffee' if l == 'subcategory: SUBCATEGORY'
                     else l for l in text.split('\n'))


ABSENT = ['QZXJV~NOT~THERE', 'WQ|KJX|ABSENT', 'ZZ9PLURAL']


def same_named_rules(first):
    """Rules a user may already have: for every suggestion a rule with the very name discover derives (in varying
    letter case) whose match covers none of the descriptions."""
    absent = next(a for a in ABSENT if not any(a.upper() in e['raw_description'].upper() for e in first))
    out = []
    for i, e in enumerate(first):
        n = e['suggested_merchant']
        n = [n, n.upper(), n.lower(), n.swapcase()][i % 4]
        out.append(f'[{n}]\nmatch: contains("{absent}")\ncategory: Other\nsubcategory: Existing\n')
    return '\n' + '\n'.join(out)


def cli_loop(descs, work, preexisting=False, extra_rules=''):
    """discover -> append every suggested rule -> discover again. Returns a dict of observations.
    preexisting: the rules file already holds, for every suggestion, a same-named rule that does not cover it."""
    b = os.path.join(work, 'budget')
    write_budget(b, descs, extra_rules)
    first = discover_json(b)
    if preexisting and first:
        write_budget(b, descs, extra_rules + same_named_rules(first))
        first = discover_json(b)
    obs = {'descriptions': descs, 'preexisting_same_named_rules': preexisting, 'extra_rules': extra_rules,
           'unknown_before': len(first), 'unknown_txns_before': sum(e['count'] for e in first)}
    if not first:
        obs['note'] = 'nothing unknown'
        return obs
    # the json suggestion for each description must be what the functions compose
    comp = run_cases_impl([{'d': e['raw_description'], 'neg': e['has_negative']} for e in first])['results']
    obs['json_differs_from_functions'] = [e['raw_description'] for e, r in zip(first, comp) if r.get('rule') != e['suggested_rule']]
    # text format: same blocks must load and match
    blocks = text_blocks(b)
    obs['text_blocks'] = len(blocks)
    if len(blocks) == len(first):
        tr = run_impl(IMPL, {'mode': 'texts', 'texts': [{'text': fill(t), 'd': e['raw_description']} for t, e in zip(blocks, first)]})['results']
        obs['text_failures'] = [{'d': e['raw_description'], 'block': t, 'outcome': o, 'json_rule_ok': signature({'d': e['raw_description']}, r) is None}
                                for t, e, o, r in zip(blocks, first, tr, comp) if not (o['load'] == 'ok' and o['matched'] is True)]
    else:
        obs['text_failures'] = [{'d': None, 'block': None, 'outcome': f'{len(blocks)} blocks for {len(first)} suggestions'}]
    extra = '\n' + '\n\n'.join(fill(e['suggested_rule']) for e in first) + '\n'
    with open(os.path.join(b, 'config', 'merchants.rules'), 'a', encoding='utf-8') as f:
        f.write(extra)
    second = discover_json(b)
    obs['unknown_after'] = len(second)
    obs['still_unknown'] = [e['raw_description'] for e in second]
    obs['per_description_signature'] = {e['raw_description']: signature({'d': e['raw_description']}, r) for e, r in zip(first, comp)}
    shutil.rmtree(b, ignore_errors=True)
    return obs


def loop_verdicts(obs):
    """(signature, detail) pairs for one CLI loop observation."""
    out = []
    if obs.get('unknown_before', 0) == 0:
        return out
    if obs['json_differs_from_functions']:
        out.append(('C19/cli-json-suggestion-differs-from-functions', obs['json_differs_from_functions'][:3]))
    for tf in obs.get('text_failures', []):
        d = tf['d']
        if d is not None and '"' in d and tf['json_rule_ok'] and tf['outcome']['load'] != 'ok':
            out.append(('C19/text-output-quote-not-escaped', tf))
        elif d is not None and not tf['json_rule_ok']:
            pass      # the json suggestion for this description fails too: reported by the per-description oracle
        else:
            out.append(('C19/text-output-suggestion-fails', tf))
    sigs = obs['per_description_signature']
    for d in obs['still_unknown']:
        # a description that stays Unknown although its suggestion was appended: explained by the per-description
        # failure of that suggestion (same signature), otherwise a failure of the loop itself
        out.append((sigs.get(d) or 'C19/loop-description-still-unknown-although-rule-matches', d))
    if obs['unknown_after'] >= obs['unknown_before'] and not obs['still_unknown']:
        out.append(('C19/loop-does-not-shrink', obs['unknown_after']))
    return out


# ------------------------------------------------------------------------------------ main
def regen_gen():
    """Regenerates Gen/C19Patterns.v from the tree under test. Returns (info|None, error|None)."""
    path = os.path.join(SRC, 'commands', 'discover.py')
    try:
        info = c19_patterns.extract(path)
        regen('Gen/C19Patterns.v', c19_patterns.render(info))
        return info, None
    except (c19_patterns.ExtractError, SyntaxError, OSError) as e:
        return None, f'{type(e).__name__}: {e}'


def main(tier):
    run = Run('C19', tier)
    run.assumptions = [
        'strings are UTF-8 byte strings; str.upper/title/isspace, \\s, \\d, [A-Z] are modelled for ASCII; bytes >= 128 are caseless '
        'non-space non-digit characters; generated descriptions use ASCII plus caseless non-ASCII code points (others are discarded and counted)',
        'each re.sub literal of discover.py is a hand-written scanner (C19/Model.v scanner_of), tied to CPython re by the correspondence; '
        'the literal lists and the statement lists of the modelled functions are regenerated from the source on every run and must equal '
        'C19/Model.v + C19/Source.v (theorem c19_source_is_modelled)',
        'the rules loader is modelled for the line kinds a suggestion uses (header, match, category, subcategory, merchant, tags); '
        'other constructs answer Unmodelled; theorems show a suggestion never reaches Unmodelled',
        'CPython string-literal un-escaping is modelled for \\\\ \\" \\\' \\a\\b\\f\\n\\r\\t\\v, \\uXXXX < 0x80 and unknown escapes (kept); '
        'octal, \\x, \\N, \\U answer Unmodelled; the expression parser is modelled only for NAME("literal")',
        'regex(p) is a Section variable (oracle) in every theorem; contains() is the literal substring test of _fn_contains',
        'the transaction is matched on its raw description (no field transforms in the rules file)']
    T = {'start': time.time()}
    info, xerr = regen_gen()
    res = run.proof_step(COQ_FILES, extra_trusted=[
        'tools/c19_patterns.py (extractor, fail closed)', 'harness/c19.py + harness/impl_c19.py (correspondence, oracle, CLI loop)'])
    T['proof'] = time.time()
    run.cov['obligations'] += 1          # the extraction obligation
    broken = []
    if xerr:
        broken.append({'kind': 'translation-failure', 'obligation': 'tools/c19_patterns.py extract(discover.py)', 'detail': xerr})
    else:
        run.cov['discharged'] += 1
    if not res['ok']:
        broken.append({'kind': 'broken-obligation', 'detail': first_error(res['log']),
                       'obligation': first_error(res['log']).get('obligation')})
    if res['hygiene']:
        broken.append({'kind': 'hygiene', 'detail': res['hygiene']})

    # the hypotheses of the generic theorems about the case mapping, swept over every code point on the implementation's interpreter
    run.cov['obligations'] += 1
    try:
        sweep = run_impl(IMPL, {'mode': 'sweep'})
    except Exception as e:  # noqa
        sweep = {'bad': [f'sweep failed: {e}'[:200]]}
    if sweep['bad']:
        broken.append({'kind': 'broken-obligation', 'obligation': 'case-map hypotheses of c19_generic_needle_matches (H_first, H_empty) on str.upper',
                       'detail': sweep['bad']})
    else:
        run.cov['discharged'] += 1
    n, maxlen = (1300, 2) if tier == "quick" else (12000, 3)
    cases, discarded = gen_cases(run.seed, n, maxlen)
    out = run_cases_impl(cases)
    results, variant = out['results'], out['variant']
    if info is not None and ('fixed' if info['fixed'] else 'orig') != variant:
        broken.append({'kind': 'translation-failure', 'obligation': 'variant detection',
                       'detail': f'extractor says fixed={info["fixed"]}, implementation module says {variant}'})

    T['impl'] = time.time()
    # direct oracle
    by_sig = {}
    for c, r in zip(cases, results):
        s = signature(c, r)
        if s:
            by_sig.setdefault(s, []).append(c)
    reported = []
    for s, cs in sorted(by_sig.items()):
        c = min(cs, key=lambda x: (len(x['d']), x['d']))
        small = shrink(c['d'], s, c.get('neg', False), dup=c.get('dup', 'same'))
        s2, r2 = sig_of(small, c.get('neg', False), c.get('dup', 'same'))
        if s2 != s:
            small, (s2, r2) = c['d'], sig_of(c['d'], c.get('neg', False), c.get('dup', 'same'))
        new = run.violation('suggestion', {'kind': 'counterexample', 'case': {'d': small, 'neg': c.get('neg', False), 'dup': c.get('dup', 'same')},
                                           'observed': r2, 'expected': 'the suggested rule text loads (exactly one rule) and matches this description',
                                           'n_failing_cases': len(cs), 'shrunk_from': c['d'], 'variant': variant,
                                           'obligation': 'c19_suggestion_loads / c19_suggestion_matches on the implementation',
                                           'broken': broken}, signature=s)
        reported.append((s, small, new))

    T['oracle+shrink'] = time.time()
    # CLI loop
    work = os.path.join(WORK, 'C19_cli')
    os.makedirs(work, exist_ok=True)
    rnd = random.Random(run.seed + 1)
    budgets = list(CLI_BUDGETS)
    cliable = [c['d'] for c in cases if c['d'].strip() and all(32 <= ord(ch) < 127 for ch in c['d'])]
    for _ in range(2 if tier == 'quick' else 20):
        budgets.append(rnd.sample(cliable, 6) + ['NETFLIX'])
    loops, loop_fail = [], False
    plan = [(AMAZON_BUDGET, False, AMAZON_RULES)] + [(descs, pre, '') for descs in budgets for pre in (False, True)]
    for descs, pre, xr in plan:
        try:
            obs = cli_loop(descs, work, pre, xr)
        except Exception as e:  # noqa
            obs = {'descriptions': descs, 'error': f'{type(e).__name__}: {e}'[:400]}
            run.violation('cli', {'kind': 'cli-loop', 'descriptions': descs, 'preexisting': pre, 'extra_rules': xr, 'observed': obs,
                                  'broken': broken}, signature='C19/cli-loop-raises')
            loop_fail = True
            loops.append(obs)
            continue
        loops.append(obs)
        for s, detail in loop_verdicts(obs):
            loop_fail = True
            run.violation('cli', {'kind': 'cli-loop', 'descriptions': descs, 'preexisting': pre, 'extra_rules': xr,
                                  'failing': detail, 'observed': obs,
                                  'expected': 'every suggestion loads and matches; Unknown count strictly decreases after appending the suggestions',
                                  'variant': variant, 'broken': broken}, signature=s)

    T['cli'] = time.time()
    # correspondence model vs implementation
    model_idx = []
    if res['ok'] or os.path.exists(os.path.join(COQ, 'theories', 'C19', 'Model.vo')):
        lim = len(cases) if tier == 'thorough' else min(len(cases), 1600)
        bad, model_idx, err = model_check(cases[:lim], results[:lim], variant)
        if bad is None:
            broken.append({'kind': 'broken-correspondence', 'obligation': 'model_vs_impl(C19.Model, discover.py + parse_merchants + match)',
                           'detail': 'cases.v did not evaluate: ' + err})
        elif bad:
            j = min(bad, key=lambda i: len(cases[i]['d']))
            broken.append({'kind': 'broken-correspondence', 'obligation': 'model_vs_impl(C19.Model, discover.py + parse_merchants + match)',
                           'detail': {'case': cases[j], 'implementation': results[j], 'n': len(bad),
                                      'other_cases': [cases[i]['d'] for i in bad[:8]]}})
    else:
        broken.append({'kind': 'broken-correspondence', 'obligation': 'model_vs_impl', 'detail': 'C19/Model.v did not compile'})
    if broken and not any(new for _, _, new in reported) and not run.violations:
        run.violation('broken', {'kind': broken[0]['kind'], 'obligation': broken[0].get('obligation'), 'broken': broken,
                                 'searched': f'{len(cases)} generated descriptions + {len(plan)} CLI loops against the C19 oracle; '
                                             f'no failure beyond the listed known findings'}, found_input=False)

    T['model'] = time.time()
    ks = list(T)
    timings = {ks[i]: round(T[ks[i]] - T[ks[i - 1]], 1) for i in range(1, len(ks))}
    # evidence
    fcases = [(c, r) for c, r in zip(cases, results) if not c.get('u')]
    ucases = [(c, r) for c, r in zip(cases, results) if c.get('u')]
    uhist = {}
    for c, r in ucases:
        k = signature(c, r) or 'holds'
        uhist[k] = uhist.get(k, 0) + 1
    multi = [c['d'] for c, r in fcases if 'pattern' in r and '\\s*' in r['pattern']]
    esc = [c['d'] for c, r in fcases if 'pattern' in r and re.search(r'\\[^s]', r['pattern'])]
    quoted = [c['d'] for c, r in fcases if 'needle' in r and ('"' in r['needle'] or '\\' in r['needle'])]
    plain = [c['d'] for c, r in fcases if 'pattern' in r and '\\' not in r['pattern'] and r['pattern']]
    hist = {}
    for c, r in fcases:
        k = signature(c, r) or 'holds'
        hist[k] = hist.get(k, 0) + 1
    run.cov.update({
        'evaluations': len(cases) + len(model_idx) + len(plan),
        'distinct_nontrivial': len(set(multi) | set(esc) | set(quoted)),
        'rule': 'descriptions of 1-5 words (merchant-like words in random letter case, numbers, punctuation incl. every regex metacharacter, '
                'quotes, backslashes, control characters, caseless non-ASCII) joined by varied whitespace, with processor prefixes and '
                'store-number / zip / state / DES: / ID: suffixes at the end or in the middle; a fixed boundary stream; all strings of '
                f'length <= {maxlen} over {SMALL_ALPHABET}; non-trivial = distinct descriptions whose suggestion is multi-word, has an escaped '
                'metacharacter, or needs quoting',
        'samples': [cases[7]['d'], cases[-1]['d'], cases[len(cases) // 2]['d']],
        'variant_under_test': variant, 'oracle_histogram': hist,
        'suggestions_multiword': len(multi), 'suggestions_with_escaped_metachar': len(esc), 'suggestions_needing_quoting': len(quoted),
        'suggestions_single_plain_word': len(plain), 'discarded_outside_ascii_fragment': discarded,
        'impl_oracle_cases': len(cases), 'model_vs_impl_cases_in_coq': len(model_idx),
        'unicode_family_cases_oracle_only': len(ucases), 'unicode_family_histogram': uhist,
        'unicode_family_needle_longer_than_description': sum(1 for c, r in ucases if 'needle' in r and len(r['needle']) > len(c['d'])),
        'cli_loops': [{k: o.get(k) for k in ('descriptions', 'preexisting_same_named_rules', 'unknown_before', 'unknown_after', 'still_unknown', 'error')} for o in loops],
        'cli_loops_with_preexisting_same_named_rules': sum(1 for o in loops if o.get('preexisting_same_named_rules')),
        'reported': [{'signature': s, 'shrunk': d, 'new': new} for s, d, new in reported],
        'case_map_sweep': sweep, 'extraction': 'ok' if info else xerr, 'broken': broken, 'phase_seconds': timings})
    run.finish()


def replay(path):
    obj = json.load(open(path))
    kind = obj.get('kind')
    if kind == 'counterexample':
        c = obj['case']
        s, r = sig_of(c['d'], c.get('neg', False), c.get('dup', 'same'))
        print(json.dumps({'description': c['d'], 'signature': s, 'observed': r}, indent=1))
        if s:
            print(f'VIOLATION property=C19 replay={path}')
            return 1
        return 0
    if kind == 'cli-loop':
        work = os.path.join(WORK, 'C19_cli_replay')
        os.makedirs(work, exist_ok=True)
        obs = cli_loop(obj['descriptions'], work, obj.get('preexisting', False), obj.get('extra_rules', ''))
        v = loop_verdicts(obs)
        print(json.dumps({'observed': obs, 'verdicts': v}, indent=1, default=str))
        if v:
            print(f'VIOLATION property=C19 replay={path}')
            return 1
        return 0
    main('quick')
