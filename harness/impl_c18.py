"""Runs the implementation for C18 (under /venv/bin/python, PYTHONPATH=$VERIF_REPO/src):
  parse     -> tally.format_parser.parse_format_string(fmt, tmpl), canonical FormatSpec fields or the error class
  inspect   -> writes a CSV file, runs tally.commands.inspect.cmd_inspect on it, parses the printed
               "Auto-Detection Results" block and the suggested `format: "..."` line, and feeds that
               suggestion back into parse_format_string
  each parse case also carries `ftab`: what CPython's string.Formatter().parse answers on the template and,
               recursively, on every non-empty format spec in it (the library oracle the model is run with)
stdin: JSON payload, stdout: JSON results."""
import contextlib
import csv
import io
import json
import os
import re
import string
import sys
from argparse import Namespace

from tally.format_parser import parse_format_string


def canon_pairs(d):
    if d is None:
        return []
    return sorted([str(k), v] for k, v in d.items())


def run_parse(fmt, tmpl):
    try:
        s = parse_format_string(fmt, tmpl)
    except ValueError:
        return {'ok': False, 'error': 'ValueError'}
    except Exception as e:  # noqa
        return {'ok': False, 'error': type(e).__name__, 'detail': str(e)[:200]}
    return {'ok': True, 'date': s.date_column, 'fmt': s.date_format, 'amount': s.amount_column,
            'desc': s.description_column, 'loc': s.location_column,
            'custom': canon_pairs(s.custom_captures), 'extra': canon_pairs(s.extra_fields),
            'neg': bool(s.negate_amount), 'abs': bool(s.abs_amount), 'tmpl': s.description_template}


def fparse_table(t):
    """{string: [[field_name, format_spec], ...] | None (ValueError)} for t and, recursively, its non-empty specs.
    Library behaviour only (string.Formatter), no tally code."""
    tab = {}

    def go(x):
        if x in tab:
            return
        try:
            fields = [[f, spec or ''] for _lit, f, spec, _conv in string.Formatter().parse(x) if f is not None]
        except ValueError:
            tab[x] = None
            return
        tab[x] = fields
        for _f, spec in fields:
            if spec:
                go(spec)
    if t:
        go(t)
    return [[k, v] for k, v in tab.items()]


def run_inspect(case, path):
    with open(path, 'w', encoding='utf-8', newline='') as f:
        w = csv.writer(f)
        w.writerow(case['headers'])
        for r in case.get('rows', []):
            w.writerow(r)
    with open(path, 'r', encoding='utf-8') as f:
        cells = next(csv.reader(f), None)
    with open(path, 'r', encoding='utf-8') as f:      # the text inspect's file-kind heuristic looks at (plain file reading)
        sample_lines = f.read(8192).split('\n')
    from tally.commands.inspect import cmd_inspect
    from tally.parsers import auto_detect_csv_format
    buf, err = io.StringIO(), io.StringIO()
    # reference (library only: re, csv) for the delimited-table guard: the sampled non-blank, non-comment lines with
    # thousands separators removed, and the field count of every row csv.reader yields for them
    tkey = [re.sub(r'(?<=\d),(?=\d{3})', '', l) for l in sample_lines[:20] if l.strip() and not l.startswith('#')]
    try:
        tcounts = [len(row) for row in csv.reader(tkey)]
    except csv.Error:
        tcounts = None
    res = {'cells': cells, 'sample_lines': sample_lines, 'table_lines': tkey, 'table_counts': tcounts}
    # the public auto-detection entry point on the same file (what inspect is expected to report for a CSV file)
    try:
        sp = auto_detect_csv_format(path)
        res['direct'] = {'date': sp.date_column, 'fmt': sp.date_format, 'desc': sp.description_column,
                         'amount': sp.amount_column, 'loc': sp.location_column}
    except ValueError:
        res['direct'] = None
    except Exception as e:  # noqa
        res['direct'] = None
        res['direct_crash'] = f'{type(e).__name__}: {e}'[:200]
    try:
        with contextlib.redirect_stdout(buf), contextlib.redirect_stderr(err):
            cmd_inspect(Namespace(file=path, rows=2))
    except SystemExit as e:
        res['crash'] = f'SystemExit({e.code})'
    except Exception as e:  # noqa
        res['crash'] = f'{type(e).__name__}: {e}'[:200]
    out = buf.getvalue()
    m = re.search(r'^  Detected type: (.*)$', out, re.M)
    res['file_type'] = m.group(1) if m else None
    head = out[:out.index('Auto-Detection Results:')] if 'Auto-Detection Results:' in out else out
    # format strings inspect prints outside the auto-detection block (e.g. under "Suggested config:")
    res['other_formats'] = [{'format': f, 'reparse': run_parse(f, None)} for f in re.findall(r'^\s*format: "(.*)"\s*$', head, re.M)]
    if 'Auto-Detection Results:' not in out:
        res['section'] = False
        res['tail'] = out[-300:]
        return res
    res['section'] = True
    block = out[out.index('Auto-Detection Results:'):]
    if 'Successfully detected format!' not in block:
        res['detected'] = None
        res['could_not'] = 'Could not auto-detect' in block
        return res
    det = {}
    m = re.search(r'^  - Date column: (\d+) \(format: (.*)\)$', block, re.M)
    det['date'], det['fmt'] = (int(m.group(1)), m.group(2)) if m else (None, None)
    m = re.search(r'^  - Description column: (\d+)$', block, re.M)
    det['desc'] = int(m.group(1)) if m else None
    m = re.search(r'^  - Amount column: (\d+)$', block, re.M)
    det['amount'] = int(m.group(1)) if m else None
    m = re.search(r'^  - Location column: (\d+)$', block, re.M)
    det['loc'] = int(m.group(1)) if m else None
    res['detected'] = det
    m = re.search(r'^    format: "(.*)"$', block, re.M)
    res['suggested'] = m.group(1) if m else None
    if res['suggested'] is not None:
        res['reparse'] = run_parse(res['suggested'], None)
    return res


def main():
    payload = json.load(sys.stdin)
    out = {}
    out['parse'] = [dict(run_parse(c['fmt'], c.get('tmpl')), ftab=fparse_table(c.get('tmpl')))
                    for c in payload.get('parse', [])]
    wd = payload.get('workdir') or '.'
    os.makedirs(wd, exist_ok=True)
    path = os.path.join(wd, f'inspect_{os.getpid()}.csv')
    out['inspect'] = [run_inspect(c, path) for c in payload.get('inspect', [])]
    if os.path.exists(path):
        os.remove(path)
    json.dump(out, sys.stdout)


main()
