"""Runs tally's rule engine on generated rule files / transactions (executed by /venv/bin/python with
PYTHONPATH=$VERIF_REPO/src).  For every (file, transaction) it returns

  * the complete observable result of MerchantEngine.match (both modes) and of normalize_merchant
    (cached-engine path for .rules files, legacy tuple loop for CSV files), and
  * when asked, the ORACLE TABLES of the parametric Coq model: what the implementation's own evaluator says,
    rule by rule, about each rule's condition, each {expr} tag, each field: expression and each transform —
    obtained by calling the evaluator the way match()/apply_transforms do, never by looking at match()'s result.

stdin: {"jobs": [...]}, stdout: {"results": [...]}.
"""
import copy
import json
import os
import re
import sys
import tempfile
from datetime import date

from tally import expr_parser, merchant_engine, merchant_utils
from tally.merchant_engine import parse_merchants, calculate_specificity
from tally.modifier_parser import check_all_conditions

TICK = 512.0      # amounts travel as integer ticks of 1/512 (dyadic: every float operation on them is exact)
XE = expr_parser.ExpressionError


def mk_date(s):
    if not s:
        return None
    y, m, d = s.split('-')
    return date(int(y), int(m), int(d))


def base_txn(t):
    """The dict normalize_merchant builds before transforms."""
    amount = None if t.get('a') is None else t['a'] / TICK
    d = {'description': t['d'], 'amount': amount or 0, 'field': copy.deepcopy(t.get('field')),
         'source': t.get('source'), 'location': t.get('location')}
    dt = mk_date(t.get('date'))
    if dt:
        d['date'] = dt
    return d


def cls(e):
    return type(e).__name__


def show(v):
    return repr(v)


def idx_of(rules, r):
    if r is None:
        return None
    for i, x in enumerate(rules):
        if x is r:
            return i
    return -1


def match_result(engine, txn, ds):
    try:
        r = engine.match(copy.deepcopy(txn), data_sources=ds)
    except XE as e:
        return {'crash': 'ExpressionError:' + cls(e)}
    except Exception as e:  # noqa
        return {'crash': cls(e)}
    return {'matched': bool(r.matched), 'merchant': r.merchant, 'category': r.category, 'subcategory': r.subcategory,
            'matched_rule': idx_of(engine.rules, r.matched_rule), 'merchant_rule': idx_of(engine.rules, r.merchant_rule),
            'subcategory_rule': idx_of(engine.rules, r.subcategory_rule),
            'tags': sorted(r.tags), 'tag_sources': {k: v.get('rule') for k, v in r.tag_sources.items()},
            'extra_fields': [[k, show(v)] for k, v in r.extra_fields.items()],
            'all_matching': [idx_of(engine.rules, x) for x in r.all_matching_rules]}


def rule_desc(i, r):
    return {'id': i, 'line': r.line_number, 'name': r.name, 'match': r.match_expr, 'category': r.category,
            'subcategory': r.subcategory, 'merchant': r.merchant, 'tags': sorted(r.tags), 'priority': r.priority,
            'fields': list(r.fields.keys()), 'lets': bool(r.let_bindings), 'spec': list(calculate_specificity(r))}


def dyn_exprs(tags):
    out = []
    for tag in tags:
        t = tag.strip()
        if t.startswith('{') and t.endswith('}'):
            e = t[1:-1].strip()
            if e and e not in out:
                out.append(e)
    return out


def dyn_value(fn):
    try:
        v = fn()
    except XE:
        return ['err']
    except Exception as e:  # noqa
        return ['crash', cls(e)]
    if isinstance(v, list):
        return ['list', [[bool(x), str(x)] for x in v]]
    return ['scalar', bool(v), str(v)]


def own_variables(engine, txn, ds):
    """Top-level variables, evaluated by the harness (NOT by engine._evaluate_variables): each expression on its own,
    without the other variables; an ExpressionError leaves the variable undefined."""
    out = {}
    for name, expr in engine.variables.items():
        try:
            out[name] = expr_parser.evaluate_transaction(expr, copy.deepcopy(txn), data_sources=ds)
        except XE:
            pass
    return out


def own_lets(rule, txn, gv, ds):
    """Rule-level let bindings, evaluated by the harness (NOT by engine._evaluate_let_bindings), in order, later bindings
    seeing earlier ones; a binding that raises ExpressionError is bound to None — only that binding is inapplicable,
    the rule is still evaluated (C01/C08)."""
    if not rule.let_bindings:
        return gv
    variables = dict(gv)
    for name, expr in rule.let_bindings:
        try:
            variables[name] = expr_parser.evaluate_transaction(expr, copy.deepcopy(txn), variables=variables, data_sources=ds)
        except XE:
            variables[name] = None
    return variables


def engine_oracle(engine, txn, ds):
    """What the evaluator says about each rule for this transaction, computed with expr_parser only — none of the
    engine's helper methods is used, so a change inside them shows up as a difference to match()."""
    o = {'gv_crash': False, 'cond': [], 'dyn': [], 'fields': []}
    try:
        gv = own_variables(engine, txn, ds)
    except Exception as e:  # noqa
        o['gv_crash'] = cls(e)
        return o
    for r in engine.rules:
        t = copy.deepcopy(txn)
        variables = None
        try:
            variables = own_lets(r, t, gv, ds)
            m = expr_parser.matches_transaction(r.match_expr, t, variables, ds)
            c = 'T' if m else 'F'
        except XE:
            c = 'S'
        except Exception as e:  # noqa
            c = 'C'
        o['cond'].append(c)
        dyn, flds = [], []
        if c == 'T':
            for e in dyn_exprs(r.tags):
                dyn.append([e] + dyn_value(lambda: expr_parser.evaluate_transaction(e, copy.deepcopy(txn), variables=variables,
                                                                                    data_sources=ds)))
            for name, fe in r.fields.items():
                try:
                    flds.append([name, 'val', show(expr_parser.evaluate_transaction(fe, copy.deepcopy(txn), variables=variables,
                                                                                    data_sources=ds))])
                except XE:
                    flds.append([name, 'err', ''])
                except Exception as e:  # noqa
                    flds.append([name, 'crash', cls(e)])
        o['dyn'].append(dyn)
        o['fields'].append(flds)
    return o


def tf_table(txn, transforms):
    """(state before transform i, expr_i) -> str(value) | None, states taken from apply_transforms on prefixes."""
    tab = []
    for i, (path, expr) in enumerate(transforms):
        st = merchant_utils.apply_transforms(copy.deepcopy(txn), list(transforms[:i]))
        try:
            ctx = expr_parser.TransactionContext.from_transaction(st)
            v = str(expr_parser.TransactionEvaluator(ctx).evaluate(expr_parser.parse_expression(expr)))
        except Exception:  # noqa
            v = None
        f = st.get('field')
        tab.append({'desc': st.get('description'), 'field': None if f is None else [[k, str(x)] for k, x in f.items()],
                    'expr': expr, 'val': v})
    return tab


def norm_call(desc, rules, amount, dt, field, source, transforms, location, ds):
    try:
        m, c, s, info = merchant_utils.normalize_merchant(
            desc, rules, amount=amount, txn_date=dt, field=copy.deepcopy(field),
            data_source=source, transforms=[tuple(x) for x in transforms] if transforms else None,
            location=location, data_sources=ds)
    except XE as e:
        return {'crash': 'ExpressionError:' + cls(e)}
    except Exception as e:  # noqa
        return {'crash': cls(e)}
    out = {'m': m, 'c': c, 's': s, 'info': None}
    if info is not None:
        out['info'] = {'pattern': info.get('pattern'), 'source': info.get('source'), 'tags': sorted(info.get('tags') or []),
                       'raws': [[k, v] for k, v in (info.get('raw_values') or {}).items()],
                       'extra': [[k, show(v)] for k, v in (info.get('extra_fields') or {}).items()],
                       'tag_sources': {k: (v.get('rule') if isinstance(v, dict) else None)
                                       for k, v in (info.get('tag_sources') or {}).items()}}
    return out


def norm_result(t, rules, transforms, ds):
    amount = None if t.get('a') is None else t['a'] / TICK
    return norm_call(t['d'], rules, amount, mk_date(t.get('date')), t.get('field'), t.get('source'), transforms,
                     t.get('location'), ds)


ROW_FORMAT = '{date:%Y-%m-%d},{description},{amount},{memo},{code},{location}'
ROW_SOURCE = 'Amex'


def sequence_and_rows(load, txns, transforms, ds, tmp, engine=None):
    """The same transactions classified BACK TO BACK within one load (normalize_merchant in sequence, and as rows of a
    statement file through parse_generic_csv), next to the reference: each row classified alone in a fresh load.
    load() -> rules of a fresh get_all_rules()."""
    from tally.format_parser import parse_format_string
    from tally.parsers import parse_generic_csv
    import csv as _csv
    out = {}
    rules = load()
    out['seq'] = [norm_result(t, rules, transforms, ds) for t in txns]
    rows = [t for t in txns if t.get('a') not in (None, 0) and t.get('date') and t['d'].strip()]
    path = os.path.join(tmp, 'statement.csv')
    with open(path, 'w', encoding='utf-8', newline='') as f:
        w = _csv.writer(f)
        w.writerow(['Date', 'Description', 'Amount', 'Memo', 'Code', 'Location'])
        for t in rows:
            fld = t.get('field') or {}
            w.writerow([t['date'], t['d'], repr(t['a'] / TICK), fld.get('memo', ''), fld.get('code', ''), t.get('location') or ''])
    rules = load()
    try:
        parsed = parse_generic_csv(path, parse_format_string(ROW_FORMAT), rules, source_name=ROW_SOURCE,
                                   transforms=[tuple(x) for x in transforms] if transforms else None, data_sources=ds)
    except Exception as e:  # noqa
        out['rows_error'] = f'{cls(e)}: {e}'
        return out
    out['rows_in'], out['rows'] = len(rows), []
    # the per-transaction tags must survive the analysis pass unchanged (they are what the report shows per transaction)
    before = [sorted(p.get('tags') or []) for p in parsed]
    try:
        from tally.analyzer import analyze_transactions
        stats = analyze_transactions(parsed)
        after = [sorted(p.get('tags') or []) for p in parsed]
        in_stats = {}
        for m, info in stats.get('by_merchant', {}).items():
            for t in info.get('transactions', []):
                in_stats.setdefault((m, t.get('raw_description', t.get('description')), t.get('amount')), []).append(sorted(t.get('tags') or []))
        out['analysis'] = {'before': before, 'after': after,
                           'merchant_txn_tags': [[list(k[:2]) + [k[2]], v] for k, v in in_stats.items()]}
    except Exception as e:  # noqa
        out['analysis'] = {'error': f'{cls(e)}: {e}'}
    for p, tags_before in zip(parsed, before):
        rules = load()
        dt = p['date'].date()
        ref = norm_call(p['raw_description'], rules, p['amount'], dt, p.get('field'), p.get('source'), transforms, p.get('location'), ds)
        mi = p.get('match_info')
        row = {'txn': {'d': p['raw_description'], 'amount': p['amount'], 'date': dt.isoformat(), 'field': p.get('field'),
                       'source': p.get('source'), 'location': p.get('location')},
               'got': {'m': p['merchant'], 'c': p['category'], 's': p['subcategory'], 'tags': tags_before},
               'ref': ref}
        if engine is not None:
            b = {'description': p['raw_description'], 'amount': p['amount'] or 0, 'field': copy.deepcopy(p.get('field')),
                 'source': p.get('source'), 'location': p.get('location'), 'date': dt}
            trd = merchant_utils.apply_transforms(copy.deepcopy(b), [tuple(x) for x in transforms] if transforms else [])
            row['oracle'] = engine_oracle(engine, trd, ds)
        out['rows'].append(row)
    return out


def state_of(txn):
    f = txn.get('field')
    return {'desc': txn.get('description'), 'field': None if f is None else [[k, str(x)] for k, x in f.items()],
            'raws': [[k, txn[k]] for k in txn if k.startswith('_raw_')]}


def job_rules(job, tmp):
    text, ds = job['text'], job.get('ds')
    out = {}
    try:
        eng_fm = parse_merchants(text, match_mode='first_match')
        eng_ms = parse_merchants(text, match_mode='most_specific')
    except Exception as e:  # noqa
        return {'parse_error': f'{cls(e)}: {e}'}
    out['rules'] = [rule_desc(i, r) for i, r in enumerate(eng_fm.rules)]
    out['variables'] = dict(eng_fm.variables)
    out['transforms'] = [list(x) for x in eng_fm.transforms]
    path = os.path.join(tmp, 'merchants.rules')
    with open(path, 'w', encoding='utf-8') as f:
        f.write(text)
    res = []
    for t in job['txns']:
        b = base_txn(t)
        tr = merchant_utils.apply_transforms(copy.deepcopy(b), [tuple(x) for x in eng_fm.transforms])
        r = {'state': state_of(tr),
             'fm': match_result(eng_fm, tr, ds), 'ms': match_result(eng_ms, tr, ds)}
        if job.get('oracle'):
            try:
                r['oracle'] = engine_oracle(eng_fm, tr, ds)
                r['tf'] = tf_table(b, [tuple(x) for x in eng_fm.transforms])
            except AttributeError as e:       # expr_parser API missing: the tie cannot be established
                r['oracle_error'] = str(e)
        if job.get('norm'):
            r['norm'] = {}
            for mode in ('first_match', 'most_specific'):
                merchant_utils.clear_engine_cache()
                rules = merchant_utils.get_all_rules(path, match_mode=mode)
                tfs = merchant_utils.get_transforms(path, match_mode=mode)
                r['norm'][mode] = norm_result(t, rules, tfs, ds)
                r['norm'][mode]['cached'] = merchant_utils.get_cached_engine() is not None
            merchant_utils.clear_engine_cache()
        res.append(r)
    out['txns'] = res
    if job.get('norm'):
        out['one_load'] = {}
        for mode, eng in (('first_match', eng_fm), ('most_specific', eng_ms)):
            def load(mode=mode):
                merchant_utils.clear_engine_cache()
                return merchant_utils.get_all_rules(path, match_mode=mode)
            out['one_load'][mode] = sequence_and_rows(load, job['txns'], [list(x) for x in eng_fm.transforms], ds, tmp, engine=eng)
        merchant_utils.clear_engine_cache()
    return out


def cond_desc(parsed):
    ac, dc = [], []
    for c in parsed.amount_conditions:
        if c.operator == ':':
            ac.append([':', c.min_value * TICK, c.max_value * TICK])
        else:
            ac.append([c.operator, c.value * TICK])
    for c in parsed.date_conditions:
        if c.operator == '=':
            dc.append(['=', c.value.isoformat()])
        elif c.operator == ':':
            dc.append([':', c.start_date.isoformat(), c.end_date.isoformat()])
        elif c.operator == 'month':
            dc.append(['month', c.month])
        else:
            dc.append(['relative', c.relative_days])
    return ac, dc


def job_csv(job, tmp):
    text, ds = job['text'], job.get('ds')
    transforms = job.get('tfs') or []
    path = os.path.join(tmp, 'merchant_categories.csv')
    with open(path, 'w', encoding='utf-8', newline='') as f:
        f.write(text)
    merchant_utils.clear_engine_cache()
    try:
        rules = merchant_utils.get_all_rules(path)
    except Exception as e:  # noqa
        return {'parse_error': f'{cls(e)}: {e}'}
    out = {'rules': []}
    for i, r in enumerate(rules):
        pattern, merchant, category, subcategory, parsed, source, tags = r
        ac, dc = cond_desc(parsed) if parsed else ([], [])
        out['rules'].append({'id': i, 'pattern': pattern, 'merchant': merchant, 'category': category, 'subcategory': subcategory,
                             'parsed': bool(parsed), 'aconds': ac, 'dconds': dc, 'source': source, 'tags': list(tags)})
    res = []
    for t in job['txns']:
        merchant_utils.clear_engine_cache()
        b = base_txn(t)
        tr = merchant_utils.apply_transforms(copy.deepcopy(b), [tuple(x) for x in transforms])
        amount = None if t.get('a') is None else t['a'] / TICK
        dt = mk_date(t.get('date'))
        r = {'state': state_of(tr), 'norm': norm_result(t, rules, transforms, ds)}
        du = tr['description'].upper()
        r['du'] = du
        direct, search, exprs, dyns = [], [], [], []
        for rule in rules:
            pattern, merchant, category, subcategory, parsed, source, tags = rule
            try:
                hit = bool(re.search(pattern, du, re.IGNORECASE))
                search.append('Y' if hit else 'N')
            except re.error:
                hit = False
                search.append('E')
            direct.append(bool(hit and (check_all_conditions(parsed, amount, dt) if parsed else True)))
            if job.get('oracle'):
                try:
                    m = expr_parser.matches_transaction(pattern, copy.deepcopy(tr), data_sources=ds)
                    exprs.append('T' if m else 'F')
                except (XE, re.error):
                    exprs.append('S')
                except Exception:  # noqa
                    exprs.append('C')
                dl = []
                for e in dyn_exprs(tags):
                    def ev(e=e):
                        ctx = expr_parser.TransactionContext.from_transaction(copy.deepcopy(tr))
                        return expr_parser.TransactionEvaluator(ctx).evaluate(expr_parser.parse_expression(e))
                    try:
                        v = ev()
                        dl.append([e, 'scalar', bool(v), str(v)])
                    except XE:
                        dl.append([e, 'err'])
                    except re.error:
                        dl.append([e, 'reerr'])
                    except Exception as ex:  # noqa
                        dl.append([e, 'crash', cls(ex)])
                dyns.append(dl)
        r['direct'] = direct
        r['search'] = search
        if job.get('oracle'):
            r['oracle'] = {'search': search, 'expr': exprs, 'dyn': dyns}
            r['tf'] = tf_table(b, [tuple(x) for x in transforms])
        res.append(r)
    out['txns'] = res

    def load():
        merchant_utils.clear_engine_cache()
        return merchant_utils.get_all_rules(path)
    out['one_load'] = {'legacy': sequence_and_rows(load, job['txns'], transforms, ds, tmp)}
    merchant_utils.clear_engine_cache()
    return out


def main():
    payload = json.load(sys.stdin)
    results = []
    os.makedirs(payload['tmp'], exist_ok=True)
    with tempfile.TemporaryDirectory(prefix='job-', dir=payload['tmp']) as tmp:
        for job in payload['jobs']:
            try:
                results.append(job_rules(job, tmp) if job['kind'] == 'rules' else job_csv(job, tmp))
            except Exception as e:  # noqa
                import traceback
                results.append({'harness_error': f'{cls(e)}: {e}', 'trace': traceback.format_exc()[-1500:]})
    json.dump({'results': results}, sys.stdout)


main()
