"""C04 generators: exhaustive small expressions over a 14-leaf alphabet, comprehension templates,
random typed trees (depth <= 6), random environments."""
import datetime
import itertools
import random

from expr_common import enc, fl, d, src

LEAVES = ['amount', 'month', '0', '2', '2.5', 'description', '"uber"', '"Uber"', 'field.memo', 'date',
          '"2025-01-31"', 'true', 'orders', 'x', 'None']
UN = ['not', '-']
CALL1 = ['contains', 'startswith', 'normalized', 'anyof', 'regex', 'extract', 'len', 'abs', 'round', 'exists', 'trim',
         'uppercase', 'lowercase', 'any', 'all', 'sum', 'min', 'max', 'fuzzy']
METH0 = ['lower', 'upper', 'strip']
BIN = ['+', '-', '*', '/', '%']
CMP = ['==', '!=', '<', '<=', '>', '>=', 'in', 'not in']
CALL2 = ['contains', 'startswith', 'normalized', 'regex', 'extract', 'fuzzy', 'strip_prefix', 'strip_suffix', 'min', 'max',
         'sum', 'anyof', 'split', 'substring', 'round', 'next']
METH1 = ['startswith', 'endswith']


def exhaustive_small():
    """All expressions of at most 3 nodes (leaf = 1 node, every operator / call / method = 1 node) over LEAVES."""
    out = []
    out += LEAVES
    for a in LEAVES:
        for op in UN:
            out.append(('un', op, a))
        for f in CALL1:
            out.append(('call', f, [a]))
        for m in METH0:
            out.append(('meth', a, m, []))
        out.append(('attr', a, 'item'))
        out.append(('walrus', 'w', a))
    for a, b in itertools.product(LEAVES, LEAVES):
        for op in BIN:
            out.append(('bin', op, a, b))
        for op in CMP:
            out.append(('cmp', a, [(op, b)]))
        for op in ('and', 'or'):
            out.append(('bool', op, [a, b]))
        for f in CALL2:
            out.append(('call', f, [a, b]))
        for m in METH1:
            out.append(('meth', a, m, [b]))
        out.append(('sub', a, b))
    # two stacked unary nodes over a leaf
    for a in LEAVES:
        for op1 in UN:
            for op2 in UN:
                out.append(('un', op1, ('un', op2, a)))
            for f in CALL1:
                out.append(('un', op1, ('call', f, [a])))
                out.append(('call', f, [('un', op1, a)]))
            for m in METH0:
                out.append(('un', op1, ('meth', a, m, [])))
        for m in METH0:
            for f in CALL1:
                out.append(('call', f, [('meth', a, m, [])]))
    return out


def comprehension_family():
    elts = ['r', 'r.amount', 'r.item', 'r.date', 'amount', ('bin', '*', 'r.amount', '2'), ('attr', 'r', 'Item')]
    iters = ['orders', 'paypal', 'description', 'x', ('comp', '[', 'q', [('q', 'orders', [('cmp', 'q.amount', [('>', '0')])])])]
    conds = [None, ('cmp', 'r.amount', [('>', '0')]), ('cmp', 'r.amount', [('==', 'txn.amount')]),
             ('call', 'contains', ['r.item', '"UBER"']), ('cmp', 'r.date', [('>=', '"2025-01-31"')]), 'r.item',
             ('cmp', 'r.amount', [('<', 'amount'), ('<', '100')])]
    out = []
    for e, it, c in itertools.product(elts, iters, conds):
        ifs = [] if c is None else [c]
        lc = ('comp', '[', e, [('r', it, ifs)])
        ge = ('comp', '(', e, [('r', it, ifs)])
        out += [lc, ('call', 'len', [lc]), ('call', 'any', [ge]), ('call', 'all', [ge]), ('call', 'sum', [ge]),
                ('call', 'next', [ge, '"none"']), ('call', 'next', [ge]), ('call', 'max', [ge]), ('call', 'min', [lc]),
                ('sub', lc, '0'), ('cmp', 'amount', [('in', lc)]),
                ('call', 'next', [ge, 'None']), ('call', 'next', [ge, 'nothing']),
                ('cmp', ('call', 'next', [ge, 'None']), [('==', 'None')]),
                ('un', 'not', ('cmp', ('call', 'next', [ge, 'nothing']), [('!=', 'None')])),
                ('call', 'next', [ge, ('walrus', 'dflt', 'None')]), ('call', 'next', [ge, '0']), ('call', 'next', [ge, '""']),
                ('call', 'sum', [ge, 'None']), ('call', 'sum', [lc, 'nothing']),
                ('if', ('call', 'any', [ge]), 'None', ('call', 'len', [lc])),
                ('cmp', 'None', [('in', lc)])]
    return out


def scoping_family():
    """nested loops, shadowing, leak after early exit / error, walrus around comprehensions (always run, on every
    environment that has rows)"""
    return [
        ('comp', '[', ('bin', '+', 'r.amount', 'p.amount'), [('r', 'orders', []), ('p', 'paypal', [])]),
        ('comp', '[', 'r.amount', [('r', 'orders', []), ('r', 'paypal', [])]),
        ('comp', '[', ('comp', '[', 'r.amount', [('r', 'paypal', [])]), [('r', 'orders', [])]),
        ('bool', 'and', [('call', 'any', [('comp', '(', ('cmp', 'r.amount', [('>', '0')]), [('r', 'orders', [])])]), 'r']),
        ('bool', 'or', [('call', 'all', [('comp', '(', ('cmp', 'r.amount', [('>', '20')]), [('r', 'orders', [])])]), 'r.item']),
        ('bool', 'and', [('comp', '[', 'r', [('r', 'orders', [])]), 'r']),
        # a generator run to completion restores the loop variable, one left early does not
        ('bool', 'or', [('cmp', ('call', 'sum', [('comp', '(', 'r.amount', [('r', 'orders', [])])]), [('==', '-1')]), 'r']),
        ('bool', 'and', [('call', 'all', [('comp', '(', 'r', [('r', 'orders', [])])]), 'r']),
        ('bool', 'or', [('cmp', ('call', 'max', [('comp', '(', 'r.amount', [('r', 'orders', [])])]), [('<', '-100')]), 'r.item']),
        ('bool', 'or', [('call', 'any', [('comp', '(', 'False', [('r', 'orders', []), ('p', 'orders', [])])]), 'p', 'r']),
        ('bool', 'and', [('walrus', 'r', '7'), ('call', 'len', [('comp', '[', 'r', [('r', 'orders', [])])]), 'r']),
        # after a list comprehension the names it bound with := stay, its loop variable does not
        ('bool', 'or', [('cmp', ('call', 'len', [('comp', '[', ('walrus', 'last', 'r.amount'), [('r', 'orders', [])])]), [('<', '0')]),
                        ('call', 'exists', ['r']), ('cmp', 'last', [('==', 'last')])]),
        ('bool', 'and', [('walrus', 'm', ('comp', '[', 'r', [('r', 'orders', [('cmp', 'r.amount', [('==', 'txn.amount')])])])),
                         ('cmp', ('call', 'len', ['m']), [('>', '0')])]),
        ('bin', '+', ('walrus', 'amount', '5'), 'amount'),
        ('bool', 'or', [('call', 'exists', [('comp', '[', 'r.nope', [('r', 'orders', [])])]), 'r']),
        ('bool', 'and', [('walrus', 'r', 'None'), ('comp', '[', 'r', [('r', 'orders', [])]), ('cmp', 'r', [('==', 'None')])]),
        ('call', 'next', [('comp', '(', 'r.item', [('r', 'orders', [('cmp', 'r.amount', [('>', '20')])])]), ('walrus', 'z', '"dflt"')]),
        ('call', 'sum', [('comp', '(', 'r.amount', [('r', 'orders', [])]), ('walrus', 's0', '0.5')]),
        ('call', 'sum', [('comp', '[', 'r.item', [('r', 'orders', [])]), '""']),
        ('call', 'min', ['amount', ('call', 'len', ['orders']), '3']),
        ('call', 'max', ['amount', 'description']),
        ('bool', 'and', [('walrus', 'g', ('comp', '(', 'r', [('r', 'orders', [])])), ('call', 'any', ['g'])]),
        ('cmp', 'txn.amount', [('in', ('comp', '(', 'r.amount', [('r', 'orders', [])]))]),
        ('comp', '[', 'c', [('c', ('comp', '(', 'r.item', [('r', 'orders', [])]), [])]),
    ]


def walrus_in_comp_family():
    """:= executed INSIDE a comprehension (element or if clause) binds in the enclosing scope: the name is read after
    the comprehension ends; fresh names and names bound before.  Valid Python with the same meaning."""
    def after(comp_expr, name):        # value of `name` after evaluating comp_expr
        return ('bin', '+', ('bin', '*', ('call', 'len', [comp_expr]), '0'), name)
    lc_elt = ('comp', '[', ('walrus', 'last', 'r.amount'), [('r', 'orders', [])])
    lc_acc = ('comp', '[', ('walrus', 't', ('bin', '+', 't', 'r.amount')), [('r', 'orders', [])])
    lc_if = ('comp', '[', 'r.item', [('r', 'orders', [('cmp', ('walrus', 'seen', 'r.amount'), [('>', '0')])])])
    lc_if2 = ('comp', '[', 'r', [('r', 'orders', [('cmp', 'r.amount', [('>', '0')]), ('walrus', 'hit', 'r.item')])])
    ge_elt = ('comp', '(', ('walrus', 'c', 'r.amount'), [('r', 'orders', [])])
    nested = ('comp', '[', ('call', 'len', [('comp', '[', ('walrus', 'inner', 'p.amount'), [('p', 'orders', [])])]), [('r', 'orders', [])])
    two = ('comp', '[', ('walrus', 'w', ('bin', '*', 'r.amount', 'q.amount')), [('r', 'orders', []), ('q', 'orders', [('cmp', 'q.amount', [('>', 'r.amount')])])])
    return [
        after(lc_elt, 'last'),
        ('bool', 'and', [('cmp', ('call', 'len', [lc_elt]), [('>', '0')]), ('cmp', 'last', [('==', '12.5')])]),
        ('bin', '+', ('bin', '*', ('walrus', 't', '0'), '0'), after(lc_acc, 't')),
        ('bool', 'and', [('cmp', ('walrus', 't', '0'), [('==', '0')]), ('cmp', ('call', 'len', [lc_acc]), [('>=', '0')]),
                         ('cmp', 't', [('==', 'txn.amount')])]),
        ('bin', '+', ('bin', '*', ('walrus', 'last', '-1'), '0'), after(lc_elt, 'last')),
        after(lc_if, 'seen'), after(lc_if2, 'hit'),
        ('bin', '+', ('bin', '*', ('walrus', 'seen', '100'), '0'), after(lc_if, 'seen')),
        ('bin', '+', ('bin', '*', ('call', 'sum', [ge_elt]), '0'), 'c'),
        ('bin', '+', ('bin', '*', ('walrus', 'c', '7'), '0'), ('bin', '+', ('bin', '*', ('call', 'sum', [ge_elt]), '0'), 'c')),
        after(nested, 'inner'), after(two, 'w'),
        ('sub', lc_elt, '0'), ('call', 'len', [lc_if2]),
        ('bin', '+', ('call', 'sum', [lc_elt]), 'last'),
    ]

# ---- random typed trees ----------------------------------------------------------------------
STRS = ['"uber"', '"UBER"', '"Eats"', '""', '" "', '"-"', '"ref"', '"2025-01-31"', '"2024-02-29"', '"20250131"',
        '"2025-13-01"', '"WHOLEFOODS"', '"€"', '"a.b"', '"\xa0uber\u2009"', '"eats\u3000"']
NUMS = ['0', '1', '2', '3', '12.5', '0.5', '-1', '100', '64', '2.5', '1048576.75', '0.0', 'True']
STR_ATOMS = ['description', 'field.memo', 'field.code', 'source', 'txn.location', 'txn.description', 'x'] + STRS
NUM_ATOMS = ['amount', 'month', 'year', 'day', 'weekday', 'txn.amount', 'k'] + NUMS
DATE_ATOMS = ['date', 'txn.date']
BOOL_ATOMS = ['true', 'false', 'is_large', 'True', 'False']
LIST_ATOMS = ['orders', 'paypal']
ILL = ['None', 'nope', 'field.nope', 'orders', 'date', '"s"', '5', 'description', 'nothing', 'None']
NONE_ATOMS = ['None', 'nothing', 'None']
DEFAULTS = ['"none"', 'None', 'nothing', '0', '""', 'False']


def gen(rnd, ty, depth, loopvars=()):
    """random tree of (intended) type ty in {'bool','num','str','date','list','any'}; mostly well-typed."""
    if ty == 'any':
        ty = rnd.choice(['bool', 'bool', 'num', 'str', 'date', 'list'])
        if rnd.random() < 0.06:
            return rnd.choice(NONE_ATOMS)
    if depth > 0 and rnd.random() < 0.05:       # None as a ternary branch / the result of an empty query
        r0 = rnd.random()
        if r0 < 0.5:
            return ('if', gen(rnd, 'bool', depth - 1, loopvars), rnd.choice(NONE_ATOMS), gen(rnd, ty, depth - 1, loopvars))
        return ('call', 'next', [gen_comp(rnd, '(', ty if ty in ('num', 'str', 'bool') else 'row', depth - 1, loopvars),
                                 rnd.choice(DEFAULTS)])
    if rnd.random() < 0.04:
        return rnd.choice(ILL)                       # ill-typed intrusion
    leaf = depth <= 0 or rnd.random() < 0.18
    lv = list(loopvars)
    if ty == 'num':
        if leaf:
            if lv and rnd.random() < 0.4:
                return rnd.choice(lv) + '.amount'
            return rnd.choice(NUM_ATOMS)
        r = rnd.random()
        if r < 0.45:
            return ('bin', rnd.choice(BIN), gen(rnd, 'num', depth - 1, lv), gen(rnd, 'num', depth - 1, lv))
        if r < 0.55:
            return ('un', '-', gen(rnd, 'num', depth - 1, lv))
        if r < 0.65:
            return ('call', rnd.choice(['abs', 'round']), [gen(rnd, 'num', depth - 1, lv)])
        if r < 0.75:
            return ('call', 'len', [gen(rnd, rnd.choice(['str', 'list']), depth - 1, lv)])
        if r < 0.82:
            return ('call', rnd.choice(['sum', 'max', 'min']), [gen_comp(rnd, '(', 'num', depth - 1, lv)])
        if r < 0.85:
            return ('call', 'sum', [gen_comp(rnd, rnd.choice('(['), 'num', depth - 1, lv), rnd.choice(['0', '0.5', 'None', 'nothing', 'k'])])
        if r < 0.92:
            return ('if', gen(rnd, 'bool', depth - 1, lv), gen(rnd, 'num', depth - 1, lv), gen(rnd, 'num', depth - 1, lv))
        return ('call', rnd.choice(['min', 'max']), [gen(rnd, 'num', depth - 1, lv), gen(rnd, 'num', depth - 1, lv)])
    if ty == 'str':
        if leaf:
            if lv and rnd.random() < 0.4:
                return rnd.choice(lv) + '.item'
            return rnd.choice(STR_ATOMS)
        r = rnd.random()
        if r < 0.2:
            return ('bin', '+', gen(rnd, 'str', depth - 1, lv), gen(rnd, 'str', depth - 1, lv))
        if r < 0.4:
            return ('call', rnd.choice(['trim', 'uppercase', 'lowercase']), [gen(rnd, 'str', depth - 1, lv)])
        if r < 0.5:
            return ('meth', gen(rnd, 'str', depth - 1, lv), rnd.choice(METH0), [])
        if r < 0.6:
            return ('call', rnd.choice(['strip_prefix', 'strip_suffix']), [gen(rnd, 'str', depth - 1, lv), gen(rnd, 'str', depth - 1, lv)])
        if r < 0.7:
            return ('call', 'split', [gen(rnd, 'str', depth - 1, lv), rnd.choice(['"-"', '" "', '"u"', '"*"']), rnd.choice(['0', '1', '2', '-1'])])
        if r < 0.8:
            return ('call', 'substring', [gen(rnd, 'str', depth - 1, lv), rnd.choice(['0', '1', '-3', '2']), rnd.choice(['4', '0', '-1', '100'])])
        if r < 0.86:
            return ('call', 'extract', [gen(rnd, 'str', depth - 1, lv), rnd.choice(['"(\\\\d+)"', '"([a-z]+)-"', '"#(\\\\w*)"', '"(x)?uber"', '"("'])])
        if r < 0.9:
            return ('call', 'regex_replace', [gen(rnd, 'str', depth - 1, lv), rnd.choice(['"\\\\s+"', '"^uber\\\\s*"', '"[0-9]"']), rnd.choice(['""', '"_"'])])
        if r < 0.95:
            return ('if', gen(rnd, 'bool', depth - 1, lv), gen(rnd, 'str', depth - 1, lv), gen(rnd, 'str', depth - 1, lv))
        return ('call', 'next', [gen_comp(rnd, '(', 'str', depth - 1, lv), rnd.choice(DEFAULTS)])
    if ty == 'date':
        if lv and rnd.random() < 0.4:
            return rnd.choice(lv) + '.date'
        return rnd.choice(DATE_ATOMS)
    if ty == 'list':
        if leaf:
            return rnd.choice(LIST_ATOMS)
        return gen_comp(rnd, '[', rnd.choice(['num', 'str', 'row']), depth - 1, lv)
    # bool
    if leaf:
        return rnd.choice(BOOL_ATOMS + ['contains("uber")', 'amount > 10'])
    r = rnd.random()
    if r < 0.22:
        n = rnd.choice([2, 2, 3])
        return ('bool', rnd.choice(['and', 'or']), [gen(rnd, 'bool', depth - 1, lv) for _ in range(n)])
    if r < 0.3:
        return ('un', 'not', gen(rnd, 'bool', depth - 1, lv))
    if r < 0.45:
        t = rnd.choice(['num', 'num', 'str', 'date'])
        ops = [rnd.choice(CMP[:6])]
        rest = [(ops[0], gen(rnd, t if t != 'date' or rnd.random() < 0.5 else 'str', depth - 1, lv))]
        if rnd.random() < 0.3:
            rest.append((rnd.choice(CMP[:6]), gen(rnd, t, depth - 1, lv)))
        return ('cmp', gen(rnd, t, depth - 1, lv), rest)
    if r < 0.50:
        return ('cmp', gen(rnd, 'str', depth - 1, lv), [(rnd.choice(['in', 'not in']), gen(rnd, 'str', depth - 1, lv))])
    if r < 0.53:      # "no supplemental row for this transaction": == None / != None
        return ('cmp', rnd.choice([('call', 'next', [gen_comp(rnd, '(', rnd.choice(['num', 'str', 'row']), depth - 1, lv), rnd.choice(NONE_ATOMS)]),
                                   gen(rnd, 'any', depth - 1, lv), 'txn.location', 'nothing']),
                [(rnd.choice(['==', '!=']), rnd.choice(NONE_ATOMS))])
    if r < 0.58:
        return ('cmp', gen(rnd, 'num', depth - 1, lv), [(rnd.choice(['in', 'not in']), gen_comp(rnd, '[', 'num', depth - 1, lv))])
    if r < 0.72:
        f = rnd.choice(['contains', 'startswith', 'normalized', 'regex', 'fuzzy'])
        pat = gen(rnd, 'str', 0, lv) if f != 'regex' else rnd.choice(['"uber\\\\s"', '"^U"', '"EATS$"', '"(?i)x"', '"["', '"\\\\d{3}"'])
        args = [pat] if rnd.random() < 0.6 else [gen(rnd, 'str', depth - 1, lv), pat]
        return ('call', f, args)
    if r < 0.77:
        return ('call', 'anyof', [gen(rnd, 'str', 0, lv) for _ in range(rnd.choice([1, 2, 3]))])
    if r < 0.82:
        return ('call', 'exists', [rnd.choice(['field.memo', 'field.nope', 'field.code', 'x', 'description', 'txn.location'])])
    if r < 0.92:
        return ('call', rnd.choice(['any', 'all']), [gen_comp(rnd, '(', 'bool', depth - 1, lv)])
    if r < 0.96:
        name = rnd.choice(['m', 'w', 'amount'])
        return ('bool', 'and', [('walrus', name, gen(rnd, 'any', depth - 1, lv)), ('cmp', name, [('==', name)])])
    return ('meth', gen(rnd, 'str', depth - 1, lv), rnd.choice(METH1), [gen(rnd, 'str', 0, lv)])


def gen_comp(rnd, kind, elt_ty, depth, loopvars):
    var = rnd.choice(['r', 'p', 'q', 'r'])
    it = rnd.choice(LIST_ATOMS) if rnd.random() < 0.8 or depth <= 0 else gen_comp(rnd, '[', 'row', depth - 1, loopvars)
    lv = list(loopvars) + [var]
    ifs = [gen(rnd, 'bool', depth - 1, lv) for _ in range(rnd.choice([0, 1, 1, 2]))]
    gens = [(var, it, ifs)]
    if rnd.random() < 0.12:
        v2 = rnd.choice(['p', 'q', var])
        gens.append((v2, rnd.choice(LIST_ATOMS), []))
        lv.append(v2)
    elt = rnd.choice(lv) if elt_ty == 'row' else gen(rnd, elt_ty, depth - 1, lv)
    return ('comp', kind, elt, gens)


# ---- random environments -----------------------------------------------------------------------
DESCS = ['UBER EATS 123', 'uber *trip', '', 'UBER\xa0EATS\u2009', '\u3000Whole\u2028Foods', 'Whole-Foods Mkt', 'NETFLIX.COM', 'ref 77 Uber', '  padded  ', 'AB ab', '€5 café'.replace('é', 'e')]


def dyadic(rnd):
    return rnd.choice([0, 1, -1, rnd.randint(-2 ** 20, 2 ** 20), rnd.randint(-6400, 6400)]) / rnd.choice([1, 2, 4, 64])


def rand_env(rnd):
    date = rnd.choice([None, d(2025, 1, 31), d(2024, 2, 29), d(2024, 12, 31), d(2025, 1, 1),
                       datetime.date(rnd.randint(1990, 2040), rnd.randint(1, 12), rnd.randint(1, 28)).toordinal()])
    field = rnd.choice([None, {'memo': enc(rnd.choice(DESCS))}, {'memo': enc('Ref-77 uber'), 'code': enc('ACH-OUT-123')}])
    txn = {'description': rnd.choice(DESCS), 'amount': rnd.choice([fl(dyadic(rnd)), fl(dyadic(rnd)), enc(rnd.randint(-100, 100))]),
           'date': date, 'field': field, 'source': rnd.choice([None, 'Amex', 'chase']), 'location': rnd.choice([None, 'Seattle, WA', ''])}

    def row():
        return {'item': enc(rnd.choice(['Book', 'uber cable', '', 'UBER'])), 'amount': rnd.choice([fl(dyadic(rnd)), txn['amount']]),
                'date': rnd.choice([enc(datetime.date(2025, 1, 30)), enc(datetime.date(2025, 2, 1)), enc('n/a'),
                                    enc(datetime.date.fromordinal(date)) if date else enc(None)])}
    ds = {}
    if rnd.random() < 0.85:
        ds['orders'] = [row() for _ in range(rnd.choice([0, 1, 2, 3]))]
    if rnd.random() < 0.5:
        ds['paypal'] = [dict(row(), merchant=enc('ACME')) for _ in range(rnd.choice([0, 1, 2]))]
    vars_ = dict(rnd.choice([{}, {'is_large': enc(True), 'k': enc(3)}, {'x': enc('Uber'), 'k': fl(0.5), 'is_large': enc(False)}]))
    if rnd.random() < 0.8:
        vars_['nothing'] = enc(None)      # a failed let / a query that found nothing
    return {'txn': txn, 'vars': vars_, 'ds': ds}
