"""C10 — a merchant appears in a view exactly when the view's filter is true of it.

Proof: C10/Props.v — the membership loop (classify) for EVERY filter evaluator (Section variables), and the
characterisation of the modelled view evaluator's primitives (months / total / cv / by).
Tie: parse_sections + analyze_transactions + classify_by_sections + compute_section_totals vs the model, evaluated
inside Coq (vm_compute): every (view, merchant) verdict and the final view lists / totals.  Where the modelled
evaluator says Unmod (outside the fragment / within 1e-9 of a threshold) the implementation's own verdict is used
(oracle table) and counted.
Search (direct oracle, implementation outputs only): member list != {merchant | not excluded and the implementation's
own evaluate_section_filter is true on the merchant's own payments}; membership changes when other views are added /
removed / reordered; view total != sum of member totals; months / total / cv / by() probes != independent
re-computation (fractions.Fraction, strftime); a filter that must raise lists somebody or aborts the run; a view
that tests a variable differs from the view that tests the variable's definition; a chained comparison
`lo OP X OP hi` (in a filter or a variable) differs from its conjunction twin `lo OP X and X OP hi` in the same file or
from the verdict recomputed from the independently recomputed X (X below / inside / above / on the bounds); views with
byte-identical filter text but different view-local variables (or a local shadowing a global), in every order, differ
from the verdict recomputed from each view's own threshold (systematic corpus family + random draws); a view whose
(local or global) variable cannot be evaluated while a same-named global / primitive would make the filter true lists
somebody; by(week|day|year) probes on payments in Jan 1-7 / Dec 25-31 of one year (2020-2026) and on EVERY calendar
day of 2023 and 2024 (incl. 29 Feb; also 2020, 2028) != strftime re-computation; cv probes on a DECIMAL stream (identical
non-dyadic monthly totals over 3/6/12 months: true cv = 0) and `"x" in tags` probes on tags that lower() leaves alone
but casefold() changes (sharp s, final sigma, long s, ligatures) != independent re-computation."""
import ast
import copy
import json
import math
import os
import random
import re
from datetime import date
from fractions import Fraction

from common import *
import c13

COQ_FILES = ['Lib/Str.v', 'Lib/NumOps.v', 'Gen/ClassificationPy.v', 'C10/Model.v', 'C10/Proofs.v', 'C10/ViewEval.v',
             'C10/EvalProofs.v', 'C10/Props.v']
IMPL = os.path.join(os.path.dirname(os.path.abspath(__file__)), 'impl_c10.py')
SPECIAL = ['income', 'transfer', 'investment']
FIELDS = ['month', 'year', 'week', 'day']
AGGS = ['sum', 'avg', 'max', 'min', 'count', 'stddev']


# =====================================================================================================
# generator
# =====================================================================================================
def casing(rnd, w):
    return rnd.choice([w, w, w.upper(), w.title(), ''.join(c.upper() if rnd.random() < .5 else c for c in w)])


def flit(x):
    """float literal whose value is exactly x (repr round-trips)"""
    return repr(float(x))


NONASCII_TAGS = ['fußball', 'καφές', 'ſpaß', 'Fußball', 'ŉ', 'ǰazz', 'ﬁlm']     # str.lower() only touches their ASCII letters
DAYS = [31, 28, 31, 30, 31, 30, 31, 31, 30, 31, 30, 31]


def gen_merchants(rnd):
    n = rnd.choice([1, 2, 2, 3, 3, 4, 5])
    names = rnd.sample(['Acme', 'Bolt', 'Cafe Uno', 'Dyn', 'E F', 'Gas-N-Go', 'Hulu', 'Ikea'], n)
    ms = []
    y0 = rnd.choice([2023, 2024, 2025])
    for nm in names:
        k = rnd.choice([1, 1, 2, 3, 4, 6, 9])
        style = rnd.choice(['steady', 'steady', 'lumpy', 'mixed', 'refunds'])
        base = rnd.choice([64, 640, 960, 6400, 100, 1, 12800, 33])
        months = sorted(rnd.sample(range(0, 20), min(k, rnd.choice([1, 2, 3, 4, 6]))))
        excluded = rnd.random() < 0.18
        mtags = [t for t in ['food', 'Recurring', 'biz'] if rnd.random() < 0.3]
        if rnd.random() < 0.12:
            mtags.append(rnd.choice(NONASCII_TAGS))       # lower() leaves them alone, casefold() would not
        txns = []
        yearedge = rnd.random() < 0.15        # payments in Jan 1-7 and Dec 25-31 of ONE year (week / year boundaries)
        ye_year = rnd.choice([2020, 2021, 2023, 2024, 2025, 2026])
        for _ in range(k):
            mo = rnd.choice(months)
            y, m = y0 + mo // 12, 1 + mo % 12
            dmax = DAYS[m - 1] + (1 if m == 2 and y % 4 == 0 and (y % 100 != 0 or y % 400 == 0) else 0)   # 29 Feb exists
            d = rnd.choice([1, 2, 8, 14, 15, 16, 22, 28, dmax, dmax, rnd.randint(1, dmax)])
            if yearedge:
                y = ye_year
                m, d = rnd.choice([(1, rnd.randint(1, 7)), (12, rnd.randint(25, 31)), (1, rnd.randint(1, 7)), (12, rnd.randint(25, 31)),
                                   (rnd.randint(2, 11), rnd.randint(1, 28))])
            if style == 'steady':
                a = base
            elif style == 'lumpy':
                a = rnd.choice([base, base * 3, base // 2 or 1, rnd.randint(1, 2 ** 14)])
            elif style == 'refunds':
                a = rnd.choice([base, -base, -base // 2 or -1, 0])
            else:
                a = rnd.randint(-2 ** 10, 2 ** 16)
            tags = [t for t in mtags if rnd.random() < 0.7]
            if excluded and rnd.random() < 0.6:
                tags.append(casing(rnd, rnd.choice(SPECIAL)))
            if rnd.random() < 0.05:
                tags.append(rnd.choice(['income tax', 'transfers', ' income', 'Incomes']))   # NOT special
            txns.append({'d': f'{y:04d}-{m:02d}-{d:02d}', 'a': a, 'tags': tags})
        if excluded and not any(t.lower() in SPECIAL for x in txns for t in x['tags']):
            txns[-1]['tags'].append(casing(rnd, rnd.choice(SPECIAL)))
        ms.append({'name': nm, 'cat': rnd.choice(['Food', 'Bills', 'Fun', 'food', 'Subscriptions', '']),
                   'sub': rnd.choice(['Grocery', 'Rent', 'grocery', 'Streaming', '']), 'txns': txns})
    order = [[i, j] for i, m in enumerate(ms) for j in range(len(m['txns']))]
    rnd.shuffle(order)
    # keep each merchant's transactions in their own order (so that payments/by() order is the case's order)
    pos = {i: 0 for i in range(len(ms))}
    fixed = []
    for i, _ in order:
        fixed.append([i, pos[i]])
        pos[i] += 1
    return ms, fixed


# ---- independent reference for the primitives (the property's own words) -----------------------------
def m_tags(m):
    out = []
    for t in m['txns']:
        for x in t['tags']:
            if x not in out:
                out.append(x)
    return out


def spec_excluded(m):
    return any(t.lower() in SPECIAL for t in m_tags(m))


def amt(t):
    """exact value of the amount the implementation receives: ticks of 1/64, or (decimal stream) the double nearest to
    cents/100"""
    return Fraction(t['a'], 64) if 'a' in t else Fraction(*(t['c'] / 100).as_integer_ratio())


def is_decimal(case):
    return any('c' in t for m in case['merchants'] for t in m['txns'])


def ref_total(m):
    return sum((amt(t) for t in m['txns']), Fraction(0))


def ref_months(m):
    return len({t['d'][:7] for t in m['txns']})


def chain_value(prim, m):
    return {'months': lambda: Fraction(ref_months(m)), 'total': lambda: ref_total(m),
            'count': lambda: Fraction(len(m['txns']))}[prim]()


def chain_truth(meta, m):
    """lo OP1 X OP2 hi, from the independently recomputed X"""
    import operator
    ops = {'<': operator.lt, '<=': operator.le, '>': operator.gt, '>=': operator.ge}
    x, a, b = chain_value(meta['prim'], m), Fraction(*meta['a']), Fraction(*meta['b'])
    return ops[meta['ops'][0]](a, x) and ops[meta['ops'][1]](x, b)


def ref_cv2(m):
    """(sign, cv^2) of the population coefficient of variation of the monthly totals"""
    mt = {}
    for t in m['txns']:
        mt[t['d'][:7]] = mt.get(t['d'][:7], 0) + amt(t)
    vals = list(mt.values())
    if len(vals) < 2:
        return 0, Fraction(0)
    mean = sum(vals) / len(vals)
    if mean == 0:
        return 0, Fraction(0)
    var = sum((v - mean) ** 2 for v in vals) / len(vals)
    return (1 if mean > 0 else -1), var / mean ** 2


def ref_cv_float(m):
    s, q = ref_cv2(m)
    return s * math.sqrt(q)


def ref_groups(m, field):
    """payments grouped by the strftime key of their own dates, groups in key order"""
    fmt = {'month': '%Y-%m', 'year': '%Y', 'day': '%Y-%m-%d', 'week': '%Y-W%W'}[field]
    g = {}
    for t in m['txns']:
        y, mo, d = map(int, t['d'].split('-'))
        g.setdefault(date(y, mo, d).strftime(fmt), []).append(amt(t))
    return [g[k] for k in sorted(g)]


def same_text_family(ms, tag, pick=None):
    """Views with byte-identical filter text whose verdict is decided by DIFFERENT view-local variables (or by a
    local shadowing a global).  pick(list) chooses (random in generated cases, first/fixed in the corpus).
    Returns (globals to add, views).  Each view carries 'same' = [prim, op, [num, den]]: filter <=> X op k."""
    pick = pick or (lambda l: l[0])
    live = [m for m in ms if not spec_excluded(m)] or ms
    prim = pick(['total', 'months', 'count'])
    src = {'months': 'months', 'total': 'total', 'count': 'count(payments)'}[prim]
    vals = sorted({chain_value(prim, m) for m in live})
    lo, hi = vals[0], vals[-1]
    # thresholds that split the merchants differently: below all, between, above all
    ks = [lo - 1, (lo + hi) / 2 if prim == 'total' else Fraction((lo + hi).numerator // (2 * (lo + hi).denominator) + 1), hi + 1]
    ks = [Fraction(int(k * 64), 64) for k in ks]
    op = pick(['>=', '>', '<', '<='])

    def lit(k):
        return flit(k) if prim == 'total' else str(int(k))
    shape = pick(['locals', 'locals3', 'via-base', 'shadow-global', 'compound'])
    flt = f'{src} {op} sfloor'
    views, globs = [], []
    if shape == 'locals':
        order = pick([[0, 2], [2, 0], [1, 0], [2, 1]])
        for j, ki in enumerate(order):
            views.append({'name': f'Sm{tag}{j}', 'vars': [['sfloor', lit(ks[ki])]], 'filter': flt, 'same': [prim, op, [ks[ki].numerator, ks[ki].denominator]]})
    elif shape == 'locals3':
        order = pick([[0, 1, 2], [2, 1, 0], [1, 2, 0]])
        for j, ki in enumerate(order):
            views.append({'name': f'Sm{tag}{j}', 'vars': [['sfloor', lit(ks[ki])]], 'filter': flt, 'same': [prim, op, [ks[ki].numerator, ks[ki].denominator]]})
    elif shape == 'via-base':
        # identical filter text AND identical text of the variable the filter reads; an earlier local differs
        order = pick([[0, 2], [2, 0]])
        for j, ki in enumerate(order):
            views.append({'name': f'Sm{tag}{j}', 'vars': [['sbase', lit(ks[ki])], ['sfloor', '(sbase + 0)']], 'filter': flt,
                          'same': [prim, op, [ks[ki].numerator, ks[ki].denominator]]})
    elif shape == 'shadow-global':
        # one view shadows the global, the other reads it; both orders
        globs.append(['sfloor', lit(ks[0])])
        pair = [{'name': f'Sm{tag}0', 'vars': [['sfloor', lit(ks[2])]], 'filter': flt, 'same': [prim, op, [ks[2].numerator, ks[2].denominator]]},
                {'name': f'Sm{tag}1', 'vars': [], 'filter': flt, 'same': [prim, op, [ks[0].numerator, ks[0].denominator]]}]
        views += pair if pick([True, False]) else pair[::-1]
    else:
        flt = f'months >= 1 and {src} {op} sfloor'
        order = pick([[2, 0], [0, 2]])
        for j, ki in enumerate(order):
            views.append({'name': f'Sm{tag}{j}', 'vars': [['sfloor', lit(ks[ki])]], 'filter': flt, 'same': [prim, op, [ks[ki].numerator, ks[ki].denominator]]})
    return globs, views


def same_consistent(case, v):
    """the threshold the view's filter reads is still the one recorded in v['same'] (shrinking may drop variables)"""
    k = Fraction(*v['same'][2])
    env = dict(dict_defs(case['globals']))
    env.update(dict(dict_defs(v['vars'])))
    if 'sfloor' not in v['filter']:
        return False
    d = env.get('sfloor')
    if d == '(sbase + 0)':
        d = env.get('sbase')
    try:
        return d is not None and Fraction(d) == k
    except (ValueError, ZeroDivisionError):
        return False


def chain_consistent(case, v):
    env = dict(dict_defs(case['globals']))
    env.update(dict(dict_defs(v['vars'])))
    text = env.get('rng') if v['filter'] == 'rng' else v['filter']
    return text is not None and v['chain'].get('text', text) == text


FAIL_EXPRS = ['2 * avg(paymnts)', 'sum(payments) - zz_fee', 'category + 1', 'max(sum(by("quarter")))', 'zz_nofn(payments)',
              'payments[0]', 'total / category']


def failvar_family(tag, pick=None):
    """Views whose (view-local or global) variable cannot be evaluated while an OUTER binding of the same name — a global
    or a built-in primitive — would make the filter true.  The failed variable is None, the ordering comparison on it
    cannot be evaluated, the view must list nobody.  Returns (globals, views); views carry 'must_empty' = [scope, name, expr]."""
    pick = pick or (lambda l: l[0])
    bad = pick(FAIL_EXPRS)
    shape = pick(['local-over-global', 'local-over-primitive', 'global-over-primitive', 'local-over-global-arith',
                  'local-over-primitive-months'])
    globs, views = [], []
    if shape == 'local-over-global':
        globs.append(['sfl', '-1000000'])
        views.append({'name': f'Fv{tag}c', 'vars': [], 'filter': 'total > sfl'})                       # control: reads the global
        views.append({'name': f'Fv{tag}', 'vars': [['sfl', bad]], 'filter': 'total > sfl', 'must_empty': ['local', 'sfl', bad]})
    elif shape == 'local-over-global-arith':
        globs.append(['sfl', '1'])
        views.append({'name': f'Fv{tag}', 'vars': [['sfl', bad]], 'filter': '(sfl + months) >= 1', 'must_empty': ['local', 'sfl', bad]})
        views.append({'name': f'Fv{tag}c', 'vars': [], 'filter': '(sfl + months) >= 1'})
    elif shape == 'local-over-primitive':
        views.append({'name': f'Fv{tag}', 'vars': [['total', bad]], 'filter': 'total > -1000000', 'must_empty': ['local', 'total', bad]})
        views.append({'name': f'Fv{tag}c', 'vars': [], 'filter': 'total > -1000000'})
    elif shape == 'local-over-primitive-months':
        views.append({'name': f'Fv{tag}c', 'vars': [], 'filter': 'months >= 1'})
        views.append({'name': f'Fv{tag}', 'vars': [['months', bad]], 'filter': 'months >= 1', 'must_empty': ['local', 'months', bad]})
    else:
        globs.append(['cv', bad])
        views.append({'name': f'Fv{tag}', 'vars': [], 'filter': 'cv >= 0 or cv < 0', 'must_empty': ['global', 'cv', bad]})
    if pick([False, True]):
        views.reverse()
    return globs, views


def must_empty_consistent(case, v):
    scope, name, expr = v['must_empty']
    defs = dict(dict_defs(v['vars'] if scope == 'local' else case['globals']))
    prims = {'category', 'subcategory', 'merchant', 'total', 'months', 'cv', 'payments', 'tags'}
    others = ({n.lower() for n, _ in case['globals']} | {n.lower() for n, _ in v['vars']}) - {name}
    # (another variable shadowing a primitive could make the "unevaluable" definition evaluable: no claim then)
    return defs.get(name) == expr and (scope == 'local' or name not in dict(dict_defs(v['vars']))) and not (prims & others)


def same_truth(meta, m):
    import operator
    ops = {'<': operator.lt, '<=': operator.le, '>': operator.gt, '>=': operator.ge}
    return ops[meta[1]](chain_value(meta[0], m), Fraction(*meta[2]))


class ExprGen:
    def __init__(self, rnd, ms):
        self.rnd = rnd
        self.ms = ms
        self.vars = {'num': [], 'bool': [], 'str': [], 'any': []}
        consts = {0, 1, 2, 3, 6, 12, 0.3, 0.5, 1.5, 100, 1000}
        for m in ms:
            tot = ref_total(m)
            consts.add(float(tot))
            consts.add(ref_months(m))
            consts.add(len(m['txns']))
            for t in m['txns'][:3]:
                consts.add(float(amt(t)))
            if m['txns']:
                consts.add(float(tot / len(m['txns'])))
            c = ref_cv_float(m)
            if c:
                consts.add(round(c * 1.1, 3))
                consts.add(round(c * 0.9, 3))
        self.consts = sorted(consts)

    def nm(self, w):
        """built-in names are case-insensitive"""
        r = self.rnd.random()
        return w if r < .9 else (w.upper() if r < .95 else w.title())

    def lit(self):
        c = self.rnd.choice(self.consts)
        if isinstance(c, int) or float(c).is_integer() and self.rnd.random() < .5:
            return str(int(c))
        return flit(c)

    def field(self):
        return '"' + casing(self.rnd, self.rnd.choice(FIELDS)) + '"'

    def num(self, d=2):
        rnd = self.rnd
        if d <= 0 or rnd.random() < .4:
            k = rnd.random()
            if k < .18:
                return self.lit()
            if k < .5:
                return self.nm(rnd.choice(['months', 'total', 'cv', 'months', 'total']))
            if k < .68:
                return f'{self.nm(rnd.choice(AGGS))}({self.nm("payments")})'
            if k < .86:
                return f'{rnd.choice(AGGS)}({rnd.choice(AGGS)}({self.nm("by")}({self.field()})))'
            if k < .92:
                return f'{self.nm("period")}("{rnd.choice(["month", "year", "Month"])}")'
            if self.vars['num']:
                return rnd.choice(self.vars['num'])
            return self.lit()
        k = rnd.random()
        a, b = self.num(d - 1), self.num(d - 1)
        if k < .45:
            return f'({a} {rnd.choice(["+", "-", "*", "/", "/", "*"])} {b})'
        if k < .5:
            return f'({a} % {rnd.choice(["2", "0.5", "3", b])})'
        if k < .58:
            return f'-{a}' if not a.startswith('-') else f'(-({a}))'
        if k < .66:
            return f'abs({a})'
        if k < .72:
            return f'round({a})'
        if k < .86:
            return f'{rnd.choice(["max_val", "min_val"])}({a}, {b})'
        return f'({a} if {self.boolean(d - 1)} else {b})'

    def string(self):
        rnd = self.rnd
        k = rnd.random()
        if k < .6:
            return self.nm(rnd.choice(['category', 'subcategory', 'merchant']))
        if k < .9 or not self.vars['str']:
            pool = ['Food', 'food', 'BILLS', 'Grocery', 'Rent', 'Fun', '', 'Streaming', 'Acme', 'bolt', 'E F']
            return '"' + rnd.choice(pool) + '"'
        return rnd.choice(self.vars['str'])

    def boolean(self, d=2):
        rnd = self.rnd
        if d <= 0 or rnd.random() < .45:
            k = rnd.random()
            if k < .45:
                return f'{self.num(d - 1)} {rnd.choice(["<", "<=", ">", ">=", "==", "!=", "<", ">="])} {self.num(d - 1)}'
            if k < .5:
                return f'{self.num(0)} {rnd.choice(["<", "<="])} {self.num(0)} {rnd.choice(["<", "<=", "!="])} {self.num(0)}'
            if k < .68:
                return f'{self.string()} {rnd.choice(["==", "==", "!="])} {self.string()}'
            if k < .8:
                return f'"{casing(rnd, rnd.choice(["food", "recurring", "biz", "income", "nope"]))}" {rnd.choice(["in", "in", "not in"])} {self.nm("tags")}'
            if k < .815:
                return f'"{rnd.choice(NONASCII_TAGS + ["fussball", "καφέσ"])}" {rnd.choice(["in", "not in"])} tags'
            if k < .84:
                return f'{self.string()} in "Food Bills Fun"'
            if k < .87:
                return f'{self.lit()} in payments'
            if k < .9:
                return rnd.choice(['True', 'False', 'true', 'FALSE', 'tags', 'payments', 'months', 'category', 'None'])
            if k < .93:
                return f'{self.string()} {rnd.choice(["<", ">="])} {self.string()}'
            if self.vars['bool']:
                return rnd.choice(self.vars['bool'])
            return 'True'
        k = rnd.random()
        if k < .4:
            return f'({self.boolean(d - 1)} and {self.boolean(d - 1)})'
        if k < .75:
            return f'({self.boolean(d - 1)} or {self.boolean(d - 1)})'
        if k < .9:
            return f'not {self.boolean(d - 1)}'
        return f'({self.boolean(d - 1)} if {self.boolean(d - 1)} else {self.boolean(d - 1)})'

    ERR = ['zz_undefined', 'zz_undefined > 1', 'zz_nofn(payments)', 'payments[0] > 1', 'payments.amount', 'by("bogus")',
           'period("week")', '[p for p in payments]', 'sum(p for p in payments) > 0', '(zz := 5)', 'total.real > 0',
           'period("day") > 3', 'len(payments) > 2', 'payments.count(1)']
    CRASH = ['category > 5', 'total + category', 'sum(total) > 1', 'by(5)', 'count(months) > 0', '-category == 1',
             'None < 1', 'abs(category)', 'sum() > 1', 'max_val(1) > 0', '"a" in total', '5 in category', 'period(1)',
             'category / 2', 'tags < 3', 'stddev(months)', 'total < "5"', 'payments + 1', 'avg(cv)', 'min_val(None, 1)',
             'by(None)', 'round(category)', 'sum(payments, 1)', 'max(months)', '[] in tags' if False else 'payments in tags']
    ZERO = ['total / 0 == 0', 'category / 0 == 0', '5 % 0 == 0', 'sum(0) == 0', 'sum(None) == 0', 'max("") == 0',
            'count("") == 0', 'avg(False) == 0', 'stddev("") == 0', 'min(0) == 0']

    def any_filter(self):
        """mostly well-typed boolean filters; some that raise ExpressionError, some ill-typed ones (TypeError,
        AttributeError inside the evaluator)"""
        rnd = self.rnd
        k = rnd.random()
        if k < .72:
            return self.boolean(rnd.choice([1, 2, 2, 3])), 'ok'
        if k < .78:
            return self.num(2), 'ok'
        if k < .84:
            e = rnd.choice(self.ERR)
            w = rnd.random()
            if w < .5:
                return e, 'must_error'
            if w < .75:
                return f'{self.boolean(1)} and {e}', 'ok'
            return f'{e} or {self.boolean(1)}', 'must_error'
        if k < .93:
            # ill-typed: TypeError / AttributeError inside the evaluator -> must behave like ExpressionError
            e = rnd.choice(self.CRASH)
            w = rnd.random()
            if w < .5:
                return e, 'must_error'
            if w < .8:
                return f'{self.boolean(1)} and {e}', 'ok'
            return f'{self.boolean(1)} or {e}', 'ok'
        return rnd.choice(self.ZERO), 'ok'

    def var_def(self, scope_names):
        """(name, expr, kind)"""
        rnd = self.rnd
        k = rnd.random()
        pool = [n for n in ['big', 'thr', 'avgp', 'is_food', 'x1', 'lim', 'ratio', 'flag', 'nm', 'g', 'monthly'] if n not in scope_names]
        name = rnd.choice(pool) if pool and rnd.random() < .9 else rnd.choice(scope_names or ['dup'])
        if rnd.random() < .06:
            name = rnd.choice(['total', 'months', 'category'])       # shadows a primitive
        if k < .45:
            return name, self.num(2), 'num'
        if k < .75:
            return name, self.boolean(2), 'bool'
        if k < .82:
            return name, self.string(), 'str'
        if k < .9:
            return name, rnd.choice(self.ERR), 'any'
        if k < .95:
            return name, rnd.choice(['payments', 'by("month")', 'tags', 'sum(by("month"))', 'None']), 'any'
        return name, rnd.choice(self.CRASH), 'any'

    def declare(self, name, kind):
        for k in self.vars:
            if name in self.vars[k]:
                self.vars[k].remove(name)
        self.vars[kind].append(name)


def gen_case(rnd, focus=None):
    ms, order = gen_merchants(rnd)
    g = ExprGen(rnd, ms)
    case = {'merchants': ms, 'order': order, 'globals': [], 'views': []}
    for _ in range(rnd.choice([0, 0, 1, 2, 3])):
        n, e, k = g.var_def([x[0] for x in case['globals']])
        case['globals'].append([n, e])
        g.declare(n, k)
    gvars = copy.deepcopy(g.vars)
    vnames = ['Total', 'Bills', 'Big Spenders', 'Every Month', 'Food', 'V6', 'Lumpy', 'x']
    rnd.shuffle(vnames)
    nv = rnd.choice([1, 2, 3, 3, 4, 5])
    for i in range(nv):
        g.vars = copy.deepcopy(gvars)
        vars_ = []
        for _ in range(rnd.choice([0, 0, 0, 1, 2])):
            n, e, k = g.var_def([x[0] for x in vars_])
            vars_.append([n, e])
            g.declare(n, k)
        f, kind = g.any_filter()
        v = {'name': vnames[i], 'vars': vars_, 'filter': f}
        if kind == 'must_error':
            v['must_error'] = True
        case['views'].append(v)
    g.vars = gvars
    # probes: primitives against their independent re-computation
    live = [m for m in ms if not spec_excluded(m)] or ms
    for _ in range(rnd.choice([0, 1, 2])):
        m = rnd.choice(live)
        kind = rnd.choice(['months', 'total', 'cv', 'groups', 'groups', 'biggest'])
        name = f'P{len(case["views"])}'
        if kind == 'months':
            op, k = rnd.choice(['==', '>=', '<']), ref_months(m) + rnd.choice([0, 0, 1])
            case['views'].append({'name': name, 'vars': [], 'filter': f'months {op} {k}', 'probe': ['months', op, k]})
        elif kind == 'total':
            op, k = rnd.choice(['==', '>', '<=']), ref_total(m) + rnd.choice([0, 0, Fraction(1, 64)])
            case['views'].append({'name': name, 'vars': [], 'filter': f'total {op} {flit(k)}',
                                  'probe': ['total', op, [k.numerator, k.denominator]]})
        elif kind == 'cv':
            c = ref_cv_float(m)
            thr = round(abs(c) * rnd.choice([0.8, 1.2, 0.95, 1.05]), 4) if c else 0.25
            op = rnd.choice(['<', '>='])
            case['views'].append({'name': name, 'vars': [], 'filter': f'cv {op} {flit(thr)}', 'probe': ['cv', op, thr]})
        else:
            fld = rnd.choice(FIELDS)
            gr = ref_groups(m, fld)
            if kind == 'groups':
                k = len(gr) + rnd.choice([0, 0, 0, 1])
                case['views'].append({'name': name, 'vars': [], 'filter': f'count(sum(by("{fld}"))) == {k}',
                                      'probe': ['groups', fld, k]})
            else:
                k = max(len(x) for x in gr)
                case['views'].append({'name': name, 'vars': [], 'filter': f'max(count(by("{fld}"))) == {k}',
                                      'probe': ['biggest', fld, k]})
    # twin views: a variable means its definition (definition without variable references)
    if rnd.random() < .35:
        g2 = ExprGen(rnd, ms)
        e = g2.boolean(2) if rnd.random() < .7 else g2.num(1)
        mixed = rnd.random() < .35
        name = rnd.choice(['Big', 'isFood', 'LIM', 'myVar']) if mixed else rnd.choice(['tw', 'tw_flag', 'q9'])
        if name.lower() not in [x[0].lower() for x in case['globals']] and \
                not any(name.lower() == x[0].lower() for v in case['views'] for x in v['vars']):
            local = rnd.random() < .4
            ia = len(case['views'])
            use = rnd.choice([name, name, name.lower(), name.upper()])       # names are case-insensitive at use
            va = {'name': f'TwA{ia}', 'vars': [[name, e]] if local else [], 'filter': use, 'twin': ia + 1, 'twin_var': name}
            if not local:
                case['globals'].append([name, e])
            case['views'].append(va)
            case['views'].append({'name': f'TwB{ia}', 'vars': [], 'filter': f'({e})'})
    # chained comparisons: `lo OP1 X OP2 hi` must mean `lo OP1 X and X OP2 hi` (twin view, same file) and must
    # agree with the verdict recomputed from the independently recomputed primitive
    shadow_names = {n for n, _ in case['globals']}
    if rnd.random() < .45 and not ({'months', 'total', 'count', 'payments', 'rng'} & shadow_names):
        m = rnd.choice(live)
        prim = rnd.choice(['months', 'total', 'count'])
        x = chain_value(prim, m)
        step = Fraction(1) if prim != 'total' else rnd.choice([Fraction(1, 64), Fraction(1), abs(x) / 2 + 1])
        pos = rnd.choice(['below', 'inside', 'above', 'inside', 'edge'])     # where X sits relative to [lo, hi]
        if pos == 'below':
            lo, hi = x + step, x + 3 * step
        elif pos == 'above':
            lo, hi = x - 3 * step, x - step
        elif pos == 'edge':
            lo, hi = rnd.choice([(x, x + step), (x - step, x), (x, x)])
        else:
            lo, hi = x - step, x + step
        if rnd.random() < .5:
            o1, o2, a, b = rnd.choice(['<', '<=']), rnd.choice(['<', '<=']), lo, hi       # lo <= X <= hi
        else:
            o1, o2, a, b = rnd.choice(['>', '>=']), rnd.choice(['>', '>=']), hi, lo       # hi >= X >= lo
        src = {'months': 'months', 'total': 'total', 'count': 'count(payments)'}[prim]
        la, lb = (str(int(a)), str(int(b))) if prim != 'total' else (flit(a), flit(b))
        chain = f'{la} {o1} {src} {o2} {lb}'
        conj = f'{la} {o1} {src} and {src} {o2} {lb}'
        ia = len(case['views'])
        meta = {'prim': prim, 'ops': [o1, o2], 'a': [a.numerator, a.denominator], 'b': [b.numerator, b.denominator],
                'twin_name': f'ChB{ia}', 'text': chain}
        where = rnd.choice(['filter', 'filter', 'global', 'local'])
        if where == 'filter':
            va = {'name': f'ChA{ia}', 'vars': [], 'filter': chain, 'chain': meta}
        elif where == 'global':
            case['globals'].append(['rng', chain])
            va = {'name': f'ChA{ia}', 'vars': [], 'filter': 'rng', 'chain': meta}
        else:
            va = {'name': f'ChA{ia}', 'vars': [['rng', chain]], 'filter': 'rng', 'chain': meta}
        case['views'].append(va)
        case['views'].append({'name': f'ChB{ia}', 'vars': [], 'filter': conj})
    if rnd.random() < .3 and not ({'months', 'total', 'count', 'payments', 'sfloor', 'sbase'} & {n for n, _ in case['globals']}):
        gl, vs = same_text_family(ms, str(len(case['views'])), rnd.choice)
        case['globals'] += gl
        case['views'] += vs
    if rnd.random() < .2 and not ({'months', 'total', 'cv', 'sfl'} & {n for n, _ in case['globals']}):
        gl, vs = failvar_family(str(len(case['views'])), rnd.choice)
        case['globals'] += gl
        case['views'] += vs
    if rnd.random() < .05 and len(case['views']) >= 2 and 'chain' not in case['views'][0] and \
            not case['views'][-1]['name'].startswith('Ch'):
        case['views'][-1]['name'] = case['views'][0]['name']          # duplicate view name
    rnd.shuffle(case['views']) if not any('twin' in v for v in case['views']) else None
    case['text_style'] = rnd.randint(0, 10 ** 6)
    return case


def views_text(case, view_idx=None):
    """Render the views file.  view_idx: which views, in which order (default all)."""
    rnd = random.Random(case.get('text_style', 0))
    lines = []
    if rnd.random() < .5:
        lines += ['# views', '']
    for n, e in case['globals']:
        lines.append(f'{n}{rnd.choice([" = ", "=", "  =  "])}{e}{rnd.choice(["", "", "  "])}')
        if rnd.random() < .2:
            lines.append(rnd.choice(['', '   ', '  # note']))
    idx = range(len(case['views'])) if view_idx is None else view_idx
    for i in idx:
        v = case['views'][i]
        r = random.Random(case.get('text_style', 0) * 31 + i)
        lines.append(r.choice(['[%s]', '[%s]  ', '[ %s ]']) % v['name'])
        if r.random() < .3:
            lines.append('description: ' + r.choice(['things = that recur', 'filter: nothing', 'x']))
        for n, e in v['vars']:
            lines.append(r.choice(['', '  ']) + f'{n} = {e}')
        if r.random() < .2:
            lines.append('# comment')
        lines.append(r.choice(['', '  ', '\t']) + 'filter:' + r.choice([' ', '  ', '']) + v['filter'])
        if r.random() < .4:
            lines.append('')
    return '\n'.join(lines) + ('\n' if rnd.random() < .8 else '')


def dict_defs(pairs):
    """parse_sections' dict of variables: keyed by the lower-cased name, a re-definition replaces in place"""
    d = {}
    for n, e in pairs:
        d[n.lower()] = e
    return [[k, v] for k, v in d.items()]


def variants(case):
    """view-list transformations for the independence law: (label, list of view indices)"""
    n = len(case['views'])
    out = []
    if n >= 2:
        out.append(('reversed', list(reversed(range(n)))))
        k = case.get('text_style', 0) % n
        out.append((f'drop{k}', [i for i in range(n) if i != k]))
        out.append(('only-last', [n - 1]))
    return out


def jobs_of(case):
    js = [{'text': views_text(case), 'merchants': case['merchants'], 'order': case['order'], 'tables': True}]
    for _, idx in variants(case):
        js.append({'text': views_text(case, idx), 'merchants': case['merchants'], 'order': case['order'], 'tables': False})
    return js


# =====================================================================================================
# direct oracle (implementation outputs + the property's own words only)
# =====================================================================================================
def bm_order(case):
    seen = []
    for i, _ in case['order']:
        if i not in seen:
            seen.append(i)
    return [case['merchants'][i] for i in seen]


def probe_truth(p, m):
    """True / False / None (too close to call in floating point)"""
    kind = p[0]
    if kind == 'months':
        v, k = ref_months(m), p[2]
        return {'==': v == k, '>=': v >= k, '<': v < k}[p[1]]
    if kind == 'total':
        v, k = ref_total(m), Fraction(p[2][0], p[2][1])
        return {'==': v == k, '>': v > k, '<=': v <= k}[p[1]]
    if kind == 'cv':
        c, thr = ref_cv_float(m), p[2]
        if abs(c - thr) <= 1e-9 * max(1, abs(thr)):
            return None
        return {'<': c < thr, '>=': c >= thr, '<=': c <= thr, '>': c > thr}[p[1]]
    if kind == 'tag':
        # "x" in tags: tags compare by their lower-cased form (str.lower on both sides)
        has = p[1].lower() in {t.lower() for t in m_tags(m)}
        return has != bool(p[2])
    gr = ref_groups(m, p[1])
    if kind == 'groups':
        return len(gr) == p[2]
    return max(len(x) for x in gr) == p[2]


def collapsed(m):
    m2 = dict(m)
    m2['txns'] = [dict(t, d=t['d'][:8] + '15') for t in m['txns']]
    return m2


def uses_day_week(case, i):
    v = case['views'][i]
    srcs = [v['filter']] + [e for _, e in v['vars']] + [e for _, e in case['globals']]
    return any(re.search(r'by\(\s*"(day|week)"\s*\)', s, re.I) for s in srcs)


def oracle(case, results):
    """-> list of (law, signature-or-None, detail)"""
    main = results[0]
    bad = []
    if 'harness_error' in main or 'analyze_error' in main:
        return [('harness', None, main)]
    names = [v['name'] for v in case['views']]
    dup = len(set(names)) != len(names)
    if 'parse_error' in main:
        if dup and main['parse_error'].startswith('SectionParseError') and 'Line ' in main['parse_error']:
            return []                      # duplicate view names are a parse error naming the line
        return [('views-file-rejected', None, main['parse_error'])]
    if dup:
        # results are keyed by name: accepting the file merges the views and lists / counts merchants twice
        return [('duplicate-view-names-accepted', 'C10/duplicate-view-names-merge',
                 {'names': names, 'observed': main.get('run')})]
    # parse_sections read the file as written
    want = {'globals': dict_defs(case['globals']),
            'views': [{'name': v['name'], 'vars': dict_defs(v['vars']), 'filter': v['filter']} for v in case['views']]}
    if main['parsed'] != want:
        def aswritten(pairs):
            d = {}
            for n, e in pairs:
                d[n] = e
            return [[k, v] for k, v in d.items()]
        old_style = {'globals': aswritten(case['globals']),
                     'views': [{'name': v['name'], 'vars': aswritten(v['vars']), 'filter': v['filter']} for v in case['views']]}
        if main['parsed'] == old_style:
            # variable names kept as written (not lower-cased): mixed-case names cannot be read back
            bad.append(('parse-structure', 'C10/mixed-case-variable-unreachable', {'parsed': main['parsed'], 'expected': want}))
        else:
            bad.append(('parse-structure', None, {'parsed': main['parsed'], 'written': want}))
            return bad
    ms = bm_order(case)
    prims = {'category', 'subcategory', 'merchant', 'total', 'months', 'cv', 'payments', 'tags', 'true', 'false'}
    run = main['run']
    own = main.get('own_true', {})
    if 'error' in run:
        # which evaluation raised (by the implementation's own evaluator)?
        culprits = []
        for m in ms:
            t = own.get(m['name'])
            if not t:
                continue
            if t['globals'] != 'ok':
                culprits.append([m['name'], 'globals', t['globals']])
            for i, x in enumerate(t['views']):
                if isinstance(x, str):
                    culprits.append([m['name'], names[i], x])
        # never a known finding: ExpressionEvaluator.evaluate re-raises every Exception as ExpressionError
        bad.append(('filter-error-aborts-run', None, {'error': run, 'raised_by': culprits[:4]}))
        return bad
    got = {}
    for name, members, total, count in run['views']:
        got[name] = (members, total, count)
    tot = {m['name']: ref_total(m) * 64 for m in ms}
    decimal = is_decimal(case)
    for i, v in enumerate(case['views']):
        members, total, count = got.get(v['name'], (None, None, None))
        shadowed = {n for n, _ in case['globals']} | {n for n, _ in v['vars']}
        if members is None:
            bad.append(('view-missing', None, v['name']))
            continue
        expect = [m['name'] for m in ms if not spec_excluded(m) and own.get(m['name'], {}).get('views', [None] * len(names))[i] is True]
        if sorted(members) != sorted(expect):
            reb = main.get('own_rebuilt', {})
            expect_reb = [m['name'] for m in ms if not spec_excluded(m) and reb.get(m['name'], {}).get('views', [None] * len(names))[i] is True]
            if dup and names.count(v['name']) > 1:
                sig = 'C10/duplicate-view-names-merge'
            elif uses_day_week(case, i) and sorted(members) == sorted(expect_reb):
                # the listing is what the implementation's own evaluator says once every date is moved to the 15th
                sig = 'C10/by-day-week-collapsed-to-month'
            else:
                sig = None
            bad.append(('membership-iff-filter', sig, {'view': v['name'], 'listed': members, 'filter_true_of': expect}))
        if decimal:
            # decimal stream: amounts are not exact in binary, the total is compared up to rounding
            tf = run.get('totals_f', {}).get(v['name'])
            want_t = float(sum((tot[x] for x in members), Fraction(0)) / 64)
            total_ok = tf is not None and abs(tf - want_t) <= 1e-6 * max(1.0, abs(want_t))
        else:
            total_ok = total is not None and total == sum(tot[x] for x in members)
        if not total_ok or count != len(members):
            bad.append(('view-total-is-sum', None, {'view': v['name'], 'total_ticks': total, 'count': count, 'members': members}))
        # (a variable that shadows a primitive can make an ill-typed filter well-typed: then nothing is claimed)
        if v.get('must_error') and members and names.count(v['name']) == 1 and not (shadowed & prims):
            bad.append(('filter-error-excludes', None, {'view': v['name'], 'listed': members}))
        if 'probe' in v and not (dup and names.count(v['name']) > 1) and v['probe'][0] not in shadowed:
            for m in ms:
                if spec_excluded(m):
                    continue
                t = probe_truth(v['probe'], m)
                if t is None:
                    continue
                if (m['name'] in members) != t:
                    sig = None
                    if v['probe'][0] in ('groups', 'biggest') and v['probe'][1] in ('day', 'week') and \
                            probe_truth(v['probe'], collapsed(m)) == (m['name'] in members):
                        sig = 'C10/by-day-week-collapsed-to-month'     # explained by moving every date to the 15th
                    bad.append(('primitive-recomputed:' + v['probe'][0], sig,
                                {'view': v['name'], 'filter': v['filter'], 'merchant': m['name'], 'expected': t, 'listed': m['name'] in members}))
                    break
        # (a variable shadowing a primitive may be defined after the twin variable and before the filters: no claim then)
        if 'twin' in v and v['twin'] < len(case['views']) and not dup and not (prims & shadowed):
            other = case['views'][v['twin']]
            if other['filter'] == '(' + dict(case['globals'] + v['vars']).get(v['twin_var'], '') + ')':
                m2 = got.get(other['name'], ([],))[0]
                if sorted(members) != sorted(m2):
                    sig = 'C10/mixed-case-variable-unreachable' if v['twin_var'] != v['twin_var'].lower() else None
                    bad.append(('variable-means-its-definition', sig, {'variable': v['twin_var'], 'view_with_variable': members, 'view_with_definition': m2}))
        if 'chain' in v and names.count(v['name']) == 1 and chain_consistent(case, v) and \
                not ({'months', 'total', 'count', 'payments'} & (shadowed - {'rng'})):
            ch = v['chain']
            expect_ch = sorted(m['name'] for m in ms if not spec_excluded(m) and chain_truth(ch, m))
            if sorted(members) != expect_ch:
                bad.append(('chain-recomputed', None, {'view': v['name'], 'filter': v['filter'], 'chain': dict(case['globals'] + v['vars']).get('rng', v['filter']),
                                                      'listed': members, 'recomputed_true_of': expect_ch}))
            if ch['twin_name'] in got and names.count(ch['twin_name']) == 1:
                m2 = got[ch['twin_name']][0]
                if sorted(members) != sorted(m2):
                    bad.append(('chain-means-conjunction', None, {'chained_view': v['name'], 'lists': members,
                                                                 'conjunction_view': ch['twin_name'], 'lists_': m2}))
        if 'must_empty' in v and members and names.count(v['name']) == 1 and must_empty_consistent(case, v):
            bad.append(('failed-variable-excludes', None,
                        {'view': v['name'], 'variable': v['must_empty'][1], 'unevaluable_definition': v['must_empty'][2],
                         'scope': v['must_empty'][0], 'filter': v['filter'], 'listed': members}))
        if 'same' in v and names.count(v['name']) == 1 and same_consistent(case, v) and \
                not ({'months', 'total', 'count', 'payments'} & shadowed):
            expect_sm = sorted(m['name'] for m in ms if not spec_excluded(m) and same_truth(v['same'], m))
            if sorted(members) != expect_sm:
                bad.append(('same-text-recomputed', None,
                            {'view': v['name'], 'vars': v['vars'], 'filter': v['filter'], 'listed': members,
                             'recomputed_true_of': expect_sm,
                             'other_views_with_this_filter_text': [w['name'] for w in case['views'] if w is not v and w['filter'] == v['filter']]}))
        for m in members:
            mm = [x for x in ms if x['name'] == m]
            if mm and spec_excluded(mm[0]):
                bad.append(('excluded-merchant-listed', None, {'view': v['name'], 'merchant': m}))
                break
    # independence
    if not dup:
        for (label, idx), r in zip(variants(case), results[1:]):
            if 'run' not in r:
                bad.append(('independence:' + label, None, r))
                continue
            if 'error' in r['run']:
                bad.append(('independence:' + label, None, r['run']))
                continue
            g2 = {name: members for name, members, _, _ in r['run']['views']}
            for i in idx:
                nme = names[i]
                if g2.get(nme) != got[nme][0]:
                    bad.append(('independence:' + label, None, {'view': nme, 'all_views': got[nme][0], 'variant': g2.get(nme)}))
                    break
    return bad


# =====================================================================================================
# model side (Coq)
# =====================================================================================================
HEADER = '''From Coq Require Import String List Bool ZArith QArith.
From Tally Require Import Lib.Str C10.Model C10.ViewEval.
Import ListNotations.
Open Scope Q_scope.
Definition sbytes (l : list N) : string := fold_right (fun n s => String (Ascii.ascii_of_N n) s) EmptyString l.
Definition P y m d a := {| p_year := y; p_month := m; p_day := d; p_amount := a |}.
Definition X n c s t p := {| t_merchant := n; t_category := c; t_subcategory := s; t_tags := t; t_pay := p |}.
Definition W n v f := {| v_name := n; v_vars := v; v_filter := f |}.
Definition N_ (x : Q) := EConst (CNum x).
Definition S_ (s : string) := EConst (CStr s).
Definition B_ (b : bool) := EConst (CBool b).
Definition V_ (s : string) := EName s.
Definition C_ (f : string) (a : list expr) := ECall (Some f) a.

(* the implementation's own verdicts: merchant -> (globals ok, per-view outcome) *)
Definition table := list (string * (bool * list outcome)).
(* t_txns: the TRANSACTIONS, interleaved as the implementation receives them; the merchants are the model's
   own by_merchant of them *)
Record tcase := { t_cfg : config; t_txns : list txn; t_tab : table;
                  t_accept : bool;      (* parse_sections accepted the file *)
                  t_run : option (list (string * (list string * Q))) }.
Definition tab_row (t : table) (m : merchant) := match alookup (m_name m) t with Some r => r | None => (true, []) end.
Fixpoint index_of (v : view) (vs : list view) (i : nat) : nat :=
  match vs with [] => i | w :: r => if String.eqb (v_name w) (v_name v) then i else index_of v r (S i) end.

Definition agree (r : res bool) (o : outcome) : bool :=
  match r, o with
  | Val true, OTrue => true | Val false, OFalse => true | ExprErr, OFalse => true | Crash, OCrash => true
  | Unmod _, _ => true | _, _ => false
  end.
Definition reason_ix (r : res bool) : nat :=
  match r with Unmod RNear => 1 | Unmod RRoot => 2 | Unmod RRound => 3 | Unmod RMod => 4 | Unmod RType => 5 | _ => 0 end%nat.

Section One.
  Variable c : tcase.
  Definition cfg := t_cfg c.
  Definition ms := by_merchant (t_txns c).
  Definition fb_glob (m : merchant) := fst (tab_row (t_tab c) m).
  (* views are addressed by POSITION in the table (names may repeat) *)
  Fixpoint nth_outcome (l : list outcome) (i : nat) := match l, i with o :: _, O => o | _ :: r, S j => nth_outcome r j | [], _ => OFalse end.
  Definition live := filter (fun m => negb (excluded m)) ms.
  Definition pairs : list (res bool * outcome) :=
    flat_map (fun m =>
      let row := tab_row (t_tab c) m in
      match globals_of cfg ms m with
      | Crash => [(Crash, if fst row then OFalse else OCrash)]
      | Unmod r => [(Unmod r, OFalse)]
      | _ => if fst row
             then map (fun iv => (model_outcome cfg ms (snd iv) m, nth_outcome (snd row) (fst iv)))
                      (combine (seq 0 (length (g_views cfg))) (g_views cfg))
             else [(Val true, OCrash)]      (* the implementation's globals raised, the model's did not *)
      end) live.
  Definition pair_ok := forallb (fun p => agree (fst p) (snd p)) pairs.
  Definition counts : list nat := map (fun k => length (filter (fun p => Nat.eqb (reason_ix (fst p)) k) pairs)) (seq 0 6).
  (* final result, falling back on the table where the model says Unmod; positional fallback *)
  Definition fb (vs : list view) (v : view) (m : merchant) : outcome :=
    let row := tab_row (t_tab c) m in
    nth_outcome (snd row) (index_of v vs 0).
  Definition str_list_eqb (a b : list string) : bool :=
    (Nat.eqb (length a) (length b) && forallb (fun p => String.eqb (fst p) (snd p)) (combine a b))%bool.
  Definition run_ok : bool :=
    match classify_by_sections cfg ms fb_glob (fb (g_views cfg)), t_run c with
    | None, None => true
    | Some r, Some e =>
        (Nat.eqb (length r) (length e) &&
         forallb (fun p => let '((n, l), (n', (l', tot))) := p in
                           (String.eqb n n' && str_list_eqb (map m_name l) l' && qeq (sumQ (map m_total l)) tot)%bool)
                 (combine r e))%bool
    | _, _ => false
    end.
End One.
(* a views file with duplicate names must be rejected by both (slot 6 counts them); otherwise every verdict
   and the final result are compared *)
Definition check (c : tcase) : bool * list nat :=
  if parse_ok (t_cfg c) then ((t_accept c && pair_ok c && run_ok c)%bool, (counts c ++ [0])%list%nat)
  else (negb (t_accept c), [0;0;0;0;0;0;1]%nat).
Fixpoint failing (i : nat) (l : list tcase) : list nat :=
  match l with [] => [] | c :: r => if fst (check c) then failing (S i) r else i :: failing (S i) r end.
Definition addl (a b : list nat) := map (fun p => (fst p + snd p)%nat) (combine a b).
Definition totals (l : list tcase) : list nat := fold_left (fun a c => addl a (snd (check c))) l [0;0;0;0;0;0;0]%nat.
'''


class Unsupported(Exception):
    pass


def q_lit(fr):
    n, d = fr.numerator, fr.denominator
    return f'({n} # {d})' if n >= 0 else f'(({n}) # {d})'


BINOPS = {ast.Add: 'Add', ast.Sub: 'Sub', ast.Mult: 'Mult', ast.Div: 'Div', ast.Mod: 'Mod'}
CMPOPS = {ast.Eq: 'CEq', ast.NotEq: 'CNe', ast.Lt: 'CLt', ast.LtE: 'CLe', ast.Gt: 'CGt', ast.GtE: 'CGe', ast.In: 'CIn',
          ast.NotIn: 'CNotIn'}


def coq_expr(node):
    if isinstance(node, ast.Expression):
        return coq_expr(node.body)
    if isinstance(node, ast.Constant):
        v = node.value
        if v is True or v is False:
            return f'(B_ {"true" if v else "false"})'
        if v is None:
            return '(EConst CNone)'
        if isinstance(v, int):
            return f'(N_ {q_lit(Fraction(v))})'
        if isinstance(v, float):
            if v != v or v in (float('inf'), float('-inf')):
                raise Unsupported('non-finite literal')
            return f'(N_ {q_lit(Fraction(*v.as_integer_ratio()))})'
        if isinstance(v, str):
            return f'(S_ {coq_str(v)})'
        raise Unsupported('constant ' + type(v).__name__)
    if isinstance(node, ast.Name):
        return f'(V_ {coq_str(node.id)})'
    if isinstance(node, ast.BoolOp):
        return f'(EBoolOp {"true" if isinstance(node.op, ast.And) else "false"} [{"; ".join(coq_expr(x) for x in node.values)}])'
    if isinstance(node, ast.BinOp):
        if type(node.op) not in BINOPS:
            raise Unsupported('operator')
        return f'(EBin {BINOPS[type(node.op)]} {coq_expr(node.left)} {coq_expr(node.right)})'
    if isinstance(node, ast.UnaryOp):
        if isinstance(node.op, ast.Not):
            return f'(EUn Not {coq_expr(node.operand)})'
        if isinstance(node.op, ast.USub):
            return f'(EUn USub {coq_expr(node.operand)})'
        raise Unsupported('unary operator')
    if isinstance(node, ast.Compare):
        rest = '; '.join(f'({CMPOPS[type(o)]}, {coq_expr(c)})' for o, c in zip(node.ops, node.comparators))
        return f'(ECmp {coq_expr(node.left)} [{rest}])'
    if isinstance(node, ast.Call):
        if node.keywords:
            raise Unsupported('keyword arguments')
        args = '; '.join(coq_expr(a) for a in node.args)
        if isinstance(node.func, ast.Name):
            return f'(C_ {coq_str(node.func.id)} [{args}])'
        return f'(ECall None [{args}])'
    if isinstance(node, ast.IfExp):
        return f'(EIf {coq_expr(node.test)} {coq_expr(node.body)} {coq_expr(node.orelse)})'
    if isinstance(node, (ast.Attribute, ast.Subscript, ast.ListComp, ast.GeneratorExp, ast.NamedExpr)):
        return 'EUnsup'
    raise Unsupported(type(node).__name__)


def coq_src(src):
    return coq_expr(ast.parse(src, mode='eval'))


def coq_defs(pairs):
    return '[' + '; '.join(f'({coq_str(n)}, {coq_src(e)})' for n, e in pairs) + ']'


def coq_outcome(x):
    return 'OTrue' if x is True else 'OFalse' if x is False else 'OFalse' if x is None else \
        'OFalse' if x == 'raise:ExpressionError' else 'OCrash'


def coq_case(case, main):
    ms = bm_order(case)
    mtxt = []
    for mi, ti in case['order']:
        m, t = case['merchants'][mi], case['merchants'][mi]['txns'][ti]
        mtxt.append("X %s %s %s [%s] (P %d %d %d %s)" % (coq_str(m['name']), coq_str(m['cat']), coq_str(m['sub']),
                                                       '; '.join(coq_str(x) for x in t['tags']),
                                                       *map(int, t['d'].split('-')), q_lit(amt(t))))
    views = '; '.join(f"W {coq_str(v['name'])} {coq_defs(v['vars'])} {coq_src(v['filter'])}" for v in case['views'])
    tab = []
    for name, row in main.get('own_rebuilt', {}).items():
        tab.append(f"({coq_str(name)}, ({'true' if row['globals'] == 'ok' else 'false'}, [{'; '.join(coq_outcome(x) for x in row['views'])}]))")
    if 'parse_error' in main:
        return (f"{{| t_cfg := {{| g_vars := {coq_defs(case['globals'])}; g_views := [{views}] |}};\n   t_txns := []; t_tab := [];"
                f" t_accept := false; t_run := None |}}")
    run = main['run']
    if 'error' in run:
        exp = 'None'
    else:
        exact = {m['name']: ref_total(m) for m in ms}
        # (decimal stream: the implementation's float total is checked by the direct oracle up to rounding; here
        #  the member lists are what is compared, the expected total is the exact sum)
        exp = 'Some [' + '; '.join(
            f"({coq_str(n)}, ([{'; '.join(coq_str(x) for x in mem)}], "
            f"{q_lit(Fraction(tot, 64) if tot is not None and not is_decimal(case) else sum((exact[x] for x in mem), Fraction(0)))}))"
            for n, mem, tot, _ in run['views']) + ']'
    return (f"{{| t_cfg := {{| g_vars := {coq_defs(case['globals'])}; g_views := [{views}] |}};\n   t_txns := [{'; '.join(mtxt)}];\n"
            f"   t_tab := [{'; '.join(tab)}];\n   t_accept := true; t_run := {exp} |}}")


def model_check(cases, mains, name='C10', chunk=60, parallel=4):
    """-> (failing case indices | None, indices sent, error text, totals [modelled, near, root, round, mod, type])"""
    rows, idx, skipped = [], [], 0
    for i, (c, r) in enumerate(zip(cases, mains)):
        if c.get('no_model'):
            skipped += 1
            continue
        if ('run' not in r and 'parse_error' not in r) or \
                ('run' in r and not is_decimal(c) and any(t is None for _, _, t, _ in r['run'].get('views', []))):
            skipped += 1
            continue
        try:
            rows.append(coq_case(c, r))
            idx.append(i)
        except (Unsupported, SyntaxError):
            skipped += 1
    bad, totals = [], [0] * 7
    import concurrent.futures

    # round-robin chunks: the heavy corpus cases (calendar sweeps) are spread over all files
    nch = max(1, (len(rows) + chunk - 1) // chunk)
    parts = [list(range(k, len(rows), nch)) for k in range(nch)]

    def one(k):
        body = ('Definition cases : list tcase := [\n' + ';\n'.join(rows[j] for j in parts[k]) +
                '\n].\nEval vm_compute in (failing 0 cases, totals cases).\n')
        return k, run_cases(f'{name}_{k}', HEADER, body)
    with concurrent.futures.ThreadPoolExecutor(max_workers=parallel) as ex:
        outs = list(ex.map(one, range(nch)))
    for k, (rc, out, err) in outs:
        m = re.search(r'=\s*\(\s*\[(.*?)\]\s*,\s*\[(.*?)\]\s*\)\s*:', out.replace('%nat', ''), re.S)
        if rc != 0 or not m:
            return None, idx, (out + err)[-1500:], totals
        bad += [idx[parts[k][int(x)]] for x in m.group(1).replace('\n', ' ').split(';') if x.strip()]
        t = [int(x) for x in m.group(2).replace('\n', ' ').split(';') if x.strip()]
        totals = [a + b for a, b in zip(totals, t)]
    return bad, idx, '', totals


# =====================================================================================================
# shrinking, running
# =====================================================================================================
def run_case(case):
    return run_impl(IMPL, {'jobs': jobs_of(case)})['results']


def laws_of(case):
    return oracle(case, run_case(case))


def clean(case):
    """repair view cross-references after views were dropped"""
    for i, v in enumerate(case['views']):
        if 'twin' in v:
            t = v['twin']
            if not (t < len(case['views']) and case['views'][t]['filter'] == '(' + dict(case['globals'] + v['vars']).get(v['twin_var'], '\0') + ')'):
                hit = [j for j, w in enumerate(case['views']) if w['filter'] == '(' + dict(case['globals'] + v['vars']).get(v['twin_var'], '\0') + ')']
                if hit:
                    v['twin'] = hit[0]
                else:
                    v.pop('twin')
                    v.pop('twin_var', None)
    return case


def shrink(case, key, budget=120):
    """greedy delta debugging: drop views, merchants, payments, variables while a violation with the same
    (law, signature) remains"""
    def fails(c):
        nonlocal budget
        if budget <= 0:
            return False
        budget -= 1
        try:
            return any((l.split(':')[0], s) == key for l, s, _ in laws_of(c))
        except Exception:  # noqa
            return False
    cur = copy.deepcopy(case)
    changed = True
    while changed and budget > 0:
        changed = False
        for i in range(len(cur['views']) - 1, -1, -1):
            if len(cur['views']) <= 1:
                break
            c2 = copy.deepcopy(cur)
            del c2['views'][i]
            clean(c2)
            if fails(c2):
                cur, changed = c2, True
        for i in range(len(cur['merchants']) - 1, -1, -1):
            if len(cur['merchants']) <= 1:
                break
            c2 = copy.deepcopy(cur)
            del c2['merchants'][i]
            c2['order'] = [[a - (a > i), b] for a, b in c2['order'] if a != i]
            if fails(c2):
                cur, changed = c2, True
        for i in range(len(cur['merchants'])):
            for j in range(len(cur['merchants'][i]['txns']) - 1, -1, -1):
                if len(cur['merchants'][i]['txns']) <= 1:
                    break
                c2 = copy.deepcopy(cur)
                del c2['merchants'][i]['txns'][j]
                c2['order'] = [[a, b - (a == i and b > j)] for a, b in c2['order'] if not (a == i and b == j)]
                if fails(c2):
                    cur, changed = c2, True
        for i in range(len(cur['globals']) - 1, -1, -1):
            c2 = copy.deepcopy(cur)
            del c2['globals'][i]
            if fails(c2):
                cur, changed = c2, True
        for v in range(len(cur['views'])):
            for i in range(len(cur['views'][v]['vars']) - 1, -1, -1):
                c2 = copy.deepcopy(cur)
                del c2['views'][v]['vars'][i]
                if fails(c2):
                    cur, changed = c2, True
    return cur


def size(case):
    return len(case['views']) * 3 + sum(len(m['txns']) for m in case['merchants']) + len(case['globals'])


def nontrivial_key(case, main):
    """distinct (filter, verdict-vector) with both verdicts present among the merchants of the case"""
    out = set()
    own = main.get('own_rebuilt', {})
    rows = [r['views'] for r in own.values() if r['globals'] == 'ok']
    for i, v in enumerate(case['views']):
        col = [r[i] for r in rows if i < len(r)]
        if True in col and False in col:
            out.add(v['filter'])
    return out


def main(tier):
    run = Run('C10', tier)
    run.assumptions = [
        'CPython\'s expression parser is not modelled: the harness sends the model the AST that ast.parse returns for the '
        'same source text the implementation receives (two-phase protocol); parse_sections\' line splitting is tied by '
        'comparing the parsed structure with the structure the generator wrote',
        'numbers are exact rationals with an exactness flag; sqrt is symbolic (cv, stddev compared by squaring); '
        'evaluations in which an inexact operand comes within 1e-9 of a decision threshold are discarded and counted '
        '(floating-point rounding is outside the model)',
        'the membership theorems are parametric in the filter evaluator (Section variables filter_true / globals_ok): they '
        'hold for CPython\'s evaluator as well as for the modelled one; where the modelled evaluator returns Unmod the '
        'implementation\'s own verdict is used as an oracle table (counted as oracle_pairs)',
        'ExpressionEvaluator.evaluate re-raises every non-ExpressionError Exception as ExpressionError (modelled by '
        'ViewEval.wrap; c10_model_run_never_aborts); OCrash stays in the outcome type of the loop so that a tree in which an '
        'exception escapes again shows up as a broken correspondence and as the violation filter-error-aborts-run',
        'str.lower is modelled for ASCII; generated names, tags, categories are ASCII; years 1000..9999',
        'is_excluded_from_spending is regenerated from classification.py (tools/py2coq.py) on every run',
        'by_merchant construction (grouping of the interleaved transactions by merchant name, tags union, effective amounts via the '
        'regenerated normalize_amount) is inside the model (ViewEval.by_merchant, c10_by_merchant_spec, c10_excluded_spec): the Coq '
        'cases receive the raw transaction list; category/subcategory are generated constant per merchant',
        'the decimal-amount stream (non-dyadic cents) runs through the model for the light shapes; view totals of that stream are '
        'compared up to rounding by the direct oracle only']
    tfails = [f for f in c13.translate_classification(run) if f['translator'] == 'py2coq']
    res = run.proof_step(COQ_FILES, extra_trusted=[
        'tools/py2coq.py (translator, fail closed)', 'harness/c10.py + harness/impl_c10.py (generator, AST rendering, oracle)',
        'CPython ast.parse (expression syntax)'])
    broken = []
    if tfails:
        broken.append({'kind': 'translation-failure', 'detail': tfails})
    elif not res['ok']:
        broken.append({'kind': 'broken-obligation', 'detail': first_error(res['log'])})
    if res['hygiene']:
        broken.append({'kind': 'hygiene', 'detail': res['hygiene']})

    n = 500 if tier == 'quick' else 6000
    rnd = random.Random(run.seed * 7919 + 10)
    cases = corpus_cases() + [gen_case(rnd) for _ in range(n)]
    jobs, spans = [], []
    for c in cases:
        js = jobs_of(c)
        spans.append((len(jobs), len(jobs) + len(js)))
        jobs += js
    results = []
    B = 400
    for off in range(0, len(jobs), B):
        results += run_impl(IMPL, {'jobs': jobs[off:off + B]}, timeout=3000)['results']
    per_case = [results[a:b] for a, b in spans]

    failing = {}
    law_hist = {}
    for c, rs in zip(cases, per_case):
        for law, sig, detail in oracle(c, rs):
            key = (law.split(':')[0], sig)
            law_hist[law.split(':')[0]] = law_hist.get(law.split(':')[0], 0) + 1
            if key not in failing or size(c) < size(failing[key][0]):
                failing[key] = (c, law, detail)
    unexplained = 0
    for key, (c, law, detail) in sorted(failing.items(), key=lambda kv: str(kv[0])):
        small = shrink(c, key, budget=150 if tier == 'quick' else 600)
        rs = run_case(small)
        laws = [(l, s, d) for l, s, d in oracle(small, rs) if (l.split(':')[0], s) == key] or [(law, key[1], detail)]
        isnew = run.violation(key[0], {'kind': 'counterexample', 'case': small, 'views_file': views_text(small),
                                       'law': laws[0][0], 'detail': laws[0][2], 'observed': rs[0].get('run'),
                                       'expected': 'C10: ' + key[0], 'obligation': 'c10_* on the implementation',
                                       'broken': broken, 'shrunk_from': size(c), 'size': size(small)}, signature=key[1])
        unexplained += 1 if isnew else 0

    model_idx, totals, bad = [], [0] * 7, []
    if not tfails and res['ok']:
        bad, model_idx, err, totals = model_check(cases, [r[0] for r in per_case])
        if bad is None:
            broken.append({'kind': 'broken-correspondence', 'obligation': 'model_vs_impl(C10.ViewEval.classify_by_sections, classify_by_sections)',
                           'detail': 'cases.v did not evaluate: ' + err})
        elif bad:
            b0 = min(bad, key=lambda i: size(cases[i]))
            broken.append({'kind': 'broken-correspondence', 'obligation': 'model_vs_impl(C10.ViewEval.classify_by_sections, classify_by_sections)',
                           'detail': {'case': cases[b0], 'views_file': views_text(cases[b0]), 'implementation': per_case[b0][0], 'n': len(bad)}})
    if broken and not unexplained:
        run.violation('broken', {'kind': broken[0]['kind'], 'obligation': broken[0].get('obligation') or
                                 (broken[0]['detail'].get('obligation') if isinstance(broken[0]['detail'], dict) else None),
                                 'broken': broken, 'searched': f'{len(cases)} generated views files x merchant sets against the C10 laws; '
                                                               f'unlisted law failures: {unexplained}'}, found_input=False)
    nontrivial = set()
    pair_total = 0
    hist_views, hist_merch = {}, {}
    for c, rs in zip(cases, per_case):
        nontrivial |= nontrivial_key(c, rs[0])
        pair_total += sum(len(r['views']) for r in rs[0].get('own_rebuilt', {}).values())
        hist_views[len(c['views'])] = hist_views.get(len(c['views']), 0) + 1
        hist_merch[len(c['merchants'])] = hist_merch.get(len(c['merchants']), 0) + 1
    modelled = totals[0]
    run.cov.update({
        'evaluations': len(jobs) + sum(totals[:6]),
        'distinct_nontrivial': len(nontrivial),
        'rule': 'views files (1-8 views; global and view-local variables incl. redefinitions, shadowed primitives, mixed-case names; '
                'all primitives, aggregates over payments and by(month|year|week|day), period(), max_val/min_val, arithmetic, chains, '
                'in / not in, ternaries; filters raising ExpressionError or TypeError/AttributeError; probes; twin views) x 1-5 merchants '
                'with 1-9 dyadic payments over up to 20 months, special tags in random letter case; each with 3 view-list variants. '
                'non-trivial = distinct filter texts that are true of one generated merchant and false of another in the same case',
        'samples': [{'views_file': views_text(cases[-1]), 'merchants': cases[-1]['merchants']},
                    {'views_file': views_text(cases[len(cases) // 2])}],
        'impl_jobs': len(jobs), 'cases': len(cases), 'view_merchant_pairs': pair_total,
        'model_vs_impl_cases_in_coq': len(model_idx), 'modelled_pairs': modelled,
        'oracle_pairs_by_reason': dict(zip(['near-threshold', 'sqrt-arithmetic', 'round', 'modulo', 'type-outside-fragment'], totals[1:6])),
        'duplicate_name_files_rejected_by_both': totals[6],
        'discarded_near_threshold': totals[1],
        'law_failures_seen': law_hist, 'views_per_case': hist_views, 'merchants_per_case': hist_merch,
        'translation_failures': tfails})
    run.finish()


def corpus_cases():
    """hand-written seeds: the documented examples and the boundary shapes"""
    def mk(views, ms, globals_=()):
        order = [[i, j] for i, m in enumerate(ms) for j in range(len(m['txns']))]
        return {'merchants': ms, 'order': order, 'globals': [list(g) for g in globals_],
                'views': [dict(v) for v in views], 'text_style': 1}
    A = {'name': 'Acme', 'cat': 'Food', 'sub': 'Grocery', 'txns': [
        {'d': '2025-01-03', 'a': 640, 'tags': []}, {'d': '2025-01-10', 'a': 1280, 'tags': ['Food']},
        {'d': '2025-01-20', 'a': 320, 'tags': []}, {'d': '2025-03-01', 'a': 6400, 'tags': []}]}
    Bm = {'name': 'Bolt', 'cat': 'Bills', 'sub': 'Rent', 'txns': [{'d': f'2025-{m:02d}-01', 'a': 64000, 'tags': ['Recurring']} for m in range(1, 8)]}
    Cm = {'name': 'Pay', 'cat': 'Income', 'sub': '', 'txns': [{'d': '2025-02-01', 'a': -320000, 'tags': ['INCOME']}]}
    docs = [{'name': 'Every Month', 'vars': [], 'filter': 'months >= 6 and cv < 0.3'},
            {'name': 'Variable', 'vars': [], 'filter': 'months >= 6 and cv >= 0.3'},
            {'name': 'Large', 'vars': [], 'filter': 'total > 1000 and months <= 2'},
            {'name': 'Biz', 'vars': [], 'filter': '"recurring" in tags'},
            {'name': 'Peak', 'vars': [['peak', 'max(sum(by("month")))']], 'filter': 'peak > 500 and months >= max_val(2, period("month") * 0.5)'},
            {'name': 'All', 'vars': [], 'filter': 'True'}]
    out = [mk(docs, [A, Bm, Cm], [('is_frequent', 'months >= 6')])]
    out.append(mk([{'name': 'D3', 'vars': [], 'filter': 'count(sum(by("day"))) == 3', 'probe': ['groups', 'day', 3]},
                   {'name': 'W', 'vars': [], 'filter': 'max(count(by("week"))) == 1', 'probe': ['biggest', 'week', 1]}], [A]))
    # chained comparison with the middle operand above (Bolt: 7 months) and below (Acme: 2) both bounds
    out.append(mk([{'name': 'ChA0', 'vars': [], 'filter': '3 <= months <= 6',
                    'chain': {'prim': 'months', 'ops': ['<=', '<='], 'a': [3, 1], 'b': [6, 1], 'twin_name': 'ChB0', 'text': '3 <= months <= 6'}},
                   {'name': 'ChB0', 'vars': [], 'filter': '3 <= months and months <= 6'},
                   {'name': 'ChA2', 'vars': [['rng', '9 >= count(payments) >= 5']], 'filter': 'rng',
                    'chain': {'prim': 'count', 'ops': ['>=', '>='], 'a': [9, 1], 'b': [5, 1], 'twin_name': 'ChB2', 'text': '9 >= count(payments) >= 5'}},
                   {'name': 'ChB2', 'vars': [], 'filter': '9 >= count(payments) and count(payments) >= 5'}], [A, Bm, Cm]))
    # views with identical filter text and different view-local variables / a local shadowing a global,
    # every shape x every order x every primitive x every operator position (systematic, always run)
    fam_ms = [A, Bm, Cm, {'name': 'Dyn', 'cat': 'Food', 'sub': '', 'txns': [{'d': '2024-12-31', 'a': 64, 'tags': []}]}]
    seen = set()
    for prim_i in range(3):
        for op_i in range(4):
            for shape_i in range(5):
                for order_i in range(4):
                    choices = iter([prim_i, op_i, shape_i, order_i, order_i])

                    def pick(l, it=choices):
                        return l[next(it, 0) % len(l)]
                    gl, vs = same_text_family(fam_ms, 'x', pick)
                    key = json.dumps([gl, vs], sort_keys=True)
                    if key in seen:
                        continue
                    seen.add(key)
                    if (prim_i + op_i + shape_i + order_i) % 3 == 0:
                        # and with an unrelated view of the same filter-text family in front / behind
                        vs = [{'name': 'All', 'vars': [], 'filter': 'True'}] + vs + [{'name': 'All2', 'vars': [['sfloor', '1']], 'filter': 'True'}]
                    out.append(mk(vs, fam_ms, gl))
    # a variable that cannot be evaluated, shadowing a global / a primitive under which the filter would be true
    for e_i in range(len(FAIL_EXPRS)):
        for shape_i in range(5):
            for rev in range(2):
                choices = iter([e_i, shape_i, rev])

                def pick2(l, it=choices):
                    return l[next(it, 0) % len(l)]
                gl, vs = failvar_family('x', pick2)
                out.append(mk(vs, [A, Bm, Cm], gl))
    # year edges: payments in Jan 1-7 and Dec 25-31 of one calendar year, under by("week") / by("day") / by("year")
    for year in (2020, 2021, 2023, 2024, 2025, 2026):
        ems = []
        for j in range(7):
            tx = [{'d': f'{year}-01-{1 + j:02d}', 'a': 640, 'tags': []}, {'d': f'{year}-12-{31 - j:02d}', 'a': 1280, 'tags': []}]
            if j % 3 == 0:
                tx.insert(1, {'d': f'{year}-06-{10 + j:02d}', 'a': 64, 'tags': []})
            if j % 2 == 1:
                tx.append({'d': f'{year + 1}-01-0{1 + j % 5}', 'a': 320, 'tags': []})
            ems.append({'name': f'E{j}', 'cat': 'Food', 'sub': '', 'txns': tx})
        pv = []
        for fld in ('week', 'day', 'year', 'month'):
            for k in (1, 2, 3, 4):
                pv.append({'name': f'G{fld}{k}', 'vars': [], 'filter': f'count(sum(by("{fld}"))) == {k}', 'probe': ['groups', fld, k]})
            for k in (1, 2):
                pv.append({'name': f'B{fld}{k}', 'vars': [], 'filter': f'max(count(by("{fld}"))) == {k}', 'probe': ['biggest', fld, k]})
        out.append(mk(pv, ems))
        # same week written twice around New Year (Dec 29 .. Jan 4 are one Monday-based week but two %W weeks)
        out.append(mk(pv[:6], [{'name': 'NY', 'cat': 'Food', 'sub': '', 'txns': [
            {'d': f'{year}-12-{d:02d}', 'a': 64, 'tags': []} for d in (28, 29, 30, 31)] + [
            {'d': f'{year + 1}-01-{d:02d}', 'a': 64, 'tags': []} for d in (1, 2, 3, 4, 5)]}]))
    # calendar sweep: every day of a common and a leap year (29 Feb!), paired with the 15th of its month, under
    # by("day") / by("week") probes; plus the leap days of 2020 / 2028 next to same-week and same-day neighbours
    import calendar
    sweep_views = []
    for fld, ks in (('day', (1, 2)), ('week', (1, 2)), ('month', (1,))):
        for k in ks:
            sweep_views.append({'name': f'S{fld}{k}', 'vars': [], 'filter': f'count(sum(by("{fld}"))) == {k}', 'probe': ['groups', fld, k]})
    sweep_views.append({'name': 'Sb', 'vars': [], 'filter': 'max(count(by("day"))) == 2', 'probe': ['biggest', 'day', 2]})
    for year in (2023, 2024):
        for month in range(1, 13):
            dm = calendar.monthrange(year, month)[1]
            sms = [{'name': f'D{d:02d}', 'cat': 'Food', 'sub': '', 'txns': [
                {'d': f'{year}-{month:02d}-15', 'a': 640, 'tags': []}, {'d': f'{year}-{month:02d}-{d:02d}', 'a': 64 * d, 'tags': []}]}
                for d in range(1, dm + 1)]
            out.append(mk(sweep_views, sms))
    for year in (2020, 2024, 2028):
        lms = [{'name': 'Gym', 'cat': 'Fun', 'sub': '', 'txns': [{'d': f'{year}-02-15', 'a': 2560, 'tags': []}, {'d': f'{year}-02-29', 'a': 3840, 'tags': []}]},
               {'name': 'Cafe', 'cat': 'Food', 'sub': '', 'txns': [{'d': f'{year}-02-{26 if year == 2024 else 28}', 'a': 640, 'tags': []}, {'d': f'{year}-02-29', 'a': 640, 'tags': []}]},
               {'name': 'Solo', 'cat': 'Food', 'sub': '', 'txns': [{'d': f'{year}-02-29', 'a': 640, 'tags': []}, {'d': f'{year}-02-29', 'a': 64, 'tags': []},
                                                                   {'d': f'{year}-03-01', 'a': 64, 'tags': []}]}]
        out.append(mk(sweep_views, lms))
    # decimal stream: identical NON-dyadic monthly totals (true cv = 0) over 3 / 6 / 12 months, one or two payments a
    # month, under filters that order on cv — directly and through a variable — next to a lumpy merchant
    prices = [4995, 1599, 999, 10, 1999, 123456, 33, 7, 2995, 4999, 150000, 1234, 8999, 12999, 5, 101, 9995, 1995, 2499, 799,
              1, 3, 11, 4990, 4997, 6995, 1099, 2999, 18999, 47, 53, 5995, 7495, 30001, 99, 199, 1299, 4444, 6789, 110]
    cvv = [{'name': 'Steady', 'vars': [], 'filter': 'cv < 0.3', 'probe': ['cv', '<', 0.3]},
           {'name': 'Very', 'vars': [], 'filter': 'cv <= 0.05', 'probe': ['cv', '<=', 0.05]},
           {'name': 'Lumpy', 'vars': [], 'filter': 'cv > 0.5', 'probe': ['cv', '>', 0.5]},
           {'name': 'Var', 'vars': [['steady', 'cv < 0.3']], 'filter': 'steady and months >= 3'},
           {'name': 'Neg', 'vars': [], 'filter': 'not cv >= 0.3', 'probe': ['cv', '<', 0.3]},
           {'name': 'Sd', 'vars': [], 'filter': 'stddev(sum(by("month"))) / avg(sum(by("month"))) < 0.3', 'probe': ['cv', '<', 0.3]}]
    lumpy = {'name': 'Lump', 'cat': 'Fun', 'sub': '', 'txns': [{'d': '2024-01-05', 'c': 1000, 'tags': []}, {'d': '2024-02-05', 'c': 99999, 'tags': []},
                                                                 {'d': '2024-03-05', 'c': 1, 'tags': []}]}
    for gi in range(0, len(prices), 8):
        for nm, per in ((3, 1), (6, 1), (12, 1), (3, 2), (12, 3)):
            dms = [lumpy]
            for pc in prices[gi:gi + 8]:
                dms.append({'name': f'R{pc}', 'cat': 'Bills', 'sub': 'Rent', 'txns': [
                    {'d': f'2024-{mo:02d}-{3 + 7 * j:02d}', 'c': pc, 'tags': []} for mo in range(1, nm + 1) for j in range(per)]})
            cs_ = mk(cvv, dms)
            if nm * per > 6:
                cs_['no_model'] = True      # direct oracle only: exact rationals of 36 non-dyadic payments are slow in vm_compute
            out.append(cs_)
    # tags that str.lower() leaves alone but str.casefold() changes (sharp s, final sigma, long s, ligatures)
    tms = [{'name': f'T{i}', 'cat': 'Fun', 'sub': '', 'txns': [{'d': '2025-03-0%d' % (i + 1), 'a': 640, 'tags': [tg, 'food']}]}
           for i, tg in enumerate(NONASCII_TAGS)] + [{'name': 'Plain', 'cat': 'Fun', 'sub': '', 'txns': [{'d': '2025-03-09', 'a': 64, 'tags': ['fussball']}]}]
    tv = []
    for i, lit_ in enumerate(NONASCII_TAGS + ['fussball', 'καφέσ', 'FUSSBALL', 'spass']):
        tv.append({'name': f'In{i}', 'vars': [], 'filter': f'"{lit_}" in tags', 'probe': ['tag', lit_, 0]})
        tv.append({'name': f'Out{i}', 'vars': [], 'filter': f'"{lit_}" not in tags', 'probe': ['tag', lit_, 1]})
    out.append(mk(tv[:12], tms))
    out.append(mk(tv[12:], tms))
    return out


def replay(path):
    obj = json.load(open(path))
    if obj.get('kind') != 'counterexample':
        main('quick')
        return 0
    case = obj['case']
    rs = run_case(case)
    laws = oracle(case, rs)
    print(json.dumps({'views_file': views_text(case), 'laws_failing': [[l, s] for l, s, _ in laws],
                      'detail': [d for _, _, d in laws][:3], 'observed': rs[0].get('run')}, indent=1, default=str))
    if laws:
        print(f'VIOLATION property=C10 replay={path}')
        return 1
    return 0
