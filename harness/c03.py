"""C03 — rule expressions are confined.
Part 1 (proof): static capability certificate — Gen/C03Caps.v is regenerated from expr_parser.py and
C03/Props.v proves every capability is inside the confined set; validate_ast model proved sound/complete.
Part 3 (tie + search): adversarial expression stream through every entry point of the implementation
with sys.addaudithook, deep type checks of values / tag / field texts and frame checks; the model's
accept/reject verdict (validate over the node-kind tree, evaluated in Coq) must equal the loader's."""
import itertools
import json
import os
import random
import datetime
from concurrent.futures import ThreadPoolExecutor

from common import *
import c03_caps

COQ_FILES = ['Lib/Str.v', 'Gen/C03Caps.v', 'C03/Caps.v', 'C03/Validate.v', 'C03/Props.v']
# value-level half over the evaluator model (coq/theories/Expr, shared with C04): values are data or generator objects,
# attribute access and calls are closed, evaluation only rebinds its own binders, rejected trees are never evaluated, and the
# model's node / function / method tables equal the ones regenerated from the source
COQ_FILES_VALUES = ['Lib/Str.v', 'Gen/C03Caps.v', 'Expr/StrOps.v', 'Expr/Date.v', 'Expr/Syntax.v', 'Expr/Funcs.v', 'Expr/Eval.v',
                    'C04/Proofs.v', 'C04/NameCase.v', 'C03/ValueProofs.v', 'C03/ValueData.v', 'C03/ValueFrame.v', 'C03/ValueProps.v']
IMPL = os.path.join(os.path.dirname(os.path.abspath(__file__)), 'impl_c03.py')


def regen_gen():
    try:
        regen('Gen/C03Caps.v', c03_caps.render(c03_caps.extract(os.path.join(SRC, 'expr_parser.py'))))
        return []
    except (SyntaxError, OSError, ValueError, KeyError, AttributeError, IndexError) as e:
        return [{'translator': 'c03_caps', 'error': repr(e)}]


CLASSIC = [
    "__import__('os').system('true')", "eval('1')", "exec('x=1')", "open('/etc/passwd')", "globals()", "locals()", "vars()",
    "compile('1','x','eval')", "getattr(description, 'upper')", "getattr(description, '__class__')", "type(description)",
    "().__class__.__bases__[0].__subclasses__()", "description.__class__", "description.__class__.__mro__",
    "description.__class__.__base__.__subclasses__()", "''.join.__self__", "description.format.__globals__",
    "description.format(description)", "'{0.__class__}'.format(description)", "'{0.__class__}'.format_map(field)",
    "(lambda: 1)()", "[c for c in ().__class__.__base__.__subclasses__()]", "f'{description.__class__}'",
    "f'{description!r}'", "amount.__class__", "date.__class__", "txn.__class__", "field.__class__", "txn.__dict__",
    "field.__dict__", "abs.__self__", "contains.__globals__", "regex.__func__.__globals__", "(x := __import__)",
    "[].__class__", "{}.__class__", "description.__getattribute__('upper')", "description.__reduce__()",
    "description.__reduce_ex__(2)", "description.__dir__()", "description.__init_subclass__()", "description.__subclasshook__()",
    "rows.__class__", "rows[0].__class__", "rows[0].keys()", "rows[0].items", "[r.__class__ for r in rows]",
    "[r.item.__class__ for r in rows]", "(c for c in description)", "(r for r in rows)", "next(r for r in rows)",
    "next(r.__class__ for r in rows)", "sum", "abs", "contains", "len", "txn", "field", "rows", "date", "source",
    "description.upper", "description.upper()", "description.encode()", "description.translate({})", "description.maketrans('a','b')",
    "date.today()", "date.fromisoformat('2025-01-01')", "date.__class__.today()", "date.strftime('%Y')", "date.replace(year=1)",
    "date.resolution", "amount.hex()", "amount.as_integer_ratio()", "amount.real", "amount.__add__(1)", "(1).__class__",
    "'a'.__class__", "''.__class__.__mro__[1]", "b'x'", "...", "1j", "None", "True", "__builtins__", "__name__", "__file__",
    "__import__", "self", "self.ctx", "ctx", "cls", "re", "ast", "os", "sys", "re.compile('x')", "ast.parse('1')",
    "txn.description.__class__", "field.memo.__class__", "field.memo.format(field)", "exists(field.__class__)",
    "exists(description.__class__)", "trim(description.__class__)", "uppercase(txn)", "lowercase(rows)", "trim(rows)",
    "uppercase((c for c in description))", "trim(abs)", "split(description, ' ', 0).__class__", "regex_replace(description, '(?P<x>.)', '\\\\g<x>')",
    "regex_replace(txn, 'x', 'y')", "regex_replace(rows, 'x', 'y')", "extract('(?i)(x)')", "extract(description, '(.)')",
    "max(rows)", "min(rows, rows)", "sum(rows, [])", "sum([[1],[2]], [])", "any(rows)", "all(description)", "len(rows[0])",
    "rows[0]['item']", "rows[-1]", "rows[0:1]", "rows[::1]", "description[0]", "description[::-1]", "field['memo']",
    "txn['description']", "{**rows[0]}", "{1: 2}", "{1, 2}", "[1, 2]", "(1, 2)", "[*rows]", "not rows", "-rows", "+amount", "~1",
    "1 if rows else 2", "rows is None", "rows is not None", "amount ** 2", "amount // 2", "1 << 2", "1 | 2", "1 & 2", "1 ^ 2",
    "amount @ amount", "await x", "yield x", "(yield)", "x = 1", "import os", "lambda x: x", "[x for x in rows if (y := x)]",
    "{x for x in rows}", "{x: x for x in description}", "print(1)", "input()", "breakpoint()", "help()", "dir()", "dir(txn)",
    "id(txn)", "hash(description)", "isinstance(txn, object)", "issubclass(bool, int)", "callable(abs)", "iter(rows)", "map(abs, [1])",
    "filter(None, rows)", "zip(rows, rows)", "enumerate(rows)", "reversed(rows)", "sorted(description)", "list(description)",
    "set(description)", "dict(rows[0])", "tuple(rows)", "str(txn)", "repr(txn)", "repr(abs)", "str(abs)", "format(amount, '.2f')",
    "bytes(3)", "bytearray(3)", "memoryview(b'x')", "object()", "super()", "property()", "classmethod(abs)", "staticmethod(abs)",
    "slice(1)", "range(3)", "frozenset()", "complex(1)", "float('nan')", "int('1')", "bool(rows)", "chr(65)", "ord('A')",
    "round(amount)", "round(amount, 1)", "round(rows)", "abs(rows)", "abs(description)", "round.__self__", "abs(amount).__class__",
]


def attr_names():
    names = set()
    for o in ('', {}, [], 1.5, 1, datetime.date(2025, 1, 1), (lambda: 0), type, (x for x in ()), len, ''.join, None, set()):
        names.update(dir(o))
    return sorted(names)


RECEIVERS = ['description', 'amount', 'date', 'txn', 'field', 'field.memo', 'rows', 'rows[0]', '"lit"', '1', '1.5', 'abs',
             'contains', 'txn.description', 'description.upper()', 'source', '[r for r in rows]', 'next(r for r in rows)',
             'month', 'tags', 'payments', 'category', 'threshold']
MUTATORS = ['append', 'extend', 'insert', 'remove', 'pop', 'clear', 'sort', 'reverse', 'update', 'setdefault', 'popitem', 'add',
            'discard', '__setitem__', '__delitem__', '__iadd__', '__imul__', '__setattr__', '__delattr__', 'copy']
DATA_RECV = ['rows', 'rows[0]', 'field', 'txn', 'threshold', 'label', 'description', 'amount', 'date', '[r for r in rows]', 'lst',
             'rows[0].item', 'field.memo']
BINOPS = ['+', '-', '*', '/', '%']
NODE_SNIPPETS = ["lambda: 1", "{1: 2}", "{1}", "[1]", "(1, 2)", "*rows", "f'{amount}'", "rows[0:1]", "1 if amount else 2", "rows[0]",
                 "amount is None", "amount | 1", "amount ** 2", "amount // 2", "+amount", "~1", "{x for x in rows}",
                 "{x: 1 for x in rows}", "[x for x in rows]", "(x for x in rows)", "(y := 1)", "amount > 1 > 0", "not amount",
                 "-amount", "amount % 2", "abs(amount)", "description.lower()", "txn.amount", "field.memo", "'s'", "1", "None",
                 "b'b'", "...", "1j", "amount and 1", "amount or 1", "1 in [1]", "1 not in rows", "await amount", "yield",
                 "amount @ 1", "amount << 1", "amount >> 1", "amount & 1", "amount ^ 1", "print", "*[1]", "**rows[0]",
                 "x async for x in rows", "amount := 1", "[x async for x in rows]"]
CONTEXTS = ["{}", "not ({})", "({}) and 1", "1 or ({})", "abs({})", "len([{}])", "[r for r in rows if ({})]", "({}) if 1 else 2",
            "1 if ({}) else 2", "({}) == 1", "1 < ({})", "contains(description, {})", "exists({})", "trim({})", "({}) + 1",
            "sum(({}) for r in rows)", "next((r for r in rows), {})", "(z := ({}))", "rows[{}]", "({}).upper()",
            "[({}) for r in rows][0]", "any(({}) for r in rows)", "uppercase({})", "max({}, 1)"]


def gen_texts(seed, tier):
    rnd = random.Random(seed)
    texts = list(CLASSIC)
    names = attr_names()
    shapes = ['{r}.{a}', '{r}.{a}()', '{r}.{a}({r})', '{r}.{a}.__class__', '{r}.{a}.{a}']
    pool = [(r, a) for r in RECEIVERS for a in names]
    if tier == 'quick':
        # all dunder + introspection-flavoured names on every receiver with the two main shapes; sample of the rest
        hot = [a for a in names if a.startswith('__') or a.startswith(('gi_', 'cr_', 'f_', 'co_', 'tb_', 'format', 'mro'))]
        for r in RECEIVERS:
            for a in hot:
                texts.append(f'{r}.{a}')
                texts.append(f'{r}.{a}()')
        for r, a in rnd.sample(pool, 1500):
            texts.append(rnd.choice(shapes).format(r=r, a=a))
    else:
        for r, a in pool:
            for sh in shapes:
                texts.append(sh.format(r=r, a=a))
    # input-mutation attempts: every mutator method on every data receiver, and every arithmetic operator between data receivers
    for r in DATA_RECV:
        for m in MUTATORS:
            texts += [f'{r}.{m}()', f'{r}.{m}({r})', f'{r}.{m}(0)', f'{r}.{m}("item", 1)']
    for a in DATA_RECV:
        for b in DATA_RECV + ['[1]', '2', '"s"', '[r for r in rows]']:
            for op in BINOPS:
                texts.append(f'{a} {op} {b}')
                texts.append(f'len({a} {op} {b})')
    texts += ['(w := rows) + rows', 'sum([rows, rows], [])', 'sum(rows, rows)', 'max(rows + rows)', 'next(iter_of(rows))',
              '[rows for r in rows][0] + rows', 'rows if rows else rows + rows', '(rows + rows)[0]', 'lst + [r.item for r in rows]',
              'lst + lst', 'lst * 2', 'rows[0] == rows.pop()', '(rows := 1)', '(description := 1)', '(field := 1)', '(txn := 1)',
              '[(rows := r) for r in rows]', '[r for rows in rows]', '[description for description in rows]']
    # string subscripts on every receiver with attribute-like keys (a convenience `txn["x"]` resolved through getattr would
    # hand out context methods / internals)
    ctx_names = ['get_function', 'from_transaction', 'description', 'amount', 'variables', 'data_sources', 'field', 'source',
                 'location', 'month', '_fn_contains', '__class__', '__dict__', '__init__', '__slots__', 'functions', 'transactions']
    for r in ['txn', 'field', 'TXN', 'Field', 'rows[0]', 'description', 'rows', 'threshold']:
        for a in ctx_names:
            texts += [f'{r}["{a}"]', f'{r}[" {a.upper()} "]', f'trim({r}["{a}"])', f'{r}["{a}"]()', f'"%s" % {r}["{a}"]']
    # comparisons of dates with ISO string literals (the evaluator coerces the literal: it must not write the parsed date back
    # into the cached expression tree or into the rows), on the transaction date and on supplemental rows
    for lit in ['"2025-01-01"', '"2025-02-28"', '"2025-02-27"', '"not-a-date"']:
        for op in ['==', '!=', '<', '<=', '>', '>=']:
            texts += [f'date {op} {lit}', f'txn.date {op} {lit}', f'{lit} {op} date', f'[r for r in rows if r.date {op} {lit}]',
                      f'any(r.date {op} {lit} for r in rows)', f'date {op} {lit} {op} {lit}']
    # every attribute a value's own Python type has, on receivers of that type reached every way the language offers
    # (a convenience that resolves "date parts" or "row keys" through getattr hands out methods)
    typed = [(datetime.date(2025, 1, 1), ['date', 'txn.date', 'rows[0].date', '(d := date)', 'next(r.date for r in rows)',
                                          '[r.date for r in rows][0]', 'max(r.date for r in rows)']),
             ('', ['description', 'txn.description', 'field.memo', 'rows[0].item', 'source', '"lit"', 'trim(description)', 'label']),
             (1.5, ['amount', 'txn.amount', 'rows[0].amount', 'abs(amount)', 'threshold']),
             (1, ['month', 'year', 'day', 'txn.weekday', 'len(rows)', '1']),
             ({}, ['rows[0]', 'field', 'txn', 'next(r for r in rows)']),
             ([], ['rows', '[r for r in rows]', 'lst'])]
    for proto, recvs in typed:
        for a in sorted(set(dir(proto))):
            if a.startswith('__') and tier == 'quick':
                continue  # dunders are swept on every receiver above
            for r in recvs:
                texts += [f'{r}.{a}', f'{r}.{a.upper()}', f'trim({r}.{a})']
                if tier != 'quick' or r == recvs[0]:
                    texts += [f'{r}.{a}()', f'"%s" % {r}.{a}', f'{r}.{a.title()}']
    # a name that was just CALLED (function) or just used as an attribute/method, then used bare: the evaluator must not have
    # remembered the callable under that name
    FUNCS = ['abs', 'anyof', 'contains', 'extract', 'fuzzy', 'lowercase', 'normalized', 'regex', 'regex_replace', 'round', 'split',
             'startswith', 'strip_prefix', 'strip_suffix', 'substring', 'trim', 'uppercase', 'len', 'sum', 'min', 'max', 'any',
             'all', 'next', 'exists', 'by', 'count', 'avg', 'period']
    ARGS = ['()', '("S")', '(description)', '(description, "S")', '("S", "T")', '(description, "S", "T")', '(amount)', '(amount, 1)',
            '([1, 2])', '(r for r in rows)', '("-", 0)', '(description, 0, 3)', '(0, 3)', '(field.memo)']
    for f in FUNCS:
        for a in ARGS:
            texts += [f'[{f}{a}, {f}][1]', f'({f}{a} or 1) and {f}', f'{f} if ({f}{a} or 1) else 0',
                      f'[{f} for r in rows if ({f}{a} or 1)]', f'trim({f}{a}) + "-" + trim({f})']
    for m in ['lower', 'upper', 'strip', 'startswith', 'endswith', 'replace', 'memo', 'item', 'amount', 'description']:
        for r in ['description', 'field', 'rows[0]', 'txn']:
            texts += [f'({r}.{m}() or 1) and {m}', f'({r}.{m} or 1) and {m}', f'[{r}.{m}, {m}][1]']
    # text that looks like a number, compared / combined with numbers (a convenience coercion must not hand data text to the
    # compiler or to eval), and arguments far outside a function's range (a warning raised from inside evaluation is I/O)
    for t in ['r.qty', 'rows[0].qty', 'rows[1].qty', 'field.num', 'field.hexy', 'rows[0].sku', 'rows[1].sku', '"3"', '"0x1F"', '"1_0"', '"1e3"',
              '"-7"', '".5"', '"7-ELEVEN 12"', '"(1)"', '"1+1"', '"__import__(\'os\')"', '"[1]"', 'description', 'field.memo']:
        pre = 'next(r for r in rows).qty' if t == 'r.qty' else t
        for op in ['>', '<', '==', '!=', '>=', '<=']:
            texts += [f'{pre} {op} 1', f'1 {op} {pre}', f'{pre} {op} 1.5', f'{pre} {op} amount']
        texts += [f'{pre} + 1', f'1 + {pre}', f'{pre} * 2', f'abs({pre})', f'round({pre})', f'sum([{pre}, 1])', f'max({pre}, 1)', f'{pre} in [3, 31, 10]',
                  f'[r for r in rows if r.qty > 1]', f'any(r.qty == 3 for r in rows)', f'sum(r.qty for r in rows)']
    for f, args in [('fuzzy', ['"STARBUCKS", 80', '"STARBUCKS", -1', '"STARBUCKS", 1.5', '"STARBUCKS", 100', 'description, "STARBUCKS", 80',
                               '"STARBUCKS", 0', '"STARBUCKS", 1', '"STARBUCKS", "0.8"', '"STARBUCKS", None']),
                    ('round', ['amount, 999', 'amount, -999', 'amount, 1e9', 'amount, None']),
                    ('substring', ['-1, 99999', '99999, -1', '0, 1e9', 'description, -5, 5']),
                    ('split', ['"-", 99999', '"-", -99999', '"", 0', '" ", 1e9']),
                    ('extract', ['"(.)", 99', '"(.)", -1']), ('regex_replace', ['"A", "B", 99', '"A", "\\\\9"'])]:
        for a in args:
            texts += [f'{f}({a})', f'trim({f}({a}))', f'{f}({a}) or 1']
    # names and spellings that could reach the process environment / interpreter state (canary values are planted by the runner)
    for k in ['VERIF_CANARY_ENV', 'VERIF_CANARY_NUM', 'verif_canary_lower', 'LARGE_PURCHASE', 'PATH', 'HOME', 'PYTHONPATH', 'USER', 'PWD']:
        texts += [k, k.lower(), k.upper(), f'{k} > 1', f'trim({k})', f'"%s" % {k}', f'amount > {k}', f'[{k} for r in rows]',
                  f'env.{k}', f'environ.{k}', f'os.environ["{k}"]', f'environ["{k}"]', f'env["{k}"]', f'getenv("{k}")', f'env("{k}")',
                  f'"${k}"', f'"${{{k}}}"', f'"%({k})s"', f'"{{{k}}}"', f'expandvars("${k}")', f'contains("${k}")', f'txn.{k}',
                  f'field.{k}', f'rows[0].{k}', f'threshold.{k}', f'exists({k})', f'({k} := {k})', f'{k} or 1', f'{k}.lower()']
    # every aggregate / statistic of the view language on several payments (so that it really computes)
    for f in ['sum', 'avg', 'count', 'min', 'max', 'stddev', 'median', 'mean', 'variance', 'stdev', 'mode', 'abs', 'round', 'len', 'cv']:
        for a in ['payments', 'by("month")', 'by("day")', 'by("week")', 'by("year")', 'sum(by("month"))', 'count(by("month"))',
                  'avg(by("month"))', '[1.5, 2.5, 7]', 'payments, 1', '']:
            texts += [f'{f}({a})', f'{f}({a}) > 1']
    texts += ['cv', 'cv < 0.5', 'total', 'months', 'total / months', 'period("month")', 'period("year")', 'period("quarter")']
    # node kinds x positions, depth 2
    for s in NODE_SNIPPETS:
        for c in CONTEXTS:
            texts.append(c.format(s))
    for s, c, c2 in itertools.product(NODE_SNIPPETS, CONTEXTS, CONTEXTS) if tier == 'thorough' else \
            [(rnd.choice(NODE_SNIPPETS), rnd.choice(CONTEXTS), rnd.choice(CONTEXTS)) for _ in range(1500)]:
        texts.append(c2.format(c.format(s)))
    # random splices of classic payloads into contexts
    for _ in range(800 if tier == 'quick' else 20000):
        p = rnd.choice(CLASSIC)
        texts.append(rnd.choice(CONTEXTS).format(p) if rnd.random() < .7 else
                     rnd.choice(CONTEXTS).format(rnd.choice(CONTEXTS).format(p)))
    texts = [t for t in dict.fromkeys(texts) if '\n' not in t]
    return texts


SENTINELS = ['w', 'x', 'y', 'z', 'q', 'dflt', 'seen', 'description', 'amount', 'len(rows)', 'rows[0].item', 'field.memo', 'txn.amount',
             'threshold', 'lst', 'month', 'contains("STARBUCKS")']
BINDERS = ['(w := description) and 1', '(x := 5) > 1', '(seen := rows) and 1', '(q := txn.amount) > 0', '(amount := 0) == 0',
           '(description := "HACK") == "HACK"', '(threshold := 99) > 1', '(month := 13) > 1', '[y for y in rows] and 1',
           'any(z == 1 for z in [1, 2])', '(lst := [1]) and 1']


def run_chunks(texts, workers=4, chunk=600):
    # every chunk (= one interpreter) starts with the sentinels, then the name-binding payloads, then the stream, and ends with
    # the sentinels again: an evaluation may only read the transaction / fields / rows / variables, never what an EARLIER
    # evaluation bound
    chunks = [SENTINELS + BINDERS + texts[i:i + chunk] + SENTINELS for i in range(0, len(texts), chunk)]
    with ThreadPoolExecutor(max_workers=workers) as ex:
        outs = list(ex.map(lambda c: run_impl(IMPL, {'texts': c}, timeout=1800)['results'], chunks))
    res = []
    for o in outs:
        n = len(SENTINELS)
        first, last = o[:n], o[-n:]
        for a, b in zip(first, last):
            ka = (a.get('load'), a.get('eval'), a.get('str'))
            kb = (b.get('load'), b.get('eval'), b.get('str'))
            if ka != kb:
                b = dict(b)
                b['state_leak'] = {'expression': a['text'], 'fresh': ka, 'after_other_evaluations': kb}
                res.append(b)
        res += o[n:-n]
    return res


OTHER_INTERNALS = ['<class ', '<function ', '<built-in', '<module', '<bound method', '<method', '<slot wrapper', '<attribute ']


def oracle(r):
    """Property C03 on one implementation result. Returns list of (signature, detail)."""
    bad = []
    if r.get('events'):
        bad.append(('C03/audit-event', r['events'][:3]))
    if r.get('canary'):
        bad.append(('C03/reads-process-state-outside-the-frame', r['canary']))
    if r.get('state_leak'):
        bad.append(('C03/evaluation-state-leaks-between-evaluations', r['state_leak']))
    if r.get('wrote_output'):
        bad.append(('C03/wrote-to-stdout-or-stderr', r['wrote_output'][:80]))
    if r.get('cached_after_reject'):
        bad.append(('C03/rejected-expression-cached', ''))
    for key, sig in (('value_class', 'txn'), ('view_value_class', 'view'), ('engine_value_class', 'engine')):
        vc = r.get(key)
        if vc and vc != 'data':
            kind = vc.split(':')[-1]
            bad.append((f'C03/{kind}-object-as-value' if kind == 'generator' else f'C03/non-data-value:{kind}', sig))
    if r.get('bad_text') or r.get('view_bad_text'):
        txt = r.get('str', '') or ''
        only_gen = '<generator object' in txt and not any(p in txt for p in OTHER_INTERNALS)
        bad.append(('C03/generator-object-as-value' if only_gen else 'C03/interpreter-internals-in-text', txt))
    if r.get('engine_bad_text'):
        txt = ' '.join(map(str, r['engine_bad_text']))
        only_gen = '<generator object' in txt and not any(p in txt for p in OTHER_INTERNALS)
        bad.append(('C03/generator-object-as-value' if only_gen else 'C03/interpreter-internals-in-tag-or-field',
                    r['engine_bad_text']))
    if r.get('frame_ok') is False:
        bad.append(('C03/evaluation-mutates-inputs', ''))
    for k in ('load', 'eval', 'view', 'engine', 'rules_load'):
        v = r.get(k, '')
        if v.startswith('py_error:') and v.split(':')[1] in ('SystemExit', 'KeyboardInterrupt', 'ImportError', 'ModuleNotFoundError',
                                                               'PermissionError', 'FileNotFoundError', 'OSError'):
            bad.append(('C03/escape-exception:' + v.split(':')[1], k))
    return bad


VAL_HEADER = '''From Coq Require Import String List Bool.
From Tally Require Import Lib.Str Gen.C03Caps C03.Validate.
Import ListNotations.
Open Scope string_scope.
Notation N := Node.
Definition ok (c : tree * bool) : bool := Bool.eqb (validate C03Caps.allowed_nodes (fst c)) (snd c).
Fixpoint failing (i : nat) (l : list (tree * bool)) : list nat :=
  match l with [] => [] | c :: r => if ok c then failing (S i) r else i :: failing (S i) r end.
'''


def coq_tree(k):
    return f'N "{k[0]}" [' + '; '.join(coq_tree(c) for c in k[1]) + ']'


def model_validate(results):
    rows, idx = [], []
    for i, r in enumerate(results):
        if r.get('kinds') is None or r.get('load', '').startswith(('py_error', 'harness')):
            continue
        acc = r['load'] == 'accepted'
        rows.append(f'({coq_tree(r["kinds"])}, {"true" if acc else "false"})')
        idx.append(i)
    bad = []
    CH = 500
    jobs = [(off, rows[off:off + CH]) for off in range(0, len(rows), CH)]

    def one(job):
        off, rws = job
        body = 'Definition cases := [\n' + ';\n'.join(rws) + '\n].\nEval vm_compute in failing 0 cases.\n'
        return off, run_cases(f'C03_{off // CH}', VAL_HEADER, body)
    with ThreadPoolExecutor(max_workers=4) as ex:
        for off, (rc, out, err) in ex.map(one, jobs):
            m = re.search(r'=\s*\[(.*?)\]\s*:\s*list nat', out, re.S)
            if rc != 0 or not m:
                return None, idx, (out + err)[-600:]
            bad += [idx[off + int(x)] for x in m.group(1).replace('%nat', '').replace('\n', ' ').split(';') if x.strip()]
    return bad, idx, ''


def shrink_text(text, sig):
    """Greedy shrink: try the classic sub-payloads contained in the text."""
    best = text
    for p in sorted(CLASSIC, key=len):
        if p in text and len(p) < len(best):
            r = run_impl(IMPL, {'texts': [p]})['results'][0]
            if any(s == sig for s, _ in oracle(r)):
                best = p
                break
    return best


def main(tier):
    run = Run('C03', tier)
    run.assumptions = [
        'CPython ast.parse (text -> node tree) and its audit-hook coverage are libraries outside the model',
        'static certificate: tools/c03_caps.py classifies call/getattr/import sites syntactically; the confined set is C03/Caps.v',
        'value-level semantics of the evaluators are modelled in coq/theories/Expr (C04); C03 rests on the capability table, '
        'the validate model and the adversarial differential, not on value-level modelling',
        'regex engine internals (re) and difflib are trusted libraries: patterns are user data, not code']
    tfails = regen_gen()
    res = run.proof_step(COQ_FILES, extra_trusted=['tools/c03_caps.py (syntactic extractor, fail closed)',
                                                   'harness/c03.py + impl_c03.py (audit hook, type checks)'])
    res2 = run.proof_step(COQ_FILES_VALUES, extra_trusted=['coq/theories/Expr (hand model of the evaluator, tied to the code by the C04 correspondence)'])
    broken = []
    if tfails:
        run.cov['discharged'] = 0
        broken.append({'kind': 'translation-failure', 'detail': tfails})
    elif not res['ok']:
        broken.append({'kind': 'broken-obligation', 'detail': first_error(res['log'])})
    elif not res2['ok']:
        broken.append({'kind': 'broken-obligation', 'detail': first_error(res2['log'])})
    if res['hygiene'] or res2['hygiene']:
        broken.append({'kind': 'hygiene', 'detail': res['hygiene'] + res2['hygiene']})

    texts = gen_texts(run.seed, tier)
    results = run_chunks(texts)
    by_sig = {}
    for r in results:
        for sig, detail in oracle(r):
            by_sig.setdefault(sig, []).append((r, detail))
    reported = 0
    for sig, items in by_sig.items():
        r, detail = min(items, key=lambda x: len(x[0]['text']))
        text = shrink_text(r['text'], sig)
        if run.violation('oracle', {'kind': 'counterexample', 'case': {'expression': text, 'original': r['text']},
                                    'observed': {k: v for k, v in r.items() if k not in ('kinds',)}, 'detail': detail,
                                    'expected': 'rejected at load, or ExpressionError, or a plain data value; no audit events; inputs unchanged',
                                    'obligation': 'C03 direct oracle (audit hook / value types / frame)', 'n_cases': len(items),
                                    'broken': broken}, signature=sig):
            reported += 1
    model_idx = []
    if not tfails and res['ok'] and res2['ok']:
        bad, model_idx, err = model_validate(results)
        if bad is None:
            broken.append({'kind': 'broken-correspondence', 'obligation': 'validate(model) vs parse_expression accept/reject',
                           'detail': 'cases.v did not evaluate: ' + err})
        elif bad:
            r = results[bad[0]]
            broken.append({'kind': 'broken-correspondence', 'obligation': 'validate(model) vs parse_expression accept/reject',
                           'detail': {'expression': r['text'], 'load': r['load'], 'kinds': r['kinds'], 'n': len(bad)}})
    if broken and not reported:
        run.violation('broken', {'kind': broken[0]['kind'], 'obligation': broken[0].get('obligation') or
                                 (broken[0]['detail'].get('obligation') if isinstance(broken[0]['detail'], dict) else None),
                                 'broken': broken,
                                 'searched': f'{len(texts)} adversarial expressions through load/evaluate/view/rules-file positions; '
                                             'no audit event, non-data value or mutation beyond listed known findings'},
                      found_input=False)
    hist = {}
    for r in results:
        k = (r.get('load'), r.get('eval', '-').split(':')[0])
        hist[str(k)] = hist.get(str(k), 0) + 1
    accepted = [r for r in results if r.get('load') == 'accepted']
    run.cov.update({'evaluations': len(results) + len(model_idx),
                    'distinct_nontrivial': len({r['text'] for r in accepted}),
                    'rule': 'classic sandbox-escape corpus; every attribute name of str/dict/list/float/int/date/function/type/generator/'
                            'builtin/method/None/set applied to 23 receiver shapes in 5 call shapes (quick: all dunder/introspection names + '
                            'sample); every expression node kind x 24 contexts, depth 2; random splices; each through parse_expression, '
                            'evaluate_transaction, evaluate (views), and match/let/field/tag/transform/variable positions of a rules file. '
                            'non-trivial = distinct expressions the loader ACCEPTS (so evaluation is exercised)',
                    'samples': [texts[3], texts[len(texts) // 2], texts[-1]],
                    'outcome_histogram': hist, 'model_validate_cases_in_coq': len(model_idx),
                    'caps_in_table': len(re.findall(r'^  \(', open(os.path.join(COQ, 'theories/Gen/C03Caps.v')).read(), re.M)),
                    'translation_failures': tfails})
    run.finish()


def replay(path):
    obj = json.load(open(path))
    if obj.get('kind') != 'counterexample':
        main('quick')
    r = run_impl(IMPL, {'texts': [obj['case']['expression']]})['results'][0]
    bad = oracle(r)
    print(json.dumps({'oracle': bad, 'observed': {k: v for k, v in r.items() if k != 'kinds'}}, indent=1, default=str))
    if bad:
        print(f'VIOLATION property=C03 replay={path}')
        return 1
    return 0
