"""C16, implementation side: instantiates the model's oracles with tally's own leaf functions (one budget per
process — the rule engine is cached in a module global).

 * pipelines: every source (supplemental ones too) parsed by parse_generic_csv twice — with the supplemental data
   (`up`'s classification) and without (`explain`/`discover`'s) — giving per parsed row: raw description, |amount|,
   merchant and category under both.
 * one description: for each probe and each rule the three per-rule verdicts of C16/Model.v —
   ev_engine  (single-rule MerchantEngine built from the file's variables + that rule, .match on the full transaction
               with supplemental data), ev_legacy (normalize_merchant's tuple test, full transaction),
   ev_explain (explain_description's tuple test: guess, bare expression or re.search + modifiers, no date/data) —
   plus calculate_specificity, the transformed description and extract_merchant_name.
Nothing here re-implements a matching LOOP: loops are the model's (Coq) and the CLI's."""
import json
import os
import re
import sys
from datetime import date, datetime

from tally import expr_parser
from tally.format_parser import parse_format_string
from tally.merchant_engine import parse_merchants, calculate_specificity
from tally.merchant_utils import (get_all_rules, get_transforms, get_cached_engine, apply_transforms, extract_merchant_name,
                                  _is_expression_pattern)
from tally.modifier_parser import check_all_conditions
from tally.analyzer import parse_generic_csv


def spec_for(s, fmt):
    fs = parse_format_string(fmt, s.get('template'))
    if s.get('_delimiter') is not None:
        fs.delimiter = s['_delimiter']
    if s['has_header'] is not None:
        fs.has_header = s['has_header']
    if s.get('negate_amount') is not None:
        fs.negate_amount = s['negate_amount']
    return fs


def supp_rows(s):
    rows = []
    for r in s['rows']:
        y, m, d = (int(x) for x in r['d'].split('-'))
        rows.append({'date': date(y, m, d), 'item': r['desc'], 'amount': r['q'] / 4.0})
    return rows


def tri(f):
    try:
        return bool(f())
    except (re.error, expr_parser.ExpressionError):
        return None
    except Exception as e:  # noqa — would crash the command
        return 'raise:' + type(e).__name__


def main():
    p = json.load(sys.stdin)
    root, spec, fmts = p['root'], p['spec'], p['fmts']
    for s_, d_ in zip(spec['sources'], p['delims']):
        s_['_delimiter'] = d_      # the delimiter setting as written in settings.yaml
    mode = spec.get('rule_mode') or 'first_match'
    kind = 'none' if spec['rules'].get('configured_missing') else spec['rules']['kind']
    path = {'rules': os.path.join(root, 'config', 'merchants.rules'),
            'csv': os.path.join(root, 'config', 'merchant_categories.csv'), 'none': None}[kind]
    rules = get_all_rules(path, match_mode=mode) if path else get_all_rules(match_mode=mode)
    transforms = get_transforms(path, match_mode=mode)
    engine = get_cached_engine()
    supp = {}
    for s in spec['sources']:
        if s['supplemental'] and s['state'] == 'present' and s['rows']:
            supp[s['name'].lower()] = supp_rows(s)

    # ---- pipelines
    per_source = []
    for s, fmt in zip(spec['sources'], fmts):
        fp = os.path.normpath(os.path.join(root, s['file']))
        if not os.path.exists(fp):
            per_source.append({'skipped': 'missing'})
            continue
        try:
            fs = spec_for(s, fmt)
            t_up = parse_generic_csv(fp, fs, rules, source_name=s['name'], decimal_separator=s['decimal_separator'] or '.',
                                     transforms=transforms, data_sources=supp)
            t_cmd = parse_generic_csv(fp, fs, rules, source_name=s['name'], decimal_separator=s['decimal_separator'] or '.',
                                      transforms=transforms)
        except Exception as e:  # noqa
            per_source.append({'skipped': 'error', 'error': type(e).__name__})
            continue
        if len(t_up) != len(t_cmd):
            per_source.append({'skipped': 'row-count-depends-on-data', 'n': [len(t_up), len(t_cmd)]})
            continue
        per_source.append({'rows': [[a['raw_description'], abs(a['amount']), a['merchant'], a['category'], b['merchant'], b['category']]
                                    for a, b in zip(t_up, t_cmd)]})

    # ---- one description
    meta = []
    if engine is not None:
        for r in engine.rules:
            meta.append({'name': r.name, 'merchant': r.merchant, 'expr': r.match_expr, 'cat': r.category, 'sub': r.subcategory,
                         'spec': list(calculate_specificity(r))})
    else:
        for t in rules:
            meta.append({'name': t[1], 'merchant': t[1], 'expr': t[0], 'cat': t[2], 'sub': t[3], 'spec': [0, 0, 0, 0]})
    single = []
    if engine is not None:
        for text in p['single_rule_texts']:
            single.append(parse_merchants(text, match_mode=mode))
    probes = []
    for pr in p['probes']:
        y, m, d = (int(x) for x in pr['date'].split('-'))
        full = {'description': pr['desc'], 'amount': pr['amount'] or 0, 'field': None, 'source': pr['source'], 'location': None,
                'date': date(y, m, d)}
        bare = {'description': pr['desc'], 'amount': pr['amount'] or 0, 'field': None}
        if transforms:
            apply_transforms(full, transforms)
            apply_transforms(bare, transforms)
        du_full, du_bare = full['description'].upper(), bare['description'].upper()
        rows = []
        for i, t in enumerate(rules):
            pattern, parsed = t[0], t[4]

            def explain_way():
                if _is_expression_pattern(pattern):
                    return expr_parser.matches_transaction(pattern, bare)
                if not re.search(pattern, du_bare, re.IGNORECASE):
                    return False
                if parsed and (parsed.amount_conditions or parsed.date_conditions):
                    return check_all_conditions(parsed, pr['amount'], None)
                return True

            def legacy_way():
                if _is_expression_pattern(pattern):
                    return expr_parser.matches_transaction(pattern, full, data_sources=supp)
                if not re.search(pattern, du_full, re.IGNORECASE):
                    return False
                if parsed and (parsed.amount_conditions or parsed.date_conditions):
                    return check_all_conditions(parsed, pr['amount'], date(y, m, d))
                return True

            def engine_way():
                return len(single[i].match(full, data_sources=supp).all_matching_rules) > 0

            rows.append({'exp': tri(explain_way), 'leg': tri(legacy_way), 'eng': tri(engine_way) if engine is not None else None,
                         'guess': bool(_is_expression_pattern(pattern))})
        probes.append({'verdicts': rows, 'extract': extract_merchant_name(bare['description']),
                       'transformed': bare['description']})
    json.dump({'per_source': per_source, 'rules': meta, 'probes': probes, 'engine': engine is not None,
               'supp_keys': sorted(supp)}, sys.stdout)


main()
