"""Runs tally.expr_parser.evaluate_transaction on generated (expression, environment) pairs.
stdin: {'envs': [env], 'jobs': [[env_index, expr_text], ...], 'pyeval': [[env_index, expr_text], ...]}
stdout: {'results': [{'val': value} | {'err': classname}], 'log': oracle log, 'pyeval': [...]}.
All jobs run in ONE process, in order (the expression cache and the regex cache are shared, as in a real run).
The regex / difflib calls made by the code are logged; each logged query is answered by CPython's own
re.search(pattern, text, re.IGNORECASE) / re.sub / SequenceMatcher.ratio (the oracles of the Coq model),
independently of the flags the code passed."""
import datetime
import difflib
import json
import os
import re as real_re
import sys
from fractions import Fraction

sys.path.insert(0, os.path.dirname(os.path.abspath(__file__)))
from expr_common import enc, dec  # noqa: E402

import tally.expr_parser as ep  # noqa: E402

LOG = {'search': [], 'sub': [], 'ratio': []}
SEEN = set()


def log_search(pattern, text):
    if not isinstance(pattern, str) or not isinstance(text, str):
        return
    key = ('s', pattern, text)
    if key in SEEN:
        return
    SEEN.add(key)
    try:
        m = real_re.search(pattern, text, real_re.IGNORECASE)
    except real_re.error:
        LOG['search'].append([pattern, text, 'bad'])
        return
    except RecursionError:
        return
    if m is None:
        LOG['search'].append([pattern, text, 'no'])
    else:
        LOG['search'].append([pattern, text, {'n': m.re.groups, 'g1': m.group(1) if m.re.groups >= 1 else None}])


class PatternProxy:
    def __init__(self, pat, pattern):
        self._p, self.pattern = pat, pattern

    def search(self, text, *a):
        log_search(self.pattern, text)
        return self._p.search(text, *a)

    def __getattr__(self, name):
        return getattr(self._p, name)


class ReProxy:
    error = real_re.error
    IGNORECASE = real_re.IGNORECASE
    Pattern = real_re.Pattern

    def compile(self, pattern, flags=0):
        log_search(pattern, '')
        return PatternProxy(real_re.compile(pattern, flags), pattern)

    def search(self, pattern, text, flags=0):
        log_search(pattern, '')
        log_search(pattern, text)
        return real_re.search(pattern, text, flags)

    def sub(self, pattern, repl, text, count=0, flags=0):
        if isinstance(pattern, str) and isinstance(repl, str) and isinstance(text, str):
            key = ('r', pattern, repl, text)
            if key not in SEEN:
                SEEN.add(key)
                # the code's own normalisation regex in normalized() is modelled, not an oracle
                if pattern != r"[\s\-'.*]+":
                    try:
                        LOG['sub'].append([pattern, repl, text, real_re.sub(pattern, repl, text, flags=real_re.IGNORECASE)])
                    except (real_re.error, IndexError):
                        LOG['sub'].append([pattern, repl, text, None])
        return real_re.sub(pattern, repl, text, count=count, flags=flags)

    def __getattr__(self, name):
        return getattr(real_re, name)


class LoggingMatcher(difflib.SequenceMatcher):
    def ratio(self):
        r = super().ratio()
        if isinstance(self.a, str) and isinstance(self.b, str):
            # the model asks for ratio(window, pattern); answer both argument orders independently of the
            # order the code used (ratio() is not symmetric)
            for x, y in ((self.a, self.b), (self.b, self.a)):
                key = ('f', x, y)
                if key not in SEEN:
                    SEEN.add(key)
                    f = Fraction(REAL_MATCHER(None, x, y).ratio())
                    LOG['ratio'].append([x, y, str(f.numerator), str(f.denominator)])
        return r


REAL_MATCHER = difflib.SequenceMatcher
ep.re = ReProxy()
difflib.SequenceMatcher = LoggingMatcher


def build_env(env):
    t = env['txn']
    txn = {'description': t['description'], 'amount': dec(t['amount'])}
    if t.get('date') is not None:
        txn['date'] = datetime.date.fromordinal(t['date'])
    if t.get('field') is not None:
        txn['field'] = {k: dec(v) for k, v in t['field'].items()}
    if t.get('source') is not None:
        txn['source'] = t['source']
    if t.get('location') is not None:
        txn['location'] = t['location']
    variables = {k: dec(v) for k, v in env.get('vars', {}).items()}
    ds = {k: [{kk: dec(vv) for kk, vv in r.items()} for r in rows] for k, rows in env.get('ds', {}).items()}
    return txn, variables, ds


def prelog(expr, env):
    """Oracle answers for the (pattern, text) pairs an expression can ask about, independently of which calls
    the code actually makes: every string constant against every string constant and the transaction's texts."""
    low = expr.lower()
    if 'regex' not in low and 'extract' not in low:
        return
    try:
        import ast as _ast
        import warnings as _w
        with _w.catch_warnings():
            _w.simplefilter('ignore')
            tree = _ast.parse(expr, mode='eval')
    except Exception:  # noqa
        return
    consts = [n.value for n in _ast.walk(tree) if isinstance(n, _ast.Constant) and isinstance(n.value, str)][:8]
    txn = env[0]
    texts = consts + [txn.get('description', ''), txn.get('source') or '', txn.get('location') or '']
    texts += [v for v in (txn.get('field') or {}).values() if isinstance(v, str)]
    for p in consts:
        for t in texts:
            log_search(p, t)


def run(expr, env):
    prelog(expr, env)
    txn, variables, ds = env
    try:
        v = ep.evaluate_transaction(expr, txn, variables, ds)
    except BaseException as e:  # noqa
        if isinstance(e, (KeyboardInterrupt, SystemExit)):
            raise
        return {'err': type(e).__name__}
    return {'val': enc(v)}


def py_eval(expr, env):
    """CPython's own evaluation of a comprehension-fragment expression on plain Python data (the reference
    semantics for 'behaves like the same Python construct'): rows become objects with attribute access."""
    txn, variables, ds = env

    class Row(dict):
        __getattr__ = dict.__getitem__

    class Txn:
        pass
    t = Txn()
    t.amount, t.description, t.date = txn.get('amount'), txn.get('description'), txn.get('date')
    t.source, t.location = txn.get('source') or '', txn.get('location') or ''
    t.month, t.year, t.day = (t.date.month, t.date.year, t.date.day) if t.date else (0, 0, 0)
    t.weekday = t.date.weekday() if t.date else 0
    g = {'__builtins__': {}, 'True': True, 'False': False, 'None': None, 'len': len, 'sum': sum, 'any': any, 'all': all, 'next': next, 'min': min, 'max': max,
         'abs': abs, 'txn': t, 'amount': t.amount, 'description': t.description}
    for k, rows in ds.items():
        g[k] = [Row(r) for r in rows]
    g.update(variables)
    try:
        v = eval(compile(expr, '<c04>', 'eval'), g)      # one namespace: := inside a generator binds where it is read
    except BaseException as e:  # noqa
        return {'err': type(e).__name__}
    if isinstance(v, list):
        v = [dict(x) if isinstance(x, Row) else x for x in v]
    elif isinstance(v, Row):
        v = dict(v)
    return {'val': enc(v)}


def main():
    payload = json.load(sys.stdin)
    envs = [build_env(e) for e in payload['envs']]
    res = [run(expr, envs[ei]) for ei, expr in payload.get('jobs', [])]
    pe = [py_eval(expr, envs[ei]) for ei, expr in payload.get('pyeval', [])]
    json.dump({'results': res, 'log': LOG, 'pyeval': pe}, sys.stdout)


main()
