"""Runs tally.classification on the given cases (under /venv/bin/python, PYTHONPATH=/repo/src)."""
import json
import struct
import sys

from tally import classification as C


def hx(x):
    return struct.pack('>d', float(x)).hex()


def unhx(h):
    return struct.unpack('>d', bytes.fromhex(h))[0]


def main():
    payload = json.load(sys.stdin)
    out = []
    for a_hex, tags, s_hex, c_hex in payload['cases']:
        a = unhx(a_hex)
        try:
            b = C.categorize_amount(a, tags)
            out.append({'keys': sorted(b.keys()), 'income': hx(b['income']), 'investment': hx(b['investment']),
                        'transfer_in': hx(b['transfer_in']), 'transfer_out': hx(b['transfer_out']),
                        'spending': hx(b['spending']), 'credits': hx(b['credits']),
                        'excluded': bool(C.is_excluded_from_spending(tags)), 'is_income': bool(C.is_income(tags)),
                        'is_transfer': bool(C.is_transfer(tags)), 'is_investment': bool(C.is_investment(tags)),
                        'cash_flow': hx(C.calculate_cash_flow(a, unhx(s_hex), unhx(c_hex))),
                        'normalize': hx(C.normalize_amount(a, tags))})
        except Exception as e:  # noqa
            out.append({'error': f'{type(e).__name__}: {e}'})
    lower = {}
    for cp in range(128, 0x110000):
        if 0xD800 <= cp <= 0xDFFF:
            continue
        l = chr(cp).lower()
        if all(ord(c) < 128 for c in l):
            lower[str(cp)] = l
    json.dump({'results': out, 'ascii_lower': lower}, sys.stdout)


main()
