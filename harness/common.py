"""Shared machinery for ./check: regeneration of Gen/*.v, the Coq build (full .vo, under
flock and shell timeout), Print Assumptions parsing, hygiene grep, running the
implementation, running the model (cases.v + vm_compute), evidence and verdict lines."""
import fcntl
import hashlib
import json
import os
import re
import subprocess
import sys
import time

VERIF = os.path.dirname(os.path.dirname(os.path.abspath(__file__)))
REPO = os.environ.get('VERIF_REPO', '/repo')
SRC = os.path.join(REPO, 'src', 'tally')
COQ = os.path.join(VERIF, 'coq')
WORK_ROOT = os.path.join(VERIF, '.work')
# every invocation gets a private scratch directory, so that two checks (or two runs of the same check, e.g. against
# different trees) never share budgets / cases files; removed at exit
WORK = os.path.join(WORK_ROOT, f'run-{os.getpid()}')
PY = '/venv/bin/python'
sys.path.insert(0, os.path.join(VERIF, 'tools'))

ALLOWED_AXIOMS = {
    # Coq primitive floats / ints (not axioms of ours: kernel primitives, listed by Print Assumptions)
    'float', 'sub', 'add', 'mul', 'div', 'ltb', 'leb', 'eqb', 'abs', 'opp', 'sqrt', 'of_uint63', 'int',
    'classify', 'compare', 'normfr_mantissa', 'frshiftexp', 'ldshiftexp', 'next_up', 'next_down',
}
# standard-library axioms that may appear (each must then be named in the trusted base)
STDLIB_AXIOMS = {'functional_extensionality_dep', 'classic', 'proof_irrelevance', 'JMeq_eq', 'Eqdep.Eq_rect_eq.eq_rect_eq',
                 'eq_rect_eq', 'propositional_extensionality'}

FORBIDDEN = re.compile(r'\b(Admitted|admit|Axiom|Parameter|Conjecture|Admit Obligations|Unset Guard Checking|'
                       r'bypass_check|Unset Positivity Checking|Unset Universe Checking|type-in-type|impredicative-set)\b')


def env_impl():
    e = dict(os.environ)
    e['PYTHONPATH'] = os.path.join(REPO, 'src')
    e['PYTHONHASHSEED'] = '0'
    e['PYTHONDONTWRITEBYTECODE'] = '1'
    e.pop('TALLY_VERIF', None)
    return e


def ensure_dirs():
    for d in (WORK_ROOT, WORK, os.path.join(VERIF, 'evidence'), os.path.join(VERIF, 'replays')):
        os.makedirs(d, exist_ok=True)


def _cleanup_work():
    import shutil
    if os.environ.get('VERIF_KEEP_WORK') != '1':
        shutil.rmtree(WORK, ignore_errors=True)


import atexit  # noqa: E402
atexit.register(_cleanup_work)


_REGEN = {}


def reassert_gen():
    """Called with the Coq lock held, before compiling: put back every file this run generated if a concurrent run on ANOTHER
    tree (VERIF_REPO) rewrote it in the meantime (the generated files are shared between runs)."""
    n = 0
    for path, content in _REGEN.items():
        try:
            if open(path).read() != content:
                with open(path, 'w') as f:
                    f.write(content)
                n += 1
        except OSError:
            pass
    return n


def regen(relpath, content):
    """Write a generated file only when its content changed (keeps make incremental)."""
    path = os.path.join(COQ, 'theories', relpath)
    os.makedirs(os.path.dirname(path), exist_ok=True)
    _REGEN[path] = content
    old = open(path).read() if os.path.exists(path) else None
    if old != content:
        with open(path, 'w') as f:
            f.write(content)
        return True
    return False


class CoqLock:
    def __enter__(self):
        ensure_dirs()
        self.f = open(os.path.join(WORK_ROOT, 'coq.lock'), 'w')
        fcntl.flock(self.f, fcntl.LOCK_EX)
        return self

    def __exit__(self, *a):
        fcntl.flock(self.f, fcntl.LOCK_UN)
        self.f.close()


def coq_build(files, timeout=1200):
    """Compile the given theory files (paths relative to coq/theories, in dependency order) with
    plain coqc (full .vo; no -vos). A file is recompiled when its .vo is missing, older than its
    source, or older than the .vo of any file earlier in the list. Returns (ok, log, cmds)."""
    th = os.path.join(COQ, 'theories')
    log, cmds = '', []
    newest_dep = 0.0
    ok = True
    reassert_gen()
    for rel in files:
        v = os.path.join(th, rel)
        vo = v + 'o'
        if not os.path.exists(v):
            return False, log + f'\n[build] missing source {rel}', cmds
        stale = (not os.path.exists(vo)) or os.path.getmtime(vo) < os.path.getmtime(v) or \
            os.path.getmtime(vo) < newest_dep
        if stale:
            cmd = ['timeout', str(timeout), 'coqc', '-Q', 'theories', 'Tally', os.path.join('theories', rel)]
            cmds.append(' '.join(cmd))
            p = subprocess.run(cmd, cwd=COQ, capture_output=True, text=True)
            log += f'COQC {rel}\n' + p.stdout + p.stderr
            if p.returncode != 0:
                if os.path.exists(vo):
                    os.remove(vo)
                ok = False
                break
        newest_dep = max(newest_dep, os.path.getmtime(vo))
    return ok, log, cmds


def coqc_file(path, timeout=600, extra_q=()):
    cmd = ['timeout', str(timeout), 'coqc', '-Q', os.path.join(COQ, 'theories'), 'Tally']
    for d, n in extra_q:
        cmd += ['-Q', d, n]
    cmd.append(path)
    p = subprocess.run(cmd, capture_output=True, text=True, cwd=os.path.dirname(path))
    return p.returncode, p.stdout, p.stderr


def props_theorems(relpath):
    """Names of the theorems in a Props.v file and the order of its Print Assumptions."""
    src = open(os.path.join(COQ, 'theories', relpath)).read()
    thms = re.findall(r'^\s*Theorem\s+([A-Za-z0-9_\']+)', src, re.M)
    prints = re.findall(r'^\s*Print Assumptions\s+([A-Za-z0-9_\']+)\s*\.', src, re.M)
    return thms, prints


def check_props(files, timeout=1200):
    """Build `files` (dependency order; the last one is the property file, always recompiled so that its
    Print Assumptions output is fresh) and parse that output.
    Returns dict(ok, log, cmd, theorems, assumptions, bad_axioms)."""
    rel = files[-1]
    vo = os.path.join(COQ, 'theories', rel + 'o')
    if os.path.exists(vo):
        os.remove(vo)
    ok, log, cmds = coq_build(files, timeout=timeout)
    cmd = '; '.join(cmds)
    # only the output of the last coqc (the property file) carries the Print Assumptions blocks
    log_last = log[log.rfind('COQC '):] if 'COQC ' in log else log
    thms, prints = props_theorems(rel)
    res = {'ok': ok, 'log': log, 'cmd': cmd, 'theorems': thms, 'assumptions': {}, 'bad_axioms': [],
           'stdlib_axioms': []}
    if not ok:
        return res
    # parse Print Assumptions blocks in order
    blocks, cur = [], None
    for line in log_last.splitlines():
        if line.startswith('Closed under the global context'):
            blocks.append([])
            cur = None
        elif line.startswith('Axioms:'):
            cur = []
            blocks.append(cur)
        elif cur is not None:
            m = re.match(r'^([A-Za-z0-9_.\']+)\s*:', line)
            if m:
                cur.append(m.group(1))
            elif line and not line.startswith(' '):
                cur = None
    if len(blocks) != len(prints):
        res['ok'] = False
        res['log'] += f'\n[check] expected {len(prints)} Print Assumptions blocks, saw {len(blocks)}'
        return res
    for name, b in zip(prints, blocks):
        res['assumptions'][name] = b
        for a in b:
            short = a.split('.')[-1]
            if short in ALLOWED_AXIOMS:
                continue
            if short in STDLIB_AXIOMS or a in STDLIB_AXIOMS:
                res['stdlib_axioms'].append(a)
                continue
            res['bad_axioms'].append((name, a))
    missing = [t for t in thms if t not in prints]
    if missing:
        res['ok'] = False
        res['log'] += f'\n[check] theorems without Print Assumptions: {missing}'
    if res['bad_axioms']:
        res['ok'] = False
        res['log'] += f'\n[check] disallowed axioms: {res["bad_axioms"]}'
    return res


def hygiene(files):
    """grep the given theory files for forbidden vernacular; returns offending 'file:line: text'."""
    bad = []
    for rel in files:
        p = os.path.join(COQ, 'theories', rel)
        if not os.path.exists(p):
            continue
        txt = open(p).read()
        txt = re.sub(r'\(\*.*?\*\)', lambda m: re.sub(r'[^\n]', ' ', m.group(0)), txt, flags=re.S)
        for i, line in enumerate(txt.splitlines(), 1):
            if FORBIDDEN.search(line):
                bad.append(f'coq/theories/{rel}:{i}: {line.strip()}')
    return bad


def first_error(log):
    m = re.search(r'File "([^"]+)", line (\d+), characters [^\n]*\n(Error:[^\n]*(?:\n[^\n]+){0,6})', log)
    if not m:
        return {'file': None, 'line': None, 'error': log[-600:]}
    f, ln = m.group(1), int(m.group(2))
    name = None
    try:
        lines = open(os.path.join(COQ, f) if not os.path.isabs(f) else f).read().splitlines()
        for i in range(min(ln, len(lines)) - 1, -1, -1):
            mm = re.match(r'\s*(?:Lemma|Theorem|Example|Definition|Fixpoint|Corollary)\s+([A-Za-z0-9_\']+)', lines[i])
            if mm:
                name = mm.group(1)
                break
    except OSError:
        pass
    return {'file': f, 'line': ln, 'error': m.group(3), 'obligation': name}


def run_impl(script, payload, timeout=600):
    """Run a harness script under the repository's interpreter with /repo/src on the path.
    payload -> stdin JSON, stdout JSON back."""
    p = subprocess.run([PY, script], input=json.dumps(payload), capture_output=True, text=True,
                       env=env_impl(), timeout=timeout)
    if p.returncode != 0:
        raise RuntimeError(f'impl runner {script} failed: {p.stderr[-2000:]}')
    return json.loads(p.stdout)


def coq_str(s):
    """Coq string literal (bytes of the UTF-8 encoding) for arbitrary text."""
    b = s.encode('utf-8') if isinstance(s, str) else s
    if all(32 <= c < 127 for c in b):
        return '"' + b.decode('ascii').replace('"', '""') + '"'
    return '(sbytes [' + ';'.join(str(c) for c in b) + ']%N)'


def run_cases(name, header, body, timeout=900):
    """Compile a scratch cases file against the development; returns (rc, stdout, stderr)."""
    d = os.path.join(WORK, name)
    os.makedirs(d, exist_ok=True)
    p = os.path.join(d, 'cases.v')
    with open(p, 'w') as f:
        f.write(header + '\n' + body + '\n')
    return coqc_file(p, timeout=timeout)


# ---------------------------------------------------------------------------------------
class Run:
    def __init__(self, prop, tier, level='proof'):
        ensure_dirs()
        self.prop, self.tier, self.level = prop, tier, level
        self.seed = int(os.environ.get('VERIF_SEED', '0') or 0)
        self.t0 = time.time()
        self.violations = []      # (replay_path, suffix)
        self.known_lines = []
        self.cov = {'obligations': 0, 'discharged': 0, 'checker_cmd': '', 'trusted_base': [],
                    'evaluations': 0, 'distinct_nontrivial': 0, 'rule': '', 'samples': []}
        self.assumptions = []
        self.findings = load_known_findings(prop)

    def replay_path(self, tag, obj):
        blob = json.dumps(obj, sort_keys=True, default=str)
        h = hashlib.sha1(blob.encode()).hexdigest()[:10]
        p = os.path.join(VERIF, 'replays', f'{self.prop}-{tag}-{h}.json')
        with open(p, 'w') as f:
            f.write(json.dumps(obj, indent=1, default=str))
        return p

    def violation(self, tag, obj, found_input=True, signature=None):
        """Record a violation. If `signature` matches a listed known finding it is reported as
        KNOWN-FINDING instead."""
        obj = dict(obj)
        obj.setdefault('property', self.prop)
        if signature:
            obj['signature'] = signature
            for f in self.findings:
                if f.get('status') == 'finding' and f.get('signature') == signature:
                    line = f"KNOWN-FINDING: property={self.prop} {signature}: {f.get('what', '')}"
                    if line not in self.known_lines:
                        self.known_lines.append(line)
                    return False
        p = self.replay_path(tag, obj)
        self.violations.append((p, '' if found_input else ' no-failing-input-found'))
        return True

    def finish(self):
        wall = time.time() - self.t0
        ev = {'property_id': self.prop, 'tier': self.tier, 'seed': self.seed, 'level': self.level,
              'coverage': self.cov, 'assumptions': self.assumptions, 'wall_s': round(wall, 2),
              'violations': len(self.violations)}
        ev['coverage']['known_findings_reported'] = self.known_lines
        # evidence/<id>.json describes runs against /repo itself; a run against another tree (VERIF_REPO, used to
        # test the checks on mutated scratch copies) must not overwrite it
        ev_dir = os.path.join(VERIF, 'evidence') if os.path.realpath(REPO) == '/repo' else os.path.join(WORK_ROOT, 'evidence-other-tree')
        os.makedirs(ev_dir, exist_ok=True)
        with open(os.path.join(ev_dir, f'{self.prop}.json'), 'w') as f:
            json.dump(ev, f, indent=1, default=str)
        for l in self.known_lines:
            print(l)
        seen = set()
        for p, suffix in self.violations:
            if p in seen:
                continue
            seen.add(p)
            print(f'VIOLATION property={self.prop} replay={p}{suffix}')
        print(f'[{self.prop}] tier={self.tier} obligations={self.cov["obligations"]} discharged={self.cov["discharged"]} '
              f'evaluations={self.cov["evaluations"]} nontrivial={self.cov["distinct_nontrivial"]} '
              f'violations={len(seen)} known={len(self.known_lines)} wall={wall:.1f}s')
        sys.exit(1 if seen else 0)

    # ---- standard proof step -----------------------------------------------------------
    def proof_step(self, files, extra_trusted=()):
        """Build the theory files (dependency order, property file last); fill proof coverage;
        returns the check_props dict (plus 'hygiene': forbidden vernacular found in those files)."""
        with CoqLock():
            res = check_props(files)
        bad = hygiene(files)
        n = len([t for t in res['theorems']])
        self.cov['obligations'] += n + 1       # +1: hygiene obligation (no Admitted/axioms/unchecked)
        cmd = f'cd {COQ} && ' + (res['cmd'] or 'coqc -Q theories Tally theories/' + files[-1]) + '  (coqc 8.16.1, full .vo)'
        self.cov['checker_cmd'] = (self.cov['checker_cmd'] + ' ;; ' + cmd) if self.cov.get('checker_cmd') else cmd
        tb = list(self.cov.get('trusted_base') or [])
        if not tb:
            tb.append('Coq 8.16.1 kernel + coqc; vm_compute for closed computations; no native_compute')
        tb.append(f'Print Assumptions ({files[-1]}): ' + json.dumps(res['assumptions']))
        tb += [t for t in extra_trusted if t not in tb]
        self.cov['trusted_base'] = tb
        if res['ok']:
            self.cov['discharged'] += n
        if not bad:
            self.cov['discharged'] += 1
        res['hygiene'] = bad
        if self.tier == 'thorough' and res['ok']:
            # independent re-check of the compiled property file and everything it depends on
            mod = 'Tally.' + files[-1][:-2].replace('/', '.')
            with CoqLock():
                p = subprocess.run(['timeout', '3000', 'coqchk', '-silent', '-o', '-Q', 'theories', 'Tally', mod],
                                   cwd=COQ, capture_output=True, text=True)
            out = p.stdout + p.stderr
            m = re.search(r'\* Axioms:(.*?)\* Constants/Inductives relying on type-in-type:(.*?)\* Constants/Inductives relying on unsafe'
                          r'.*?:(.*?)\* Inductives whose positivity is assumed:(.*)', out, re.S)
            summary = {'rc': p.returncode}
            if m:
                summary.update({'axioms': ' '.join(m.group(1).split()), 'type_in_type': ' '.join(m.group(2).split()),
                                'unsafe_fixpoints': ' '.join(m.group(3).split()), 'assumed_positivity': ' '.join(m.group(4).split())})
            else:
                summary['output_tail'] = out[-400:]
            self.cov['coqchk'] = summary
            self.cov['obligations'] += 1
            clean = p.returncode == 0 and m and all(summary[k] == '<none>' for k in ('type_in_type', 'unsafe_fixpoints', 'assumed_positivity'))
            if clean and summary['axioms'] != '<none>':
                foreign = [a for a in summary['axioms'].split()
                           if not a.startswith(('Coq.Numbers.Cyclic.Int63.PrimInt63.', 'Coq.Floats.PrimFloat.'))
                           and a.split('.')[-1] not in STDLIB_AXIOMS]
                summary['non_primitive_axioms'] = foreign
                clean = not foreign
            if clean:
                self.cov['discharged'] += 1
            else:
                res['ok'] = False
                res['log'] += '\n[check] coqchk did not validate the development: ' + json.dumps(summary)
            self.cov['trusted_base'].append('coqchk -o ' + mod + ': ' + json.dumps(summary))
        return res


def load_known_findings(prop):
    """Committed known findings: /verif/known_findings.jsonl and /verif/known_findings.d/*.jsonl
    (one JSON object per line: property, status finding|fixed, signature, what, ...). Never written at run time."""
    import glob
    out = []
    paths = [os.path.join(VERIF, 'known_findings.jsonl')] + sorted(glob.glob(os.path.join(VERIF, 'known_findings.d', '*.jsonl')))
    for p in paths:
        if not os.path.exists(p):
            continue
        for line in open(p):
            line = line.strip()
            if line and not line.startswith('#'):
                r = json.loads(line)
                if r.get('property') == prop:
                    out.append(r)
    return out
