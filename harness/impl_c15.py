"""C15 implementation runner: runs tally's real commands (`tally up --migrate`, `tally init`,
`tally update --yes`, through tally.cli.main) on real temp trees under an effect-recording shim that
can kill the process (os._exit) or raise OSError at any single file-system step, then observes the
tree with the real load_config / _check_merchant_migration / `tally up --format json`, directly and
after re-running the command.  Every run happens in a forked child, so process state never leaks.

stdin: {"jobs": [{"id", "root", "tree": {rel: text|null}, "cmd": "up|init|update",
                  "scenarios": [{"mode": "trace|crash|fault", "k": int, "n": int}], "cli": bool}]}
stdout: {"results": [{"id", "scenarios": [{...}]}]}
"""
import builtins
import errno
import hashlib
import io
import json
import os
import shutil
import sys

# ---------------------------------------------------------------------------------------------
# effect shim
# ---------------------------------------------------------------------------------------------
_real = {}


class Shim:
    """Counts file-system write effects under `root`.  Effect number `k` (0-based) is cut after `n`
    characters (writes) or not performed at all (everything else); then the process dies (crash) or
    the call raises OSError (fault)."""

    def __init__(self, root, mode='trace', k=-1, n=0, report=None, exdev=False):
        self.root = os.path.realpath(root)
        self.mode, self.k, self.n = mode, k, n
        self.trace = []
        self.depth = 0
        self.report = report      # callable(trace) used just before os._exit
        self.injected = False
        self.span = None
        self.open_files = []
        self.exdev = exdev

    def rel(self, p):
        try:
            p = os.fspath(p)
        except TypeError:
            return None
        if isinstance(p, bytes):
            p = p.decode()
        if isinstance(p, int):
            return None
        ap = os.path.normpath(os.path.join(os.getcwd(), p))
        rp = os.path.realpath(os.path.dirname(ap))
        ap2 = os.path.join(rp, os.path.basename(ap))
        if ap2 == self.root:
            return '.'
        if ap2.startswith(self.root + os.sep):
            return ap2[len(self.root) + 1:]
        return None

    # returns True when this effect is the injection point
    def step(self, eff):
        idx = len(self.trace)
        self.trace.append(eff)
        return self.mode in ('crash', 'fault') and idx == self.k and not self.injected

    def die_or_raise(self):
        self.injected = True
        if self.mode == 'crash':
            for w in list(self.open_files):      # what an early / torn flush had already made durable
                try:
                    w._flush_prefix(self.n)
                except Exception:
                    pass
            if self.report:
                self.report(self.trace)
            os._exit(17)
        raise OSError(errno.EIO, 'C15 injected I/O error')


class FileWrap:
    """Write handle with Python's buffering made explicit: write() only fills the buffer, the data
    reaches the disk when the file is closed (flush).  At the injection point the first `n`
    characters of everything buffered so far (including the write in flight) are made durable -
    n = 0 is the usual case for a small file, the other cuts are early or torn flushes."""

    def __init__(self, shim, f, rel):
        self._s, self._f, self._rel, self._closed = shim, f, rel, False
        self._pending = ''
        shim.open_files.append(self)

    def _flush_prefix(self, n):
        part = self._pending[:n]
        self._pending = ''
        if part:
            self._f.write(part)
        self._f.flush()

    def write(self, data):
        s = self._s
        if not isinstance(data, str):
            data = data.decode('latin-1')
        inject = s.step(['W', self._rel, data])
        self._pending += data
        if inject:
            self._flush_prefix(s.n)
            if s.mode == 'fault':
                # the rest of the buffer is lost; the `with` block will still close the file
                s.injected = True
                raise OSError(errno.EIO, 'C15 injected I/O error')
            s.die_or_raise()
        return len(data)

    def writelines(self, lines):
        for l in lines:
            self.write(l)

    def flush(self):
        pass          # tally never calls flush(); an explicit flush would be its own effect

    def close(self):
        if self._closed:
            return
        self._closed = True
        s = self._s
        if self in s.open_files:
            s.open_files.remove(self)
        if s.step(['C', self._rel]):
            self._flush_prefix(s.n)
            if s.mode == 'fault':
                s.injected = True
                self._f.close()
                raise OSError(errno.EIO, 'C15 injected I/O error')
            s.die_or_raise()
        self._flush_prefix(len(self._pending))
        self._f.close()

    def __enter__(self):
        return self

    def __exit__(self, *a):
        self.close()
        return False

    def __iter__(self):
        return iter(self._f)

    def __getattr__(self, name):
        return getattr(self._f, name)


def install(shim):
    ropen = builtins.open
    _real['open'] = ropen

    def s_open(file, mode='r', *a, **kw):
        rel = shim.rel(file) if not isinstance(file, int) else None
        writing = any(c in mode for c in 'wax+')
        if rel is None or not writing or shim.depth:
            return ropen(file, mode, *a, **kw)
        kind = 'T' if 'w' in mode else ('A' if 'a' in mode else 'X:open-' + mode)
        if shim.step([kind, rel]):
            shim.die_or_raise()
        shim.depth += 1
        try:
            f = ropen(file, mode, *a, **kw)
        finally:
            shim.depth -= 1
        return FileWrap(shim, f, rel)

    builtins.open = s_open
    io.open = s_open

    def wrap(mod, name, label, nargs):
        real = getattr(mod, name)
        _real[mod.__name__ + '.' + name] = real

        def w(*a, **kw):
            dfd = kw.get('dir_fd')
            if dfd is not None and a:
                # fd-relative call (shutil.rmtree): name the entry by its real path
                try:
                    rels = [shim.rel(os.path.join(os.readlink('/proc/self/fd/%d' % dfd), os.fspath(a[0])))]
                except OSError:
                    rels = [None]
            else:
                rels = [shim.rel(x) for x in a[:nargs]]
            if shim.depth or all(r is None for r in rels):
                return real(*a, **kw)
            if shim.step([label] + [r if r is not None else '<outside>' for r in rels]):
                shim.die_or_raise()
            shim.depth += 1
            try:
                return real(*a, **kw)
            finally:
                shim.depth -= 1
        setattr(mod, name, w)

    if not shim.exdev:
        wrap(shutil, 'move', 'M', 2)
    else:
        # ./tally lives on another file system: rename(2) gives EXDEV and shutil.move falls back to
        # copytree + rmtree.  The move is then NOT one step: its mkdir / per-file copy / rmtree steps are
        # recorded (and interrupted) one by one.
        real_move = shutil.move
        _real['shutil.move'] = real_move

        def x_move(src, dst, *a, **kw):
            rels = [shim.rel(src), shim.rel(dst)]
            if shim.depth or all(r is None for r in rels):
                return real_move(src, dst, *a, **kw)
            if shim.step(['Mx'] + [r if r is not None else '<outside>' for r in rels]):
                shim.die_or_raise()
            return real_move(src, dst, *a, **kw)       # depth stays 0: the fallback's steps are recorded
        shutil.move = x_move
    wrap(os, 'makedirs', 'D', 1)
    for name, n in (('rename', 2), ('replace', 2), ('remove', 1), ('unlink', 1), ('rmdir', 1), ('mkdir', 1),
                    ('truncate', 1), ('link', 2), ('symlink', 2)):
        wrap(os, name, 'X:os.' + name, n)
    for name, n in (('copy', 2), ('copy2', 2), ('copyfile', 2)):
        wrap(shutil, name, 'X:shutil.' + name, n)
    # shutil.copytree / shutil.rmtree are never ONE step: when tally calls them (or shutil.move falls back to them
    # across devices) their mkdir / per-file copy / unlink / rmdir calls are recorded and interrupted one by one.
    # (Inside a same-device shutil.move - one rename - nothing nested is recorded.)
    if True:
        wrapped_rename = os.rename

        def x_rename(src, dst, *a, **kw):
            if not shim.depth and (shim.rel(src) is not None or shim.rel(dst) is not None):
                raise OSError(errno.EXDEV, 'Invalid cross-device link')
            return wrapped_rename(src, dst, *a, **kw)
        if shim.exdev:
            os.rename = x_rename
        real_copyfile = _real['shutil.copyfile']

        def x_copyfile(src, dst, *a, **kw):
            rels = [shim.rel(src), shim.rel(dst)]
            if shim.depth or all(r is None for r in rels):
                return real_copyfile(src, dst, *a, **kw)
            if shim.step(['CP'] + [r if r is not None else '<outside>' for r in rels]):
                if shim.n > 0:                       # the copy had got this far
                    with _real['open'](src, 'rb') as fi, _real['open'](dst, 'wb') as fo:
                        fo.write(fi.read()[:shim.n])
                shim.die_or_raise()
            shim.depth += 1
            try:
                return real_copyfile(src, dst, *a, **kw)
            finally:
                shim.depth -= 1
        shutil.copyfile = x_copyfile
    real_os_open = os.open
    _real['os.open'] = real_os_open

    def s_os_open(path, flags, *a, **kw):
        rel = shim.rel(path)
        if rel is not None and not shim.depth and flags & (os.O_WRONLY | os.O_RDWR | os.O_CREAT | os.O_TRUNC | os.O_APPEND):
            if shim.step(['X:os.open', rel]):
                shim.die_or_raise()
        return real_os_open(path, flags, *a, **kw)
    os.open = s_os_open

    # the migration functions' extent inside the command's effect trace
    from tally import cli
    mods = [cli]
    try:
        import tally.commands.init as cinit
        mods.append(cinit)
    except Exception:
        pass

    def span(fn):
        def w(*a, **kw):
            start = len(shim.trace)
            shim.span = [start, None]
            try:
                return fn(*a, **kw)
            finally:
                shim.span = [start, len(shim.trace)]
        return w
    for name in ('_migrate_csv_to_rules', 'migrate_v0_to_v1'):
        real = getattr(cli, name)
        wrapped = span(real)
        for m in mods:
            if getattr(m, name, None) is real:
                setattr(m, name, wrapped)


# ---------------------------------------------------------------------------------------------
# helpers
# ---------------------------------------------------------------------------------------------
def materialise(root, tree):
    if os.path.exists(root):
        shutil.rmtree(root)
    os.makedirs(root)
    for rel in sorted(tree):
        p = os.path.join(root, rel)
        if tree[rel] is None:
            os.makedirs(p, exist_ok=True)
        else:
            os.makedirs(os.path.dirname(p), exist_ok=True)
            with open(p, 'w', encoding='utf-8', newline='') as f:
                f.write(tree[rel])


def snapshot(root):
    out = {}
    for d, dirs, files in os.walk(root):
        for x in dirs:
            out[os.path.relpath(os.path.join(d, x), root)] = None
        for x in files:
            p = os.path.join(d, x)
            with open(p, 'r', encoding='utf-8', newline='') as f:
                out[os.path.relpath(p, root)] = f.read()
    return out


def in_child(fn):
    """Run fn(send) in a forked child; returns (exit_status, last json object sent or None)."""
    r, w = os.pipe()
    sys.stdout.flush()
    sys.stderr.flush()
    pid = os.fork()
    if pid == 0:
        code = 0
        try:
            os.close(r)
            wf = os.fdopen(w, 'w')

            def send(obj):
                wf.write(json.dumps(obj) + '\n')
                wf.flush()
            fn(send)
            wf.flush()
        except BaseException as e:  # noqa
            try:
                import traceback
                sys.__stderr__.write('child failure: ' + ''.join(traceback.format_exception(type(e), e, e.__traceback__))[-1500:])
            except Exception:
                pass
            code = 3
        finally:
            os._exit(code)
    os.close(w)
    with os.fdopen(r) as rf:
        data = rf.read()
    _, status = os.waitpid(pid, 0)
    last = None
    for line in data.splitlines():
        if line.strip():
            last = json.loads(line)
    return os.waitstatus_to_exitcode(status), last


def quiet_io():
    sys.stdout = io.StringIO()
    sys.stderr = io.StringIO()
    return sys.stdout


def call_cli(argv):
    """tally.cli.main() with the given argv; returns (exit code or exception class, stdout text)."""
    from tally import cli
    try:
        import tally.commands.update as upd
        upd.get_latest_release_info = lambda **kw: None      # no network in the check
    except Exception:
        pass
    out = quiet_io()
    sys.argv = ['tally'] + argv
    os.environ.pop('TALLY_CONFIG', None)
    code = 0
    try:
        cli.main()
    except SystemExit as e:
        code = e.code if isinstance(e.code, int) else (0 if e.code is None else 1)
    except BaseException as e:  # noqa
        code = 'raise:' + type(e).__name__
    return code, out.getvalue()


def cmd_argv(cmd, root):
    if cmd == 'up':
        return [ 'up', os.path.join(root, 'config'), '--migrate', '-q', '--format', 'json'], None
    if cmd == 'init':
        return ['init', root], os.path.dirname(root)
    if cmd == 'update':
        return ['update', '--yes'], root
    raise ValueError(cmd)


def classification(stdout):
    """merchant -> [category, subcategory, sorted tags, total] from `tally up --format json`."""
    i = stdout.find('{')
    if i < 0:
        return None
    try:
        js = json.loads(stdout[i:])
    except ValueError:
        try:
            js, _ = json.JSONDecoder().raw_decode(stdout[i:])
        except ValueError:
            return None
    return sorted([m['name'], m['category'], m['subcategory'], sorted(m.get('tags') or []), m['total']]
                  for m in js.get('merchants', []))


def run_command(cmd, root, mode, k, n, exdev=False):
    """First (possibly interrupted) run of the command under the shim, in a child."""
    argv, cwd = cmd_argv(cmd, root)

    def body(send):
        if cwd:
            os.chdir(cwd)
        shim = Shim(root, mode, k, n, report=lambda tr: send({'trace': tr, 'crashed': True}), exdev=exdev)
        install(shim)
        code, out = call_cli(argv)
        send({'trace': shim.trace, 'crashed': False, 'exit': code, 'injected': shim.injected, 'span': shim.span,
              'inrun': classification(out) if cmd == 'up' else None,
              'stdout_tail': out[-300:] if code not in (0,) else ''})
    status, res = in_child(body)
    if res is None:
        res = {'trace': None, 'crashed': None, 'child_status': status}
    res['child_status'] = status
    return res


def canon_rules(rules):
    out = []
    for r in rules:
        out.append([r[0], r[1], r[2], r[3], sorted(r[6]) if len(r) > 6 and r[6] else []])
    return out


def observe(cmd, root, cli_too):
    """What the budget does now: load_config + _check_merchant_migration (no migration), and `tally up`."""
    def body(send):
        from tally.config_loader import load_config
        from tally import cli
        quiet_io()
        os.environ.pop('TALLY_CONFIG', None)
        res = {}
        try:
            if cmd == 'update':
                os.chdir(root)
                cd = cli.find_config_dir()
                res['config_dir'] = os.path.relpath(cd, root) if cd else None
            else:
                cd = os.path.join(root, 'config')
                res['config_dir'] = 'config'
            if cd is None:
                raise FileNotFoundError('no config dir')
            config = load_config(cd)
            mfile = config.get('_merchants_file')
            res['format'] = config.get('_merchants_format')
            res['file'] = os.path.relpath(mfile, root) if mfile else None
            rules = cli._check_merchant_migration(config, cd, True, False)
            res['rules'] = canon_rules(rules)
            # the statement file as cmd_run resolves it
            data = None
            for src in config.get('data_sources', []):
                fp = os.path.normpath(os.path.join(cd, '..', src['file']))
                if not os.path.exists(fp):
                    fp = os.path.join(os.path.dirname(cd), src['file'])
                if os.path.exists(fp):
                    with open(fp, encoding='utf-8', newline='') as f:
                        data = f.read()
            res['data'] = data
        except BaseException as e:  # noqa
            res['error'] = type(e).__name__
        send(res)
    _, res = in_child(body)
    res = res or {'error': 'child-died'}
    if cli_too:
        def body2(send):
            if cmd == 'update':
                os.chdir(root)
                argv = ['up', '-q', '--format', 'json']
            else:
                argv = ['up', os.path.join(root, 'config'), '-q', '--format', 'json']
            code, out = call_cli(argv)
            send({'exit': code, 'classification': classification(out)})
        _, r2 = in_child(body2)
        res['up'] = r2 or {'exit': 'child-died', 'classification': None}
    return res


def rules_of_text(kind, text, workdir):
    """Rules the real loaders read from a text (reference for 'the user's rules')."""
    def body(send):
        from tally.merchant_utils import get_all_rules
        quiet_io()
        os.makedirs(workdir, exist_ok=True)
        p = os.path.join(workdir, 'ref.rules' if kind == 'new' else 'ref.csv')
        with open(p, 'w', encoding='utf-8', newline='') as f:
            f.write(text)
        try:
            send({'rules': canon_rules(get_all_rules(p))})
        except BaseException as e:  # noqa
            send({'error': type(e).__name__})
    _, res = in_child(body)
    return res or {'error': 'child-died'}


def pending_before(trace):
    """for every step index: (open file, [data written to it so far and not yet closed])"""
    out, rel, pieces = [], None, []
    for e in trace:
        out.append((rel, list(pieces)))
        if e[0] in ('T', 'A'):
            rel, pieces = e[1], []
        elif e[0] == 'W' and e[1] == rel:
            pieces.append(e[2])
        elif e[0] == 'C' and e[1] == rel:
            rel, pieces = None, []
    out.append((rel, list(pieces)))
    return out


def tree_key(tree):
    return hashlib.sha1(json.dumps(tree, sort_keys=True).encode()).hexdigest()


def run_job(job):
    root0 = job['root']
    cmd = job['cmd']
    exdev = bool(job.get('exdev'))
    out = []
    obs_cache = {}
    rerun_cache = {}

    def obs(root, tree):
        key = tree_key(tree)
        if key not in obs_cache:
            obs_cache[key] = observe(cmd, root, job.get('cli', False))
        return obs_cache[key]

    root = os.path.join(root0, 'init', 'b')
    materialise(root, job['tree'])
    initial = obs(root, snapshot(root))
    scenarios = job['scenarios']
    pre = {}
    if scenarios == 'auto':
        root = os.path.join(root0, 's0', 'b')
        materialise(root, job['tree'])
        tr = run_command(cmd, root, 'trace', -1, 0, exdev)
        pre[0] = tr
        scenarios = [{'mode': 'trace'}]
        sp = tr.get('span')
        if sp and sp[1] is not None and tr.get('trace') is not None:
            a, b = sp
            cuts = job.get('cuts', {})
            pend = pending_before(tr['trace'])

            def cum_cuts(pieces):
                out, base = {0}, 0
                for d in pieces:
                    for c in (cuts.get(d) or sorted({0, len(d) // 2, len(d)})):
                        out.add(base + c)
                    base += len(d)
                return sorted(out)
            for k in range(a, b):
                e = tr['trace'][k]
                rel, pieces = pend[k]
                if e[0] == 'CP':
                    src = job['tree'].get(e[1]) or ''
                    ns = sorted({0, len(src) // 2})      # not begun / half copied (complete = the next step)
                elif e[0] == 'W':
                    base = sum(len(d) for d in pieces)
                    ns = [base + c for c in (cuts.get(e[2]) or sorted({0, len(e[2]) // 2, len(e[2])}))]
                elif pieces:
                    # a file is open with buffered data while this step runs: nothing flushed yet (the usual
                    # case for a small file), one torn flush, everything flushed
                    cc = cum_cuts(pieces)
                    ns = sorted({cc[0], cc[len(cc) // 2], cc[-1]}) if not job.get('all_cuts') else cc
                else:
                    ns = [0]
                for n in ns:
                    scenarios.append({'mode': 'crash', 'k': k, 'n': n})
                    scenarios.append({'mode': 'fault', 'k': k, 'n': n})
            scenarios.append({'mode': 'crash', 'k': b, 'n': 0})
    for i, sc in enumerate(scenarios):
        root = os.path.join(root0, 's%d' % i, 'b')
        if i in pre:
            first = pre[i]
        else:
            materialise(root, job['tree'])
            first = run_command(cmd, root, sc['mode'], sc.get('k', -1), sc.get('n', 0), exdev)
        t1 = snapshot(root)
        r = {'mode': sc['mode'], 'k': sc.get('k', -1), 'n': sc.get('n', 0), 'first': first, 'tree': t1,
             'observe': obs(root, t1)}
        key = tree_key(t1)
        if job.get('keep'):
            shutil.copytree(root, root + '.interrupted-state', dirs_exist_ok=True)
        if key not in rerun_cache:
            again = run_command(cmd, root, 'trace', -1, 0, exdev)
            t2 = snapshot(root)
            rerun_cache[key] = {'run': again, 'tree': t2, 'observe': obs(root, t2)}
        r['rerun'] = rerun_cache[key]
        out.append(r)
        if not job.get('keep'):
            shutil.rmtree(os.path.dirname(root), ignore_errors=True)
    if not job.get('keep'):
        shutil.rmtree(root0, ignore_errors=True)
    return {'id': job['id'], 'scenarios': out, 'initial': initial}


def main():
    payload = json.load(sys.stdin)
    if payload.get('op') == 'oracle':
        # text-level facts the model takes as oracles, computed with the real libraries
        import yaml
        res = {}
        for key, text in payload['texts'].items():
            try:
                d = yaml.safe_load(text)
                v = d.get('merchants_file') if isinstance(d, dict) else '<not-a-mapping>'
                mf = {'kind': 'err'} if not isinstance(d, dict) else ({'kind': 'none'} if not v else {'kind': 'key', 'value': v})
            except Exception as e:  # noqa
                mf = {'kind': 'err', 'exc': type(e).__name__}
            res[key] = {'mf': mf, 'has_sub': 'merchants_file:' in text, 'has_vsub': 'views_file:' in text}
        conv = {}
        from tally.merchant_engine import csv_to_merchants_content
        from tally.merchant_utils import load_merchant_rules
        wd = payload['workdir']
        os.makedirs(wd, exist_ok=True)
        for key, text in payload.get('csvs', {}).items():
            p = os.path.join(wd, 'c.csv')
            with open(p, 'w', encoding='utf-8', newline='') as f:
                f.write(text)
            rules = load_merchant_rules(p)
            lines = False
            for line in text.splitlines():
                line = line.strip()
                if line and not line.startswith('#') and not line.startswith('Pattern,'):
                    lines = True
                    break
            conv[key] = {'conv': csv_to_merchants_content(rules), 'nrules': len(rules), 'rule_lines': lines}
        from tally import cli
        import datetime
        starters = {'settings': cli.STARTER_SETTINGS.format(year=datetime.datetime.now().year),
                    'merchants': cli.STARTER_MERCHANTS, 'views': cli.STARTER_VIEWS}
        refs = {k: rules_of_text(v['kind'], v['text'], wd) for k, v in payload.get('refs', {}).items()}
        json.dump({'texts': res, 'csvs': conv, 'starters': starters, 'refs': refs}, sys.stdout)
        return
    # import everything once, before any fork
    import tally.cli, tally.config_loader, tally.merchant_utils, tally.merchant_engine, tally.analyzer  # noqa
    import tally.commands  # noqa
    for m in ('init', 'run', 'update'):
        __import__('tally.commands.' + m)
    results = [run_job(j) for j in payload['jobs']]
    json.dump({'results': results}, sys.stdout)


main()
