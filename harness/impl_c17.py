"""Runs tally's two section-file parsers and the rules loaders on given texts (executed by
/venv/bin/python with PYTHONPATH=$VERIF_REPO/src).

stdin  JSON {m: [text…], v: [text…], exprs: [expr…], load: [{text, dir}…]}
stdout JSON {m: [result…], v: [result…], exprs: [true|false|"other:<Type>"…], load: [result…]}

merchants result: {ok: true, rules: [[name, match, category, subcategory, merchant, sorted tags, priority,
                   line, [[let name, expr]…], [[field, expr]… dict order]]…], vars: [[k, v]… dict order],
                   transforms: [[lhs, rhs]…]}
                | {ok: false, line: n}            (MerchantParseError)
                | {exc: "<TypeName>"}             (anything else escaping)
views result:     {ok: true, globals: [[k, v]…], views: [[name, filter, description|null, [[k, v]…], line]…]}
                | {ok: false, line: n}            (SectionParseError)  | {exc: …}
"""
import contextlib
import io
import json
import os
import sys
import warnings

from tally import expr_parser
from tally.merchant_engine import MerchantParseError, parse_merchants
from tally.section_engine import SectionParseError, parse_sections


def run_m(text, mode=None):
    try:
        e = parse_merchants(text) if mode is None else parse_merchants(text, match_mode=mode)
    except MerchantParseError as x:
        return {'ok': False, 'line': x.line_number}
    except Exception as x:  # noqa
        return {'exc': type(x).__name__}
    rules = []
    for r in e.rules:
        rules.append([r.name, r.match_expr, r.category, r.subcategory, r.merchant, sorted(r.tags), r.priority,
                      r.line_number, [list(b) for b in r.let_bindings], [[k, v] for k, v in r.fields.items()]])
    return {'ok': True, 'rules': rules, 'vars': [[k, v] for k, v in e.variables.items()],
            'transforms': [list(t) for t in e.transforms]}


def run_v(text):
    try:
        c = parse_sections(text)
    except SectionParseError as x:
        return {'ok': False, 'line': x.line_number}
    except Exception as x:  # noqa
        return {'exc': type(x).__name__}
    return {'ok': True, 'globals': [[k, v] for k, v in c.global_variables.items()],
            'views': [[s.name, s.filter_expr, s.description, [[k, v] for k, v in s.variables.items()], s.line_number]
                      for s in c.sections]}


def run_expr(e):
    try:
        expr_parser.parse_expression(e)
        return True
    except expr_parser.ExpressionError:
        return False
    except Exception as x:  # noqa
        return 'other:' + type(x).__name__


def run_load(job):
    """API level: merchant_utils.get_all_rules / get_transforms / get_tag_only_rules on a file holding `text`.
    Each loader is called on its own (engine cache and report memory cleared first); for each: the value
    returned, an escaping exception, and whatever reached the user (warnings, stdout, stderr)."""
    from tally import merchant_utils
    os.makedirs(job['dir'], exist_ok=True)
    path = os.path.join(job['dir'], 'merchants.rules')
    with open(path, 'w', encoding='utf-8', newline='') as f:
        f.write(job['text'])
    out = {}

    def call(tag, fn, conv):
        buf_o, buf_e = io.StringIO(), io.StringIO()
        with warnings.catch_warnings(record=True) as w, contextlib.redirect_stdout(buf_o), contextlib.redirect_stderr(buf_e):
            warnings.simplefilter('always')
            merchant_utils.clear_engine_cache()
            try:
                out[tag] = conv(fn(path))
            except Exception as x:  # noqa
                out[tag + '_exc'] = type(x).__name__
                out[tag + '_exc_line'] = getattr(x, 'line_number', None)
        out[tag + '_said'] = [str(x.message) for x in w] + [t for t in (buf_o.getvalue(), buf_e.getvalue()) if t.strip()]
    call('transforms', merchant_utils.get_transforms, lambda tr: [list(t) for t in tr])
    call('rules', merchant_utils.get_all_rules, lambda rules: [r[1] for r in rules])
    call('tag_rules', merchant_utils.get_tag_only_rules, lambda rs: [r.name for r in rs])
    return out


def run_load_seq(job):
    """ONE process, ONE path: the file is rewritten with each text in turn and the three loaders are called on it
    (rotating order) WITHOUT clearing the engine cache / report memory in between (cleared once at the start).
    Per step: the parse error text of the file (None if it loads) - used by the harness only to tell whether this
    error was already shown earlier in the sequence - and everything that reached the user during the step."""
    from tally import merchant_utils
    os.makedirs(job['dir'], exist_ok=True)
    path = os.path.join(job['dir'], 'merchants.rules')
    merchant_utils.clear_engine_cache()
    loaders = [('transforms', merchant_utils.get_transforms), ('rules', merchant_utils.get_all_rules),
               ('tag_rules', merchant_utils.get_tag_only_rules)]
    steps = []
    for k, text in enumerate(job['texts']):
        with open(path, 'w', encoding='utf-8', newline='') as f:
            f.write(text)
        try:
            parse_merchants(text)
            err = None
        except MerchantParseError as x:
            err = str(x)
        except Exception as x:  # noqa
            err = 'other:' + type(x).__name__
        st = {'err': err, 'said': [], 'values': {}, 'exc': {}}
        order = loaders[k % 3:] + loaders[:k % 3]
        if job.get('only'):
            order = [l for l in order if l[0] in job['only']]
        for tag, fn in order:
            buf_o, buf_e = io.StringIO(), io.StringIO()
            with warnings.catch_warnings(record=True) as w, contextlib.redirect_stdout(buf_o), contextlib.redirect_stderr(buf_e):
                warnings.simplefilter('always')
                try:
                    v = fn(path)
                    st['values'][tag] = len(v)
                except Exception as x:  # noqa
                    st['exc'][tag] = type(x).__name__
            st['said'] += [str(x.message) for x in w] + [t for t in (buf_o.getvalue(), buf_e.getvalue()) if t.strip()]
        steps.append(st)
    return steps


def run_load_ops(job):
    """ONE process: a list of operations {op: load, path: k, text, loader: rules|transforms|tag_rules} / {op: clear}.
    Nothing is cleared implicitly (only once before the first operation).  Per load: the parse error text of the file
    (None if it loads; the harness uses it only as the identity of the error) and whether anything reached the user."""
    from tally import merchant_utils
    os.makedirs(job['dir'], exist_ok=True)
    merchant_utils.clear_engine_cache()
    fns = {'transforms': merchant_utils.get_transforms, 'rules': merchant_utils.get_all_rules,
           'tag_rules': merchant_utils.get_tag_only_rules}
    out = []
    for op in job['ops']:
        if op['op'] == 'clear':
            merchant_utils.clear_engine_cache()
            out.append({'op': 'clear'})
            continue
        path = os.path.join(job['dir'], 'm%d.rules' % op['path'])
        with open(path, 'w', encoding='utf-8', newline='') as f:
            f.write(op['text'])
        try:
            parse_merchants(op['text'])
            err = None
        except MerchantParseError as x:
            err = str(x)
        except Exception as x:  # noqa
            err = 'other:' + type(x).__name__
        buf_o, buf_e = io.StringIO(), io.StringIO()
        exc = None
        with warnings.catch_warnings(record=True) as w, contextlib.redirect_stdout(buf_o), contextlib.redirect_stderr(buf_e):
            warnings.simplefilter('always')
            try:
                fns[op['loader']](path)
            except Exception as x:  # noqa
                exc = type(x).__name__
        said = bool(w) or bool(buf_o.getvalue().strip()) or bool(buf_e.getvalue().strip())
        out.append({'op': 'load', 'path': op['path'], 'err': err, 'said': said, 'exc': exc})
    return out


def main():
    p = json.load(sys.stdin)
    res = {'m': [run_m(t) for t in p.get('m', [])],
           'v': [run_v(t) for t in p.get('v', [])],
           'exprs': [run_expr(e) for e in p.get('exprs', [])],
           'load': [run_load(j) for j in p.get('load', [])],
           'm_ms': [run_m(t, 'most_specific') for t in p.get('m_ms', [])],
           'load_seq': [run_load_seq(j) for j in p.get('load_seq', [])],
           'load_ops': [run_load_ops(j) for j in p.get('load_ops', [])]}
    json.dump(res, sys.stdout)


main()
