"""Generator of whole budget directories + fresh-process CLI runners, shared by C11 and C16.

A *budget spec* is a JSON-serialisable dict (so that a replay file can rebuild the directory):

  {'year': 2025, 'rule_mode': None|'first_match'|'most_specific',
   'sources': [ {'name','file','cols':[...], 'datefmt', 'delimiter': None|';'|'tab'|'|',
                 'has_header': None|True|False, 'file_header': bool, 'decimal_separator': None|'.'|',',
                 'file_decimal': '.'|',', 'file_delim': ','|';'|'\t'|'|', 'file_datefmt', 'file_cols',
                 'sign': ''|'-'|'+', 'negate_amount': None|True, 'supplemental': bool,
                 'state': 'present'|'missing'|'dir'|'badutf8',
                 'rows': [ {'d':'YYYY-MM-DD','desc':str,'q':int (amount = q/4),'kind':str,'loc':str,
                            'style':'plain'|'dollar'|'paren'|'thousands', 'bad': None|'date'|'short'|'noamount'|'nodesc'} ]} ],
   'rules': {'kind': 'rules'|'csv'|'none', 'variables': [[name, expr]], 'transforms': [[lhs, expr]],
             'rules': [ {'name','match','category','subcategory','merchant','tags':[..],'let':[[n,e]],'field':[[n,e]],'priority'} ],
             'csv': [ [pattern, merchant, category, subcategory, tags] ]},
   'views': None | [ [name, filter] ] }

`file_*` keys say how the data file is *written*; the other keys say what settings.yaml *claims*. The generator
keeps them consistent; the metamorphic toggles change only the setting (or only the file).
Amounts are multiples of 0.25, so every float sum is exact whatever the order of addition.
"""
import copy
import csv
import io
import json
import os
import re
import shutil
import subprocess
from concurrent.futures import ThreadPoolExecutor

from common import PY, WORK, env_impl

PAR = 4  # CLI processes in flight (hard cap from the task: <= 4 cores)

DESCS = ['NETFLIX.COM', 'NETFLIX PREMIUM 8841', 'AMZN MKTP US', 'AMZN MKTP 4411', 'SQ *COFFEE HUT', 'COFFEE ROASTERS',
         'UBER TRIP', 'UBER EATS', 'SHELL OIL 5521', 'RENT PAYMENT', 'PAYROLL ACME', 'SQ *BAKERY', 'MYSTERY SHOP',
         'BIG BOX STORE', 'COSTCO WHSE', 'COSTCO GAS', 'TRANSFER TO SAVINGS', 'GYM CLUB', 'CITY PARKING', 'ZED MART']
KINDS = ['POS', 'ACH', 'WIRE']
DATEFMTS = ['%Y-%m-%d', '%m/%d/%Y', '%d/%m/%Y', '%d.%m.%Y']
DELIMS = {None: ',', ',': ',', ';': ';', 'tab': '\t', '|': '|'}
SRC_NAMES = ['Card', 'Bank', 'Visa', 'Joint']
SUPP_NAME = 'Orders'


# ------------------------------------------------------------------ generation
def gen_rows(rnd, n, year=2025, allow_bad=True):
    rows = []
    for _ in range(n):
        q = rnd.choice([rnd.randint(1, 60), rnd.randint(1, 60), rnd.randint(61, 4000), -rnd.randint(1, 400), 100, 62, 0,
                        rnd.randint(4000, 20000)])
        r = {'d': f'{year}-{rnd.randint(1, 12):02d}-{rnd.randint(1, 28):02d}', 'desc': rnd.choice(DESCS), 'q': q,
             'kind': rnd.choice(KINDS), 'loc': rnd.choice(['', '', 'WA', 'Paris']),
             'style': rnd.choice(['plain', 'plain', 'plain', 'dollar', 'paren', 'thousands']), 'bad': None}
        if allow_bad and rnd.random() < 0.07:
            r['bad'] = rnd.choice(['date', 'short', 'noamount', 'nodesc'])
        rows.append(r)
    return rows


def gen_source(rnd, name, supplemental=False):
    if supplemental:
        cols = ['date', 'item', 'amount']
        s = {'name': name, 'file': f'data/{name.lower()}.csv', 'cols': cols, 'datefmt': '%Y-%m-%d', 'delimiter': None,
             'has_header': None, 'decimal_separator': None, 'sign': '', 'negate_amount': None, 'supplemental': True,
             'state': 'present', 'template': '{item}', 'rows': []}
    else:
        base = ['date', 'description', 'amount']
        rnd.shuffle(base)
        extra = rnd.choice([[], [], ['_'], ['kind'], ['kind', '_'], ['location']])
        cols = list(base)
        for e in extra:
            cols.insert(rnd.randint(0, len(cols)), e)
        s = {'name': name, 'file': f'data/{name.lower()}.csv', 'cols': cols, 'datefmt': rnd.choice(DATEFMTS),
             'delimiter': rnd.choice([None, None, ';', 'tab', '|', ',']), 'has_header': rnd.choice([None, True, False, False]),
             'decimal_separator': rnd.choice([None, '.', ',', ',']), 'sign': rnd.choice(['', '', '-', '+']),
             'negate_amount': rnd.choice([None, None, None, True]), 'supplemental': False, 'state': 'present', 'template': None,
             'rows': gen_rows(rnd, rnd.choice([1, 2, 3, 4, 6]))}
    sync_file_to_settings(s)
    return s


def sync_file_to_settings(s):
    """Make the way the file is written agree with what the settings claim."""
    s['file_cols'] = list(s['cols'])
    s['file_datefmt'] = s['datefmt']
    s['file_delim'] = DELIMS[s['delimiter']]
    s['file_header'] = True if s['has_header'] is None else bool(s['has_header'])
    s['file_decimal'] = s['decimal_separator'] or '.'
    return s


RULE_POOL = [
    # (name, match, category, subcategory, merchant, tags, let, field, priority)
    ('Netflix', 'contains("NETFLIX")', 'Subscriptions', 'Streaming', '', ['fun'], [], [], None),
    ('Netflix Premium', 'contains("NETFLIX") and contains("PREMIUM")', 'Subscriptions', 'Premium', '', [], [], [], None),
    ('Amazon', 'regex("AMZN\\\\s*MKTP")', 'Shopping', 'Online', '', [], [], [], None),
    ('Coffee', 'contains("COFFEE")', 'Food', 'Cafe', '', ['treat'], [], [], None),
    ('Uber Eats', 'normalized("UBEREATS")', 'Food', 'Delivery', '', [], [], [], None),
    ('Uber', 'startswith("UBER")', 'Transport', 'Rides', '', [], [], [], None),
    ('Fuel', 'anyof("SHELL", "COSTCO GAS")', 'Transport', 'Fuel', 'Gas Station', [], [], [], None),
    ('Rent', 'contains("RENT") and amount > 100', 'Housing', 'Rent', '', ['fixed'], [], [], None),
    ('Payroll', 'contains("PAYROLL")', 'Income', 'Salary', '', ['income'], [], [], None),
    ('Savings', 'contains("TRANSFER")', 'Transfers', 'Savings', '', ['transfer'], [], [], None),
    ('Costco Big', 'contains("COSTCO") and amount > 200', 'Shopping', 'Bulk', 'Costco', [], [], [], None),
    ('Costco', 'contains("COSTCO")', 'Groceries', 'Warehouse', '', [], [], [], None),
    ('Refunds', 'amount < 0', 'Refunds', 'Credit', '', ['refund'], [], [], None),
    ('Not Coffee Square', 'not contains("COFFEE") and contains("SQ ")', 'Food', 'Bakery', '', [], [], [], None),
    ('In Desc', '"GYM" in description', 'Health', 'Gym', '', [], [], [], None),
    ('Weekend', 'weekday >= 5 and contains("PARKING")', 'Transport', 'Parking', '', [], [], [], None),
    ('December', 'month == 12', 'Seasonal', 'December', '', [], [], [], None),
    ('Card Only', 'source == "Card" and contains("ZED")', 'Shopping', 'Zed', '', [], [], [], None),
    ('Wire', 'field.kind == "WIRE"', 'Banking', 'Wire', '', ['wire'], [], [], None),
    ('Let Rule', 'contains("BIG") and half > 10', 'Shopping', 'Big', '', [], [['half', 'amount / 2']], [['half_amt', 'half']], None),
    ('Prio', 'contains("MYSTERY")', 'Shopping', 'Mystery', '', [], [], [], 90),
    ('Mystery Low', 'contains("MYSTERY SHOP")', 'Fun', 'Mystery', '', [], [], [], None),
    ('Var Rule', 'is_big and contains("BOX")', 'Shopping', 'Bigbox', '', [], [], [], None),
    # names that differ only in letter case from another merchant (auto-named 'Zed Mart' / rule [Coffee])
    ('ZED MART', 'contains("ZED MART") and abs(amount) > 20', 'Shopping', 'Zedmart', '', [], [], [], None),
    ('COFFEE', 'contains("COFFEE ROASTERS")', 'Food', 'Roasters', '', [], [], [], None),
    # tag-only rules
    ('Large Tag', 'is_big', '', '', '', ['large'], [], [], None),
    ('Any Tag', 'amount > 0', '', '', '', ['debit'], [], [], None),
    ('Netflix Tag', 'contains("NETFLIX")', '', '', '', ['stream'], [], [], None),
    ('Long Tag', 'contains("AMZN MKTP US")', '', 'Tagged Sub', '', ['us'], [], [], None),
]
SUPP_RULES = [
    ('Ordered', 'contains("AMZN") and any(r.amount == amount for r in orders)', 'Shopping', 'Ordered', 'Amazon Ordered', [], [], [], None),
    ('Ordered Count', 'len([r for r in orders if r.amount == amount]) > 0', 'Shopping', 'Matched', '', ['matched'], [], [], None),
]
CSV_POOL = [
    ['NETFLIX', 'Netflix', 'Subscriptions', 'Streaming', 'fun'],
    ['AMZN\\s*MKTP', 'Amazon', 'Shopping', 'Online', ''],
    ['COFFEE', 'Coffee', 'Food', 'Cafe', 'treat|daily'],
    ['UBER\\s*EATS', 'Uber Eats', 'Food', 'Delivery', ''],
    ['UBER', 'Uber', 'Transport', 'Rides', ''],
    ['COSTCO[amount>200]', 'Costco Big', 'Shopping', 'Bulk', ''],
    ['COSTCO', 'Costco', 'Groceries', 'Warehouse', ''],
    ['RENT', 'Rent', 'Housing', 'Rent', 'fixed'],
    ['PAYROLL', 'Payroll', 'Income', 'Salary', 'income'],
    ['MYSTERY', 'Mystery', '', '', 'odd'],          # tag-only CSV row (empty category)
    ['SHELL|PARKING', 'Car', 'Transport', 'Car', ''],
]
CONFLICTS = [('Netflix', 'Netflix Premium'), ('Costco', 'Costco Big'), ('Mystery Low', 'Prio'), ('Uber', 'Uber Eats')]
VIEW_POOL = [['Subs', 'category == "Subscriptions"'], ['Big', 'total > 100'], ['Eating', 'category == "Food" or category == "Groceries"'],
             ['Frequent', 'months >= 2'], ['Tagged', '"fun" in tags']]
VARIABLES = [['is_big', 'amount > 100']]
TRANSFORMS = [['field.description', 'regex_replace(field.description, "^SQ \\\\*", "")']]


def mkrule(t):
    return {'name': t[0], 'match': t[1], 'category': t[2], 'subcategory': t[3], 'merchant': t[4], 'tags': list(t[5]),
            'let': [list(x) for x in t[6]], 'field': [list(x) for x in t[7]], 'priority': t[8]}


def gen_rules(rnd, kind, with_supp):
    r = {'kind': kind, 'variables': [], 'transforms': [], 'rules': [], 'csv': []}
    if kind == 'rules':
        k = rnd.choice([2, 3, 5, 8, 12])
        pool = [mkrule(t) for t in rnd.sample(RULE_POOL, min(k, len(RULE_POOL)))]
        if rnd.random() < 0.5:
            # a general rule BEFORE a more specific one: first_match and most_specific disagree on some description
            names = {x['name'] for x in pool}
            for gen, spec_ in rnd.sample(CONFLICTS, rnd.choice([1, 2])):
                pool = [x for x in pool if x['name'] not in (gen, spec_)]
                at = rnd.randint(0, len(pool))
                byname = {t[0]: t for t in RULE_POOL}
                pool.insert(at, mkrule(byname[spec_]))
                pool.insert(rnd.randint(0, at), mkrule(byname[gen]))
        if rnd.random() < 0.35:
            # two merchants whose names differ only in case: [ZED MART] next to the auto-named 'Zed Mart',
            # [COFFEE] in front of [Coffee]
            byname = {t[0]: t for t in RULE_POOL}
            pool = [x for x in pool if x['name'] not in ('ZED MART', 'COFFEE', 'Coffee')]
            pool.insert(rnd.randint(0, len(pool)), mkrule(byname['ZED MART']))
            at = rnd.randint(0, len(pool))
            pool.insert(at, mkrule(byname['Coffee']))
            pool.insert(rnd.randint(0, at), mkrule(byname['COFFEE']))
            r['case_pairs'] = True
        if with_supp:
            pool.insert(rnd.choice([0, 0, rnd.randint(0, len(pool))]), mkrule(rnd.choice(SUPP_RULES)))
        r['rules'] = pool
        # always define the variable (an undefined name would only make its rules fail to evaluate, which is C08's topic)
        r['variables'] = [list(v) for v in VARIABLES]
        if rnd.random() < 0.5:
            r['transforms'] = [list(v) for v in TRANSFORMS]
    elif kind == 'csv':
        r['csv'] = [list(x) for x in rnd.sample(CSV_POOL, rnd.choice([2, 4, 7]))]
    return r


def gen_budget(rnd, profile=None):
    """profile: None (mixed) | 'nosupp' | 'supp'."""
    n = rnd.choice([1, 2, 2, 3, 4])
    names = rnd.sample(SRC_NAMES, n)
    want_supp = (profile == 'supp') or (profile is None and rnd.random() < 0.4)
    kind = rnd.choice(['rules', 'rules', 'rules', 'csv', 'none'])
    if want_supp and (profile == 'supp' or kind != 'rules'):
        kind = 'rules'      # a supplemental source is only ever looked at by a .rules expression
    sources = [gen_source(rnd, nm) for nm in names]
    if n >= 2 and rnd.random() < 0.4:
        # two sources with a byte-identical `format:` string whose explicit delimiter / has_header / negate_amount differ
        i, j = rnd.sample(range(n), 2)
        a, b = sources[i], sources[j]
        b['cols'], b['datefmt'], b['sign'] = list(a['cols']), a['datefmt'], a['sign']
        what = rnd.choice(['delimiter', 'has_header', 'negate', 'all', 'all'])
        if what in ('delimiter', 'all'):
            a['delimiter'], b['delimiter'] = rnd.sample([None, ',', ';', 'tab', '|'], 2)
            if DELIMS[a['delimiter']] == DELIMS[b['delimiter']]:
                b['delimiter'] = ';' if DELIMS[a['delimiter']] != ';' else '|'
        if what in ('has_header', 'all'):
            a['has_header'], b['has_header'] = rnd.choice([(True, False), (False, True), (None, False), (False, None)])
        if what in ('negate', 'all'):
            a['negate_amount'], b['negate_amount'] = rnd.choice([(True, None), (None, True), (True, False), (False, True)])
        sync_file_to_settings(a)
        sync_file_to_settings(b)
    if n >= 2 and rnd.random() < 0.12:
        # one file per month, all called the same
        i, j = rnd.sample(range(n), 2)
        sources[j]['name'] = sources[i]['name']
        sources[j]['file'] = f"data/{sources[i]['name'].lower()}_b.csv"
    if want_supp:
        sup = gen_source(rnd, SUPP_NAME, supplemental=True)
        # supplemental rows: some amounts/dates copied from real rows so that cross-source rules fire
        allrows = [(s, r) for s in sources for r in s['rows'] if not r['bad'] and r['q']]
        for _ in range(rnd.choice([1, 2, 3])):
            if not allrows:
                break
            s0, src = rnd.choice(allrows)
            q = src['q']
            if s0['sign'] == '+':
                q = abs(q)
            elif negates(s0):
                q = -q
            sup['rows'].append({'d': src['d'], 'desc': rnd.choice(['Book', 'Cable', 'Widget 9']), 'q': q,
                                'kind': 'POS', 'loc': '', 'style': 'plain', 'bad': None})
        sources.insert(rnd.randint(0, len(sources)), sup)
    spec = {'year': 2025, 'currency_format': rnd.choice([None, None, '{amount} zl', '\u20ac{amount}']),
            'rule_mode': rnd.choice([None, 'first_match', 'most_specific', 'most_specific']), 'sources': sources,
            'rules': gen_rules(rnd, kind, want_supp),
            'views': rnd.choice([None, None, [list(v) for v in rnd.sample(VIEW_POOL, rnd.choice([1, 2, 3]))]])}
    if rnd.random() < 0.08:
        spec['layout'] = rnd.choice(['symlink', 'symlink-decoy'])
    if spec['rules'].get('case_pairs'):
        # make sure both members of each case pair really show up in the report
        tgt = rnd.choice([s for s in sources if not s['supplemental']])
        for desc, q in (('ZED MART', 200), ('ZED MART', 40), ('COFFEE ROASTERS', 30), ('SQ *COFFEE HUT', 18)):
            tgt['rows'].append({'d': f'2025-{rnd.randint(1, 12):02d}-{rnd.randint(1, 28):02d}', 'desc': desc, 'q': q, 'kind': 'POS',
                                'loc': '', 'style': 'plain', 'bad': None})
    if rnd.random() < 0.12 and n >= 2:
        cand = [s for s in sources if not s['supplemental']]
        rnd.choice(cand)['state'] = rnd.choice(BAD_STATES)
    return spec


BAD_STATES = ['missing', 'missing', 'dir', 'badutf8', 'csvlimit', 'badregex', 'intdelim']
# missing: no file | dir: a directory (OSError) | badutf8: UnicodeDecodeError | csvlimit: a stray quote followed by more than
# 128 KiB (csv.Error: field larger than field limit) | badregex: `delimiter: "regex:("` (re.error) | intdelim: `delimiter: 5`
# (AttributeError in the row iterator).  Each makes the source's parser raise; cmd_run must report it and carry on.


def negates(s):
    """resolve_source_format: an explicit negate_amount overrides the {-amount} of the format string."""
    return bool(s['negate_amount']) if s.get('negate_amount') is not None else s['sign'] == '-'


def setting_delimiter(s):
    return {'badregex': 'regex:(', 'intdelim': 5}.get(s['state'], s['delimiter'])


# ------------------------------------------------------------------ materialisation
def fmt_amount(q, style, dec):
    neg = q < 0
    a = abs(q)
    whole, frac = a // 4, (a % 4) * 25
    ws = str(whole)
    if style == 'thousands' and whole >= 1000:
        ts = '.' if dec == ',' else ','
        ws = f'{whole:,}'.replace(',', ts)
    body = f'{ws}{dec}{frac:02d}'
    if style == 'dollar':
        body = '$' + body
    if neg:
        return f'({body})' if style == 'paren' else '-' + body
    return body


def fmt_date(iso, f):
    y, m, d = iso.split('-')
    return f.replace('%Y', y).replace('%m', m).replace('%d', d)


def format_string(s):
    parts = []
    for c in s['cols']:
        if c == 'date':
            parts.append('{date:' + s['datefmt'] + '}')
        elif c == 'amount':
            parts.append('{' + s['sign'] + 'amount}')
        else:
            parts.append('{' + c + '}')
    return ', '.join(parts)


def file_text(s):
    out = io.StringIO()
    w = csv.writer(out, delimiter=s['file_delim'], lineterminator='\n', quoting=csv.QUOTE_MINIMAL)
    cols = s['file_cols']
    if s['file_header']:
        w.writerow([c.title() if c != '_' else 'Ref' for c in cols])
    for r in s['rows']:
        cells = []
        for c in cols:
            if c == 'date':
                cells.append('31-31-31' if r['bad'] == 'date' else fmt_date(r['d'], s['file_datefmt']))
            elif c in ('description', 'item'):
                cells.append('' if r['bad'] == 'nodesc' else r['desc'])
            elif c == 'amount':
                cells.append('' if r['bad'] == 'noamount' else fmt_amount(r['q'], r['style'], s['file_decimal']))
            elif c == 'kind':
                cells.append(r['kind'])
            elif c == 'location':
                cells.append(r['loc'])
            elif c in r:
                cells.append(str(r[c]))          # any other named capture carried by the row
            else:
                cells.append('x1')
        if r['bad'] == 'short':
            cells = cells[:1]
        w.writerow(cells)
    return out.getvalue()


def yq(x):
    return json.dumps(x)  # a JSON double-quoted string is a YAML double-quoted string (ASCII only here)


def settings_yaml(spec):
    L = [f"year: {spec['year']}"]
    if 'rule_mode_raw' in spec:
        # the text after "rule_mode:" as a user might type it; spec['rule_mode'] then holds what it MEANS
        # (exactly first_match / most_specific, anything else falls back to first_match — config_loader's documented rule)
        L.append(f"rule_mode: {spec['rule_mode_raw']}")
    elif spec.get('rule_mode'):
        L.append(f"rule_mode: {spec['rule_mode']}")
    if spec.get('currency_format'):
        L.append(f"currency_format: {yq(spec['currency_format'])}")
    if spec['rules']['kind'] == 'rules':
        L.append('merchants_file: config/merchants.rules')
    if spec.get('views_file'):
        L.append(f"views_file: {spec['views_file']}")       # a configured views file that does not exist: no views
    elif spec.get('views') is not None:
        L.append('views_file: config/views.rules')
    L.append('data_sources:')
    for s in spec['sources']:
        L.append(f"  - name: {yq(s['name'])}")
        L.append(f"    file: {yq(s['file'])}")
        L.append(f"    format: {yq(format_string(s))}")
        if s.get('template'):
            L.append('    columns:')
            L.append(f"      description: {yq(s['template'])}")
        if setting_delimiter(s) is not None:
            L.append(f"    delimiter: {yq(setting_delimiter(s))}")
        if s['has_header'] is not None:
            L.append(f"    has_header: {'true' if s['has_header'] else 'false'}")
        if s['decimal_separator'] is not None:
            L.append(f"    decimal_separator: {yq(s['decimal_separator'])}")
        if s.get('negate_amount') is not None:
            L.append(f"    negate_amount: {'true' if s['negate_amount'] else 'false'}")
        if s['supplemental']:
            L.append('    supplemental: true')
    return '\n'.join(L) + '\n'


def rules_text(r):
    L = []
    for n, e in r['variables']:
        L.append(f'{n} = {e}')
    for n, e in r['transforms']:
        L.append(f'{n} = {e}')
    L.append('')
    for x in r['rules']:
        L.append(f"[{x['name']}]")
        for n, e in x['let']:
            L.append(f'let: {n} = {e}')
        L.append(f"match: {x['match']}")
        if x['category']:
            L.append(f"category: {x['category']}")
        if x['subcategory']:
            L.append(f"subcategory: {x['subcategory']}")
        if x['merchant']:
            L.append(f"merchant: {x['merchant']}")
        if x['tags']:
            L.append('tags: ' + ', '.join(x['tags']))
        for n, e in x['field']:
            L.append(f'field: {n} = {e}')
        if x['priority'] is not None:
            L.append(f"priority: {x['priority']}")
        L.append('')
    return '\n'.join(L)


def csv_rules_text(r):
    out = io.StringIO()
    w = csv.writer(out, lineterminator='\n')
    w.writerow(['Pattern', 'Merchant', 'Category', 'Subcategory', 'Tags'])
    for row in r['csv']:
        w.writerow(row)
    return out.getvalue()


def views_text(v):
    return '\n'.join(f'[{n}]\nfilter: {f}\n' for n, f in v)


def budget_root(spec, root):
    """The budget directory (parent of the config dir the command is pointed at, and of data/)."""
    return os.path.join(root, 'y2023') if spec.get('layout') else root


def materialize(spec, root):
    """(Re)create the budget under `root` from the spec; returns the config dir to hand to the command.
    spec['layout']: None — <root>/config + <root>/data;
      'symlink'       — shared config, per-year data: <root>/shared/config is the real directory,
                        <root>/y2023/config -> ../shared/config is a SYMLINK, the data lives in <root>/y2023/data;
      'symlink-decoy' — the same, plus different files of the same names in <root>/shared/data (next to the link target).
    A source may carry 'encoding' (default utf-8): how its file is encoded on disk."""
    if os.path.isdir(root):
        shutil.rmtree(root)
    broot = budget_root(spec, root)
    layout = spec.get('layout')
    cdir = os.path.join(root, 'shared', 'config') if layout else os.path.join(root, 'config')
    os.makedirs(cdir)
    os.makedirs(os.path.join(broot, 'data'))
    if layout:
        os.symlink(os.path.join('..', 'shared', 'config'), os.path.join(broot, 'config'))
    with open(os.path.join(cdir, 'settings.yaml'), 'w', encoding='utf-8') as f:
        f.write(settings_yaml(spec))
    r = spec['rules']
    # r['configured_missing']: settings.yaml names config/merchants.rules but the file is not there (=> no rules at all);
    # r['stray_csv']: a legacy merchant_categories.csv lying in config/ although a merchants_file is configured (=> ignored)
    if r['kind'] == 'rules' and not r.get('configured_missing'):
        with open(os.path.join(cdir, 'merchants.rules'), 'w', encoding='utf-8') as f:
            f.write(rules_text(r))
    elif r['kind'] == 'csv':
        with open(os.path.join(cdir, 'merchant_categories.csv'), 'w', encoding='utf-8') as f:
            f.write(csv_rules_text(r))
    if r.get('stray_csv'):
        with open(os.path.join(cdir, 'merchant_categories.csv'), 'w', encoding='utf-8') as f:
            f.write(csv_rules_text({'csv': r['stray_csv']}))
    if spec.get('views') is not None:
        with open(os.path.join(cdir, 'views.rules'), 'w', encoding='utf-8') as f:
            f.write(views_text(spec['views']))
    for s in spec['sources']:
        p = os.path.join(broot, s['file'])
        st = s['state']
        if layout == 'symlink-decoy' and st == 'present':
            decoy = copy.deepcopy(s)
            decoy['rows'] = [dict(r_, q=r_['q'] + 400, desc='DECOY ' + r_['desc']) for r_ in s['rows']][:2]
            dp = os.path.join(root, 'shared', s['file'])
            os.makedirs(os.path.dirname(dp), exist_ok=True)
            with open(dp, 'wb') as f:
                f.write(file_text(decoy).encode('utf-8'))
        if st == 'missing':
            continue
        if st == 'dir':
            os.makedirs(p)
            continue
        data = file_text(s).encode(s.get('encoding') or 'utf-8')
        if st == 'badutf8':
            data += b'2025-01-01,CAF\xe9 \xff,1.00\n'
        if st == 'csvlimit':
            data += b'"' + b'x,1\n' * 40000
        with open(p, 'wb') as f:
            f.write(data)
    cfg = os.path.join(broot, 'config')
    _CWD.pop(cfg, None)
    if spec.get('cwd') == 'decoy':
        # the command is started from ANOTHER directory (a sibling budget) that holds different files at the same relative
        # paths as every source of this budget, present or not
        other = os.path.join(root, 'sibling')
        for s in spec['sources']:
            decoy = copy.deepcopy(s)
            decoy['rows'] = [dict(r_, q=(r_['q'] or 4) + 800, desc='SIBLING ' + r_['desc']) for r_ in s['rows']][:2] or \
                            [simple_row('2025-01-02', 'SIBLING ROW', 804)]
            dp = os.path.join(other, s['file'])
            os.makedirs(os.path.dirname(dp), exist_ok=True)
            with open(dp, 'wb') as f:
                f.write(file_text(decoy).encode('utf-8'))
        _CWD[cfg] = other
    return cfg


def simple_source(name, file, rows, **kw):
    s = {'name': name, 'file': file, 'cols': ['date', 'description', 'amount'], 'datefmt': '%Y-%m-%d', 'delimiter': None,
         'has_header': None, 'decimal_separator': None, 'sign': '', 'negate_amount': None, 'supplemental': False,
         'state': 'present', 'template': None, 'rows': rows}
    s.update(kw)
    return sync_file_to_settings(s)


def simple_row(d, desc, q, **kw):
    r = {'d': d, 'desc': desc, 'q': q, 'kind': 'POS', 'loc': '', 'style': 'plain', 'bad': None}
    r.update(kw)
    return r


def csv_expect(spec):
    """Ground truth for legacy CSV rules, stated by the generator (not by tally's code): a plain pattern P matches a
    description D iff re.search(P, D.upper(), re.IGNORECASE); the first matching row with a category decides.
    Returns {description: (merchant | None, category, subcategory)}; descriptions that reach a pattern with an inline
    [modifier] are left out (their verdict depends on amount/date)."""
    if spec['rules']['kind'] != 'csv':
        return {}
    out = {}
    descs = {r['desc'] for s in spec['sources'] if not s['supplemental'] for r in s['rows'] if not r['bad']}
    for d in descs:
        res = (None, 'Unknown', 'Unknown')
        for pat, merch, cat, sub, _tags in spec['rules']['csv']:
            if (' and ' in pat or ' or ' in pat or pat.startswith('(') or pat.startswith('field.')
                    or re.match(r'^(contains|normalized|anyof|startswith|fuzzy|regex|extract|split|substring|trim|exists)\s*\(', pat)
                    or re.match(r'^(amount|month|year|day|source|description)\s*[<>=!]', pat)):
                res = None      # written as an expression (case-sensitive keywords): not a plain pattern
                break
            base = pat
            mod = pat.endswith(']') and '[' in pat
            if mod:
                base = pat[:pat.index('[')]
            try:
                hit = re.search(base, d.upper(), re.IGNORECASE)
            except re.error:
                res = None
                break
            if hit and mod:
                res = None
                break
            if hit and cat:
                res = (merch, cat, sub)
                break
        if res:
            out[d] = res
    return out


# ------------------------------------------------------------------ what the generator *intended* (ground truth)
def intended_rows(s):
    """The (iso date, raw description, amount) a source's file means under settings consistent with the file
    (sign applied, zero amounts / malformed rows dropped). Only valid when setting == file layout."""
    out = []
    for r in s['rows']:
        if r['bad']:
            continue
        a = r['q'] / 4.0
        if s['sign'] == '+':
            a = abs(a)
        elif negates(s):
            a = -a
        if a == 0:
            continue
        out.append((r['d'], r['desc'], a))
    return out


def consistent(s):
    return (s['file_cols'] == s['cols'] and s['file_datefmt'] == s['datefmt'] and s['file_delim'] == DELIMS[s['delimiter']]
            and s['file_header'] == (True if s['has_header'] is None else bool(s['has_header']))
            and s['file_decimal'] == (s['decimal_separator'] or '.'))


# ------------------------------------------------------------------ running the real CLI (fresh process per command)
_CWD = {}     # config dir -> working directory the commands on that budget are started from (spec['cwd'] == 'decoy')


def run_cli(args, timeout=120):
    cwd = next((_CWD[a] for a in args if a in _CWD), None)
    p = subprocess.run([PY, '-m', 'tally'] + list(args), capture_output=True, text=True, env=env_impl(), timeout=timeout,
                       stdin=subprocess.DEVNULL, cwd=cwd)
    return p.returncode, p.stdout, p.stderr


def first_json(text):
    """The JSON document printed on stdout, possibly after progress lines."""
    for opener, closer in (('{', '}'), ('[', ']')):
        m = re.search(r'^' + re.escape(opener) + r'\s*$', text, re.M)
        if m:
            try:
                return json.loads(text[m.start():])
            except ValueError:
                pass
    t = text.strip()
    if t[:1] in '{[':
        try:
            return json.loads(t)
        except ValueError:
            return None
    return None


def up_json(cfg, quiet=True):
    rc, out, err = run_cli(['up', cfg] + (['-q'] if quiet else []) + ['--format', 'json', '-v'])
    return {'rc': rc, 'json': first_json(out) if rc == 0 else None, 'stdout': out if not quiet else out[:300], 'stderr': err[-600:]}


def extract_spending_data(html):
    m = re.search(r'<script>window\.spendingData = (.*?);</script>', html, re.S)
    if not m:
        return None
    try:
        return json.loads(m.group(1))
    except ValueError:
        return None


def up_html(cfg, out_path):
    if os.path.exists(out_path):
        os.remove(out_path)
    rc, out, err = run_cli(['up', cfg, '-q', '-o', out_path])
    data = None
    if rc == 0 and os.path.exists(out_path):
        data = extract_spending_data(open(out_path, encoding='utf-8').read())
    return {'rc': rc, 'data': data, 'stdout': out[:300], 'stderr': err[-600:]}


def discover_json(cfg):
    rc, out, err = run_cli(['discover', cfg, '--format', 'json', '--limit', '0'])
    js = first_json(out) if rc == 0 else None
    if rc == 0 and js is None and 'No unknown transactions found' in out:
        js = []
    return {'rc': rc, 'json': js, 'stdout': out[:300], 'stderr': err[-600:]}


def explain_json(cfg, query, amount=None):
    a = ['explain', query, cfg, '--format', 'json']
    if amount is not None:
        a += ['--amount', repr(float(amount))]
    rc, out, err = run_cli(a)
    return {'rc': rc, 'json': first_json(out), 'stdout': out[:400], 'stderr': err[-400:]}


def pmap(fn, items, workers=PAR):
    with ThreadPoolExecutor(max_workers=workers) as ex:
        return list(ex.map(fn, items))


# ------------------------------------------------------------------ canonical views of the report
def html_txns(data):
    """Per-transaction tuples from spendingData.categoryView (covers every merchant):
    (source, iso-ish date 'YYYY-MM/dd', raw description, amount, merchant, category, subcategory, tags)."""
    out = []
    if not data:
        return out
    for cat in data.get('categoryView', {}).values():
        for sub in cat['subcategories'].values():
            for m in sub['merchants'].values():
                for t in m['transactions']:
                    out.append((t['source'], t['month'] + '/' + t['date'][-2:], t['description'], t['amount'], m['displayName'],
                                m['category'], m['subcategory'], tuple(sorted(t.get('tags') or []))))
    return sorted(out)


def html_merchant_seqs(data):
    """merchant -> the ordered transaction list (order = order of the pipeline's all_txns restricted to the merchant)."""
    out = {}
    if not data:
        return out
    for cat in data.get('categoryView', {}).values():
        for sub in cat['subcategories'].values():
            for m in sub['merchants'].values():
                out[m['displayName']] = [(t['source'], t['month'] + '/' + t['date'][-2:], t['description'], t['amount'])
                                         for t in m['transactions']]
    return out


def html_sections(data):
    return {k: sorted(m['displayName'] for m in v['merchants'].values()) for k, v in (data or {}).get('sections', {}).items()}


def parsed_part(txns):
    """What parsing alone governs: (source, date, raw description) + |amount| sign kept — classification removed.
    The report shows the *effective* amount (income/investment tags make it absolute), so the comparison that must be
    independent of rules uses |amount|."""
    return sorted((t[0], t[1], t[2], abs(t[3])) for t in txns)


def by_source(txns, name):
    return [t for t in txns if t[0] == name]


def not_source(txns, name):
    return [t for t in txns if t[0] != name]


# ------------------------------------------------------------------ metamorphic toggles
SETTINGS = ['delimiter', 'decimal_separator', 'sign', 'has_header', 'format', 'file']


def toggle(spec, kind, i, rnd):
    """A copy of the spec with ONE setting of source i changed (the data file stays as it was), or None."""
    b = copy.deepcopy(spec)
    s = b['sources'][i] if i is not None else None
    if kind == 'delimiter':
        cur = DELIMS[s['delimiter']]
        s['delimiter'] = rnd.choice([d for d in [',', ';', 'tab', '|'] if DELIMS[d] != cur])
    elif kind == 'decimal_separator':
        s['decimal_separator'] = '.' if (s['decimal_separator'] or '.') == ',' else ','
    elif kind == 'sign':
        if s.get('negate_amount') and rnd.random() < 0.5:
            s['negate_amount'] = None
        else:
            s['sign'] = rnd.choice([x for x in ['', '-', '+'] if x != s['sign']])
    elif kind == 'has_header':
        s['has_header'] = not (True if s['has_header'] is None else s['has_header'])
    elif kind == 'format':
        if rnd.random() < 0.5:
            s['datefmt'] = rnd.choice([f for f in DATEFMTS if f != s['datefmt']])
        else:
            c = s['cols']
            a, d = c.index('description' if 'description' in c else 'item'), c.index('_') if '_' in c else None
            if d is None:
                c.append('_') if rnd.random() < 0.5 else c.insert(0, '_')
            else:
                c[a], c[d] = c[d], c[a]
    elif kind == 'file':
        ok = [r for r in s['rows'] if not r['bad']]
        if not ok:
            return None
        r = rnd.choice(ok)
        r['q'] = r['q'] + 4 if r['q'] != -4 else 8
    elif kind == 'rule_mode':
        b['rule_mode'] = 'first_match' if b.get('rule_mode') == 'most_specific' else 'most_specific'
    elif kind == 'rules':
        r = b['rules']
        if r['kind'] == 'rules' and r['rules']:
            k = rnd.randrange(len(r['rules']))
            if rnd.random() < 0.5 and len(r['rules']) > 1:
                del r['rules'][k]
            else:
                r['rules'][k]['category'] = 'Changed' if r['rules'][k]['category'] else ''
                if not r['rules'][k]['category']:
                    r['rules'][k]['category'] = 'Promoted'
        elif r['kind'] == 'csv' and r['csv']:
            k = rnd.randrange(len(r['csv']))
            r['csv'][k][2] = 'Changed'
        else:
            b['rules'] = {'kind': 'rules', 'variables': [], 'transforms': [], 'csv': [],
                          'rules': [mkrule(RULE_POOL[0]), mkrule(RULE_POOL[3])]}
    elif kind == 'transforms':
        r = b['rules']
        if r['kind'] != 'rules':
            return None
        r['transforms'] = [] if r['transforms'] else [list(v) for v in TRANSFORMS]
    elif kind == 'views':
        if b.get('views'):
            b['views'] = b['views'][1:] or None
        else:
            b['views'] = [list(VIEW_POOL[1]), list(VIEW_POOL[0])]
    elif kind == 'ascii':
        # the same file with every non-ASCII letter replaced by an ASCII one (and plain UTF-8 on disk)
        changed = False
        for r in s['rows']:
            d2 = ''.join(c if ord(c) < 128 else 'e' for c in r['desc'])
            changed = changed or d2 != r['desc']
            r['desc'] = d2
        if s.get('encoding'):
            s['encoding'] = None
            changed = True
        if not changed:
            return None
    elif kind == 'cwd':
        b['cwd'] = None if b.get('cwd') else 'decoy'
    elif kind == 'layout':
        b['layout'] = None if b.get('layout') else 'symlink-decoy'
    elif kind == 'reverse':
        if len(s['rows']) < 2:
            return None
        s['rows'] = list(reversed(s['rows']))
    elif kind == 'rename':
        taken = {x['name'] for x in b['sources']}
        s['name'] = next(n for n in ['Acct Nine', 'Acct Ten', 'Acct Eleven', 'Acct Twelve', 'Acct Thirteen'] if n not in taken)
    elif kind == 'currency_format':
        b['currency_format'] = '{amount} kr' if b.get('currency_format') != '{amount} kr' else None
    elif kind == 'supplemental':
        if not s['rows']:
            return None
        s['rows'] = [] if rnd.random() < 0.5 else s['rows'][1:]
    else:
        raise ValueError(kind)
    return b


# ------------------------------------------------------------------ shrinking
def shrink_budget(spec, still_fails, max_steps=60):
    """Greedy delta debugging over sources, rules, variables/transforms, views and rows."""
    cur = copy.deepcopy(spec)
    steps = 0
    if any(spec.get(k) for k in ('expect', 'expect_tags', 'expect_merchants')):
        return cur       # hand-written expectations describe exactly this (already small) budget: keep it whole

    def attempt(cand):
        nonlocal cur, steps
        if steps >= max_steps:
            return False
        steps += 1
        try:
            if still_fails(cand):
                cur = cand
                return True
        except Exception:  # noqa  (a candidate the checker cannot evaluate is simply not taken)
            pass
        return False

    changed = True
    while changed and steps < max_steps:
        changed = False
        for i in range(len(cur['sources'])):
            if len(cur['sources']) > 1:
                c = copy.deepcopy(cur)
                del c['sources'][i]
                if attempt(c):
                    changed = True
                    break
        if changed:
            continue
        for key in ('rules', 'csv', 'variables', 'transforms'):
            if cur.get('expect'):
                break       # hand-written expectations describe this very rule set: keep it whole
            for i in range(len(cur['rules'][key])):
                c = copy.deepcopy(cur)
                del c['rules'][key][i]
                if attempt(c):
                    changed = True
                    break
            if changed:
                break
        if changed:
            continue
        if cur.get('views'):
            c = copy.deepcopy(cur)
            c['views'] = None
            if attempt(c):
                changed = True
                continue
        for si, s in enumerate(cur['sources']):
            for ri in range(len(s['rows'])):
                if len(s['rows']) > 1 or s['supplemental']:
                    c = copy.deepcopy(cur)
                    del c['sources'][si]['rows'][ri]
                    if attempt(c):
                        changed = True
                        break
            if changed:
                break
    return cur


def work_root(prop, name):
    return os.path.join(WORK, prop, name)


def clean_work(prop):
    d = os.path.join(WORK, prop)
    if os.path.isdir(d):
        shutil.rmtree(d, ignore_errors=True)
    os.makedirs(d, exist_ok=True)
    return d
