"""C17 — rule files are read by structure alone; malformed ones are rejected, not trimmed.
Proof: C17/Props.v over the hand model C17/Model.v (line classifier + section assembler of
MerchantEngine.parse/_add_rule and parse_sections; expression validity is the oracle `pyparse`).
Tie: parse_merchants / parse_sections vs the model (vm_compute inside coqc) on generated valid files,
all layout-preserving edits of them and all single-point corruptions.
Search: the property's own laws evaluated on implementation outputs only (layout invariance,
one rule per section with the stated properties, rejection with the offending line, no silently
ignored line, load errors reported at API and CLI level)."""
import json
import os
import random
import shutil
import subprocess

from common import *

COQ_FILES = ['Lib/Str.v', 'C17/Model.v', 'C17/Proofs.v', 'C17/Props.v']
IMPL = os.path.join(os.path.dirname(os.path.abspath(__file__)), 'impl_c17.py')
WORKDIR = os.path.join(WORK, 'c17')
GARBAGE = '%%%'          # neither blank, comment, header, assignment nor key: value

# ------------------------------------------------------------------------------------------------
# generators.  A generated file is a list of logical items; each item renders to one line.
#   ('var', name, expr) ('tr', field, expr) ('hdr', name) ('prop', key, value)          merchants
#   ('gvar', name, expr) ('hdr', name) ('filter', e) ('desc', d) ('svar', name, e)       views
VALID_EXPRS = ['contains("NETFLIX")', 'amount > 100', 'regex("UBER\\s*EATS") and month == 12', 'is_large',
               'description == "x=1"', '"a:b" in description', 'contains("CAFÉ")', 'anyof("A", "B")',
               'amount > 5 and not contains("X")', 'x', '(amount)', 'field.memo == "q"', '1']
INVALID_EXPRS = ['contains(', ')(', 'amount >', 'lambda: 1', 'x = 1', '"abc', 'a b', '[i for i in x if]', 'import os']
VIEW_EXPRS = ['total > 100', 'months >= 6', 'category == "Food" and cv < 0.5', 'sum(payments) / 12', 'is_frequent',
              '"a:b" in tags', 'x == "p=q"', 'count(payments) > 1', '1']
NAMES = ['Netflix', 'Large Purchase', 'A-1', 'Café', 'x]y', 'a:b', 'q = 1', 'Uber Eats', 'Z']
VNAMES = ['Big', 'Every Month', 'A-1', 'Café', 'a:b', 'q = 1', 'Z z']
CATS = ['Food', 'Food: Drink', 'A = B', 'Subscriptions', 'Cafés', 'x#y']
TAGS = ['a, b', 'fun(x,y), z', 'a,,b', '{field.x}, k', 'one', 'a, a, B', 'f(a, g(b, c)), d)e, f']
IDENTS = ['x', 'is_large', 'Big1', '_t', 'field', 'q_2']
WS_LEAD = ['', ' ', '    ', '\t', ' \t ', '\x0c', '\x0b ']
WS_TRAIL = [' ', '   ', '\t', ' \t', '\r', '\x0c']
KNOWN_KEYS = ['let', 'field', 'match', 'category', 'subcategory', 'merchant', 'tags', 'priority']


def gen_m_items(rnd, nsec=None):
    items = []
    used = set()
    for _ in range(rnd.choice([0, 0, 1, 2])):
        n = rnd.choice([i for i in IDENTS if i.lower() not in used])
        used.add(n.lower())
        items.append(('var', n, rnd.choice(VALID_EXPRS)))
    if rnd.random() < 0.35:
        items.insert(rnd.randint(0, len(items)), ('tr', rnd.choice(['description', 'memo', 'X_1']), rnd.choice(VALID_EXPRS)))
    for _ in range(nsec or rnd.choice([1, 1, 2, 3])):
        items.append(('hdr', rnd.choice(NAMES)))
        props = [('match', rnd.choice(VALID_EXPRS))]
        r = rnd.random()
        if r < 0.75:
            props.append(('category', rnd.choice(CATS)))
        if r >= 0.75 or rnd.random() < 0.4:
            props.append(('tags', rnd.choice(TAGS)))
        if rnd.random() < 0.4:
            props.append(('subcategory', rnd.choice(CATS)))
        if rnd.random() < 0.3:
            props.append(('merchant', rnd.choice(NAMES)))
        if rnd.random() < 0.4:
            props.append(('priority', rnd.choice(['10', '+5', '-3', '1_000', '007', '0'])))
        lets = rnd.sample(IDENTS, rnd.choice([0, 0, 1, 2]))
        for n in lets:
            props.append(('let', n, rnd.choice(VALID_EXPRS)))
        for n in rnd.sample(['memo', 'Kind', 'x_1'], rnd.choice([0, 0, 1, 2])):
            props.append(('field', n, rnd.choice(VALID_EXPRS)))
        rnd.shuffle(props)
        # lets keep their generated order among themselves (a list in the result)
        items += [('prop',) + p for p in props]
    return items


def gen_v_items(rnd, nsec=None):
    items = []
    for n in rnd.sample(IDENTS + ['1a'], rnd.choice([0, 0, 1, 2])):
        items.append(('gvar', n, rnd.choice(VIEW_EXPRS)))
    for _ in range(nsec or rnd.choice([1, 1, 2, 3])):
        items.append(('hdr', rnd.choice(VNAMES)))
        body = [('filter', rnd.choice(VIEW_EXPRS))]
        if rnd.random() < 0.5:
            body.append(('desc', rnd.choice(['All of it', 'a: b', 'x = y', 'Café visits'])))
        for n in rnd.sample(IDENTS + ['1a'], rnd.choice([0, 0, 1, 2])):
            body.append(('svar', n, rnd.choice(VIEW_EXPRS)))
        rnd.shuffle(body)
        items += body
    return items


def render(it, rnd=None):
    """Canonical one-line rendering of an item (no indentation, single spaces)."""
    k = it[0]
    if k in ('var', 'gvar', 'svar'):
        return f'{it[1]} = {it[2]}'
    if k == 'tr':
        return f'field.{it[1]} = {it[2]}'
    if k == 'hdr':
        return f'[{it[1]}]'
    if k == 'prop':
        if it[1] in ('let', 'field'):
            return f'{it[1]}: {it[2]} = {it[3]}'
        return f'{it[1]}: {it[2]}'
    if k == 'filter':
        return f'filter: {it[1]}'
    if k == 'desc':
        return f'description: {it[1]}'
    raise ValueError(k)


def item_key(it):
    """What makes two property lines 'distinct properties' (may be reordered)."""
    if it[0] == 'prop':
        return it[1]
    return it[0] if it[0] in ('filter', 'desc') else ('svar', it[1])


# ---- the property's reading of a generated file (independent of tally and of the Coq model) ----
def split_tags_spec(v):
    out, depth, cur = [], 0, ''
    for ch in v:
        if ch == '(':
            depth += 1
        elif ch == ')':
            depth -= 1
        if ch == ',' and depth == 0:
            out.append(cur)
            cur = ''
        else:
            cur += ch
    out.append(cur)
    return sorted({t.strip() for t in out if t.strip()})


def spec_m(items, lines_of):
    """Expected parse of a VALID merchants item list; lines_of[i] = 1-based line of item i."""
    vars_, trs, rules, cur = {}, [], [], None
    for i, it in enumerate(items):
        if it[0] == 'var':
            vars_[it[1].lower()] = it[2]
        elif it[0] == 'tr':
            trs.append(['field.' + it[1], it[2]])
        elif it[0] == 'hdr':
            cur = {'name': it[1].strip(), 'line': lines_of[i], 'lets': [], 'fields': {}}
            rules.append(cur)
        else:
            key = it[1]
            if key == 'let':
                cur['lets'].append([it[2].lower(), it[3]])
            elif key == 'field':
                cur['fields'][it[2].lower()] = it[3]
            else:
                cur[key] = it[2]
    out = []
    for r in rules:
        out.append([r['name'], r['match'], r.get('category', ''), r.get('subcategory', ''), r.get('merchant') or r['name'],
                    split_tags_spec(r.get('tags', '')), int(r.get('priority', '50').replace('_', '')), r['line'],
                    r['lets'], [[k, v] for k, v in r['fields'].items()]])
    return {'ok': True, 'rules': out, 'vars': [[k, v] for k, v in vars_.items()], 'transforms': trs}


def spec_v(items, lines_of):
    g, views, cur = {}, [], None
    for i, it in enumerate(items):
        if it[0] == 'gvar':
            g[it[1]] = it[2]
        elif it[0] == 'hdr':
            cur = [it[1].strip(), None, None, {}, lines_of[i]]
            views.append(cur)
        elif it[0] == 'filter':
            cur[1] = it[1]
        elif it[0] == 'desc':
            cur[2] = it[1]
        else:
            cur[3][it[1]] = it[2]
    return {'ok': True, 'globals': [[k, v] for k, v in g.items()],
            'views': [[v[0], v[1], v[2], [[k, x] for k, x in v[3].items()], v[4]] for v in views]}


def erase_lines(kind, r):
    """Result with the line numbers removed (what layout edits that insert lines must preserve)."""
    if not r.get('ok'):
        return {'ok': False} if 'ok' in r else r
    r = json.loads(json.dumps(r))
    for x in r['rules' if kind == 'm' else 'views']:
        x[7 if kind == 'm' else 4] = 0
    return r


# ---- layout-preserving edits: (name, new lines, line map old index -> new index or None) ----------
def layout_edits(kind, items, lines, rnd, per_kind=1):
    n = len(lines)
    ident = list(range(n))
    out = []

    def ins(name, pos, text):
        out.append((name, lines[:pos] + [text] + lines[pos:], [i if i < pos else i + 1 for i in range(n)]))

    for _ in range(per_kind):
        ins('insert_comment', rnd.randint(0, n), rnd.choice(['# note', '  # [x]', '#match: y', '\t#', '# a = b', '#filter: 1']))
        ins('insert_blank', rnd.randint(0, n), rnd.choice(['', '   ', '\t', ' \r', '\x0c']))
        i = rnd.randrange(n)
        out.append(('trailing_blanks', lines[:i] + [lines[i] + rnd.choice(WS_TRAIL)] + lines[i + 1:], ident))
        props = [i for i, it in enumerate(items) if it[0] != 'hdr']
        if props:
            i = rnd.choice(props)
            out.append(('reindent_property', lines[:i] + [rnd.choice(WS_LEAD[1:]) + lines[i].lstrip()] + lines[i + 1:], ident))
        hdrs = [i for i, it in enumerate(items) if it[0] == 'hdr']
        if kind == 'm':
            i = rnd.choice(hdrs)
            out.append(('reindent_header', lines[:i] + [rnd.choice(WS_LEAD[1:]) + lines[i].lstrip()] + lines[i + 1:], ident))
            pl = [i for i, it in enumerate(items) if it[0] == 'prop']
            i = rnd.choice(pl)
            k, rest = lines[i].split(':', 1)
            k2 = rnd.choice([k.upper(), k.title(), ''.join(c.upper() if rnd.random() < .5 else c for c in k)])
            out.append(('key_case', lines[:i] + [k2 + ':' + rest] + lines[i + 1:], ident))
        # permutation of a section's distinct properties (same-key lines keep their relative order)
        h = rnd.choice(hdrs)
        j = h + 1
        while j < n and items[j][0] != 'hdr':
            j += 1
        body = list(range(h + 1, j))
        if len(body) >= 2:
            perm = body[:]
            rnd.shuffle(perm)
            bykey = {}
            for i in body:
                bykey.setdefault(item_key(items[i]), []).append(i)
            seen = {}
            fixed = []
            for i in perm:          # keep same-key lines in original relative order
                k = item_key(items[i])
                fixed.append(bykey[k][seen.get(k, 0)])
                seen[k] = seen.get(k, 0) + 1
            new = lines[:h + 1] + [lines[i] for i in fixed] + lines[j:]
            out.append(('permute_distinct_properties', new, None))
    out.append(('crlf', [l + '\r' for l in lines[:-1]] + [lines[-1]], ident))
    out.append(('crlf_all', [l + '\r' for l in lines], ident))
    return out


# ---- single-point corruptions: (name, new lines, expectation) -----------------------------------
# expectation: None (no claim: the property does not say) | ('reject', line) must be an error naming that line
def corruptions(kind, items, lines, rnd):
    n = len(lines)
    out = []
    hdr_of = {}
    cur = None
    for i, it in enumerate(items):
        if it[0] == 'hdr':
            cur = i
        hdr_of[i] = cur
    for i, it in enumerate(items):
        L = i + 1
        hl = (hdr_of[i] + 1) if hdr_of[i] is not None else None
        dele = lines[:i] + lines[i + 1:]
        exp = None
        if kind == 'm' and it[0] == 'prop' and it[1] == 'match':
            exp = ('reject', hl)                      # the section now lacks its match
        if kind == 'v' and it[0] == 'filter':
            exp = ('reject', hl)
        out.append(('delete', dele, exp))
        out.append(('duplicate', lines[:i + 1] + [lines[i]] + lines[i + 1:], None))
        in_sec = any(x[0] == 'hdr' for x in items[:i])     # an earlier header exists: the line sits inside a section
        out.append(('garbage', lines[:i] + [GARBAGE] + lines[i + 1:], ('reject', L) if (in_sec or kind == 'v') else None))

        def alt(name, text, exp):
            out.append((name, lines[:i] + [text] + lines[i + 1:], exp))
        bad = rnd.choice(INVALID_EXPRS)
        if kind == 'm':
            if it[0] == 'prop':
                alt('unknown_property', 'colour:' + lines[i].split(':', 1)[1], ('reject', L))
                alt('no_colon', lines[i].replace(':', ' ').replace('=', ' '), ('reject', L))
                if it[1] == 'let':
                    alt('bad_let', rnd.choice([f'let: = {it[3]}', f'let: 1{it[2]} = {it[3]}', f'let: {it[2]}', f'let: {it[2]} =', 'let:']), ('reject', L))
                    alt('invalid_expression', f'let: {it[2]} = {bad}', ('reject', hl))
                elif it[1] == 'field':
                    alt('bad_field', rnd.choice([f'field: = {it[3]}', f'field: a.b = {it[3]}', f'field: {it[2]}', 'field: 9 = 1']), ('reject', L))
                    alt('invalid_expression', f'field: {it[2]} = {bad}', ('reject', hl))
                elif it[1] == 'priority':
                    alt('bad_priority', 'priority: ' + rnd.choice(['abc', '1.5', '', '1 0', '_1', '1__0', '5_', '--1', '0x10']), ('reject', L))
                elif it[1] == 'match':
                    alt('invalid_expression', f'match: {bad}', ('reject', hl))
            elif it[0] == 'hdr':
                alt('header_unclosed', '[' + it[1], ('reject', L) if in_sec else None)
                alt('header_empty', rnd.choice(['[]', '[  ]']), ('reject', L))
            elif it[0] in ('var', 'tr'):
                lhs = lines[i].split('=', 1)[0]
                alt('invalid_expression', f'{lhs}= {bad}', ('reject', L))
        else:
            if it[0] == 'filter':
                alt('invalid_expression', f'filter: {bad}', ('reject', L))
                alt('filter_empty', 'filter:', ('reject', L))
                alt('unknown_property', 'colour: ' + it[1], ('reject', L))
            elif it[0] in ('gvar', 'svar'):
                alt('invalid_expression', f'{it[1]} = {bad}', ('reject', L))
            elif it[0] == 'desc':
                alt('unknown_property', 'colour: ' + it[1], ('reject', L))
            elif it[0] == 'hdr':
                alt('header_unclosed', '[' + it[1], ('reject', L))
                alt('header_indented', '  ' + lines[i], ('reject', L))
    return out


# ------------------------------------------------------------------------------------------------
# model side: cases.v evaluated by vm_compute; only the failing indices are printed
HEADER = '''From Coq Require Import String Ascii List Bool NArith ZArith.
From Tally Require Import Lib.Str C17.Model.
Import ListNotations.
Open Scope string_scope.
Definition sbytes (l : list N) : string := fold_right (fun n s => String (Ascii.ascii_of_N n) s) EmptyString l.
Definition pair_eqb (a b : string * string) : bool := (String.eqb (fst a) (fst b) && String.eqb (snd a) (snd b))%bool.
Fixpoint list_eqb {A} (e : A -> A -> bool) (a b : list A) : bool :=
  match a, b with [] , [] => true | x :: r, y :: s => (e x y && list_eqb e r s)%bool | _, _ => false end.
Definition set_eqb (a b : list string) : bool := (Nat.eqb (length a) (length b) && forallb (fun x => mem x b) a)%bool.
Definition opt_eqb (a b : option string) : bool :=
  match a, b with None, None => true | Some x, Some y => String.eqb x y | _, _ => false end.
Definition R n m c s me tg p ln lets flds : rule :=
  {| r_name := n; r_match := m; r_category := c; r_subcategory := s; r_merchant := me; r_tags := tg; r_priority := p;
     r_line := ln; r_lets := lets; r_fields := flds |}.
Definition rule_eqb (a b : rule) : bool :=
  (String.eqb (r_name a) (r_name b) && String.eqb (r_match a) (r_match b) && String.eqb (r_category a) (r_category b)
   && String.eqb (r_subcategory a) (r_subcategory b) && String.eqb (r_merchant a) (r_merchant b)
   && set_eqb (r_tags a) (r_tags b) && Z.eqb (r_priority a) (r_priority b) && Nat.eqb (r_line a) (r_line b)
   && list_eqb pair_eqb (r_lets a) (r_lets b) && list_eqb pair_eqb (r_fields a) (r_fields b))%bool.
Definition V n f d vs ln : view := {| v_name := n; v_filter := f; v_desc := d; v_vars := vs; v_line := ln |}.
Definition view_eqb (a b : view) : bool :=
  (String.eqb (v_name a) (v_name b) && String.eqb (v_filter a) (v_filter b) && opt_eqb (v_desc a) (v_desc b)
   && list_eqb pair_eqb (v_vars a) (v_vars b) && Nat.eqb (v_line a) (v_line b))%bool.
Inductive exp_m := XM (r : list rule) (v t : list (string * string)) | XME (line : nat).
Inductive exp_v := XV (g : list (string * string)) (v : list view) | XVE (line : nat).
'''

TAIL = '''Definition pyp (e : string) : bool := mem e valid.
Definition ok_m (c : list string * exp_m) : bool :=
  match parse_merchants pyp (fst c), snd c with
  | Ok f, XM r v t => (list_eqb rule_eqb (m_rules f) r && list_eqb pair_eqb (m_vars f) v && list_eqb pair_eqb (m_transforms f) t)%bool
  | Err n _, XME n' => Nat.eqb n n'
  | _, _ => false
  end.
Definition ok_v (c : list string * exp_v) : bool :=
  match parse_views pyp (fst c), snd c with
  | Ok f, XV g v => (list_eqb pair_eqb (f_globals f) g && list_eqb view_eqb (f_views f) v)%bool
  | Err n _, XVE n' => Nat.eqb n n'
  | _, _ => false
  end.
Fixpoint failing {A} (ok : A -> bool) (i : nat) (l : list A) : list nat :=
  match l with [] => [] | c :: r => if ok c then failing ok (S i) r else i :: failing ok (S i) r end.
Eval vm_compute in failing ok_m 0 cases_m.
Eval vm_compute in failing ok_v 0 cases_v.
'''


def cs(x):
    return coq_str(x)


def pairs(l):
    return '[' + '; '.join(f'({cs(a)}, {cs(b)})' for a, b in l) + ']'


def zlit(n):
    return f'({n})%Z' if n < 0 else f'{n}%Z'


def coq_exp(kind, r):
    if not r['ok']:
        return f"X{'M' if kind == 'm' else 'V'}E {r['line']}"
    if kind == 'm':
        rs = []
        for x in r['rules']:
            rs.append(f"R {cs(x[0])} {cs(x[1])} {cs(x[2])} {cs(x[3])} {cs(x[4])} [{'; '.join(cs(t) for t in x[5])}] "
                      f"{zlit(x[6])} {x[7]} {pairs(x[8])} {pairs(x[9])}")
        return f"XM [{'; '.join(rs)}] {pairs(r['vars'])} {pairs(r['transforms'])}"
    vs = []
    for x in r['views']:
        d = 'None' if x[2] is None else f'(Some {cs(x[2])})'
        vs.append(f"V {cs(x[0])} {cs(x[1])} {d} {pairs(x[3])} {x[4]}")
    return f"XV {pairs(r['globals'])} [{'; '.join(vs)}]"


def expr_candidates(lines):
    """Superset of the strings the model can hand to pyparse: strip of every suffix following ':' or '='."""
    out = set()
    for l in lines:
        s = l.strip()
        for i, ch in enumerate(s):
            if ch in ':=':
                c = s[i + 1:].strip()
                if c:
                    out.add(c)
    return out


def model_check(cases, results, table, name='C17', par=4):
    """cases: [(kind, lines)], results: impl results; table: expr -> True/False/'other:…'.
    Returns (bad indices, compared indices, error text)."""
    idx = [i for i, r in enumerate(results) if 'ok' in r and
           all(not isinstance(table.get(c), str) for c in expr_candidates(cases[i][1]))]
    CH = 400
    chunks = [idx[o:o + CH] for o in range(0, len(idx), CH)]
    jobs = []
    for k, chunk in enumerate(chunks):
        cm, cv, im, iv = [], [], [], []
        cands = set()
        for i in chunk:
            kind, lines = cases[i]
            cands |= expr_candidates(lines)
            row = f"([{'; '.join(cs(l) for l in lines)}], {coq_exp(kind, results[i])})"
            (cm if kind == 'm' else cv).append(row)
            (im if kind == 'm' else iv).append(i)
        valid = sorted(c for c in cands if table.get(c) is True)
        body = ('Definition valid : list string := [' + '; '.join(cs(c) for c in valid) + '].\n'
                'Definition cases_m : list (list string * exp_m) := [\n' + ';\n'.join(cm) + '\n].\n'
                'Definition cases_v : list (list string * exp_v) := [\n' + ';\n'.join(cv) + '\n].\n' + TAIL)
        jobs.append((f'{name}_{k}', body, im, iv))
    bad = []

    def one(job):
        nm, body, im, iv = job
        rc, out, err = run_cases(nm, HEADER, body)
        ms = re.findall(r'=\s*\[(.*?)\]\s*:\s*list nat', out, re.S)
        if rc != 0 or len(ms) != 2:
            return None, (out + err)[-1500:]
        b = []
        for m, ix in zip(ms, (im, iv)):
            b += [ix[int(x)] for x in m.replace('%nat', '').replace('\n', ' ').split(';') if x.strip()]
        return b, ''
    from concurrent.futures import ThreadPoolExecutor
    with ThreadPoolExecutor(max_workers=par) as ex:
        for b, err in ex.map(one, jobs):
            if b is None:
                return None, idx, err
            bad += b
    return sorted(bad), idx, ''
