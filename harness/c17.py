"""C17 — rule files are read by structure alone; malformed ones are rejected, not trimmed.
Proof: C17/Props.v over the hand model C17/Model.v (line classifier + section assembler of
MerchantEngine.parse/_add_rule and parse_sections; expression validity is the oracle `pyparse`).
Tie: parse_merchants / parse_sections vs the model (vm_compute inside coqc) on generated valid files,
all layout-preserving edits of them and all single-point corruptions.
Search: the property's own laws evaluated on implementation outputs only (layout invariance,
one rule per section with the stated properties, rejection with the offending line, no silently
ignored line, load errors reported at API and CLI level)."""
import json
import os
import random
import shutil
import subprocess

from common import *

COQ_FILES = ['Lib/Str.v', 'C17/Model.v', 'C17/Proofs.v', 'C17/Props.v']
IMPL = os.path.join(os.path.dirname(os.path.abspath(__file__)), 'impl_c17.py')
WORKDIR = os.path.join(WORK, 'c17')
GARBAGE = '%%%'          # neither blank, comment, header, assignment nor key: value

# ------------------------------------------------------------------------------------------------
# generators.  A generated file is a list of logical items; each item renders to one line.
#   ('var', name, expr) ('tr', field, expr) ('hdr', name) ('prop', key, value)          merchants
#   ('gvar', name, expr) ('hdr', name) ('filter', e) ('desc', d) ('svar', name, e)       views
VALID_EXPRS = ['contains("NETFLIX")', 'amount > 100', 'regex("UBER\\s*EATS") and month == 12', 'is_large',
               'description == "x=1"', '"a:b" in description', 'contains("CAFÉ")', 'anyof("A", "B")',
               'amount > 5 and not contains("X")', 'x', '(amount)', 'field.memo == "q"', '1',
               # '#' is an ordinary character of a value: inside a literal, and as a Python comment tail kept verbatim
               'contains("SHELL #12")', 'amount > 5 # large', '"#" in description', "contains('A # B') or amount > 1 #x"]
INVALID_EXPRS = ['contains(', ')(', 'amount >', 'lambda: 1', 'x = 1', '"abc', 'a b', '[i for i in x if]', 'import os']
VIEW_EXPRS = ['total > 100', 'months >= 6', 'category == "Food" and cv < 0.5', 'sum(payments) / 12', 'is_frequent',
              '"a:b" in tags', 'x == "p=q"', 'count(payments) > 1', '1',
              'merchant == "SHELL #12"', "'#' in merchant", 'total > 1 # big ones', 'total > 1 #x', 'months >= 2  #  "quoted" tail']
NAMES = ['Netflix', 'Large Purchase', 'A-1', 'Café', 'x]y', 'a:b', 'q = 1', 'Uber Eats', 'Z', 'Store #12', '#1', 'A # B', 'Shop #',
         'Costco [Gas]', '[AMZN] Marketplace', '[]', '[', ']', ']x[', '[[x]]', 'Uber [x] Eats', '] [']
VNAMES = ['Big', 'big', '[x', 'a [b', '[[', 'Every Month', 'A-1', 'Café', 'a:b', 'q = 1', 'Z z', 'Account #2', '#1', 'A # B', 'Top #', 'x#y']
CATS = ['Food', 'Food: Drink', 'A = B', 'Subscriptions', 'Cafés', 'x#y', 'A #1', 'Food # Drink', '#1', 'Aisle #']
TAGS = ['a, b', 'fun(x,y), z', 'a,,b', '{field.x}, k', 'one', 'a, a, B', 'f(a, g(b, c)), d)e, f', 'a #1, b', '#x, y #', 'k, # , z']
DESCS = ['All of it', 'a: b', 'x = y', 'Café visits', 'Our #1 budget line (rent)', 'Shell station #12 and the like', '#1', 'tail #',
         'say "hi" to #2', 'a  #  b']
IDENTS = ['x', 'is_large', 'Big1', '_t', 'field', 'q_2']
WS_LEAD = ['', ' ', '    ', '\t', ' \t ', '\x0c', '\x0b ']
WS_TRAIL = [' ', '   ', '\t', ' \t', '\r', '\x0c']
KNOWN_KEYS = ['let', 'field', 'match', 'category', 'subcategory', 'merchant', 'tags', 'priority']


def casing(rnd, w):
    return rnd.choice([w, w, w.upper(), w.title()])


# systematic corpus: always run, whatever the seed (each base gets every layout edit and every corruption)
CORPUS_M = [
    # the same let name bound twice / three times, in the same and in another letter case; repeated field names
    [('hdr', 'Wire'), ('prop', 'match', 'contains("WIRE")'), ('prop', 'let', 'ref', 'amount > 100'), ('prop', 'let', 'ref', 'x'),
     ('prop', 'field', 'memo', '1'), ('prop', 'field', 'memo', 'is_large'), ('prop', 'category', 'Transfers')],
    [('var', 'is_large', 'amount > 100'), ('hdr', 'Wire 2'), ('prop', 'let', 'Ref', '(amount)'), ('prop', 'let', 'ref', 'x'),
     ('prop', 'let', 'REF', 'is_large'), ('prop', 'match', 'x'), ('prop', 'field', 'Kind', 'x'), ('prop', 'field', 'kind', '1'),
     ('prop', 'field', 'KIND', 'amount > 100'), ('prop', 'tags', 'a, b'),
     ('hdr', 'Other'), ('prop', 'let', 'ref', '1'), ('prop', 'match', 'ref'), ('prop', 'category', 'Food')],
    # a let, a field and the match sharing one expression text; two match lines (the last one is the rule's)
    [('hdr', 'Same'), ('prop', 'let', 'a', 'x'), ('prop', 'field', 'a', 'x'), ('prop', 'match', 'x'), ('prop', 'match', 'amount > 100'),
     ('prop', 'let', 'match', 'x'), ('prop', 'category', 'C'), ('prop', 'category', 'D'), ('prop', 'tags', 'a'), ('prop', 'tags', 'b, c'),
     ('prop', 'priority', '1'), ('prop', 'priority', '2')],
]
CORPUS_M += [
    # bracket characters inside, at the start and at the end of rule names (the name is what stands between the OUTER pair)
    [('hdr', 'Costco [Gas]'), ('prop', 'match', 'x'), ('prop', 'category', 'C'),
     ('hdr', '[AMZN] Marketplace'), ('prop', 'match', 'x'), ('prop', 'tags', 'a'),
     ('hdr', '[]'), ('prop', 'match', 'x'), ('prop', 'category', 'C'), ('prop', 'merchant', '[M]')],
    [('hdr', '['), ('prop', 'match', 'x'), ('prop', 'category', 'C'), ('hdr', ']'), ('prop', 'match', 'x'), ('prop', 'category', 'C'),
     ('hdr', ']x['), ('prop', 'match', 'x'), ('prop', 'category', '[C]'), ('hdr', ' [[x]] '), ('prop', 'match', 'x'), ('prop', 'tags', '[t], u]')],
    # let / field names that are valid identifiers but look like keywords or transform targets
    [('var', 'field', '1'), ('tr', 'field', 'x'), ('hdr', 'K'), ('prop', 'let', 'field', '1'), ('prop', 'let', 'let', 'field'),
     ('prop', 'field', 'field', 'x'), ('prop', 'field', 'match', '1'), ('prop', 'match', 'field'), ('prop', 'category', 'C')],
]
CORPUS_M += [
    # later sections with strictly higher / equal / lower / default priority: the rules come back in FILE order
    [('hdr', 'Low'), ('prop', 'match', 'x'), ('prop', 'category', 'C'), ('prop', 'priority', '1'),
     ('hdr', 'High'), ('prop', 'match', 'x'), ('prop', 'category', 'C'), ('prop', 'priority', '100'),
     ('hdr', 'Default'), ('prop', 'match', 'x'), ('prop', 'tags', 't'),
     ('hdr', 'Mid'), ('prop', 'match', 'x'), ('prop', 'category', 'C'), ('prop', 'priority', '60'),
     ('hdr', 'High2'), ('prop', 'priority', '100'), ('prop', 'match', 'amount > 100 and contains("LONGER PATTERN")'), ('prop', 'category', 'C'),
     ('hdr', 'Neg'), ('prop', 'match', 'x'), ('prop', 'category', 'C'), ('prop', 'priority', '-3')],
]
CORPUS_V = [
    [('hdr', '[x'), ('filter', 'x'), ('hdr', 'a [b'), ('filter', '1'), ('desc', '[d]'), ('hdr', '[['), ('filter', 'x'), ('svar', 'field', '1')],
    [('gvar', 'big', '1'), ('gvar', 'Big', 'total > 100'), ('hdr', 'V'), ('svar', 'x', '1'), ('svar', 'X', 'total > 100'),
     ('filter', 'x'), ('filter', 'total > 100'), ('desc', 'one'), ('desc', 'two'), ('hdr', 'v'), ('filter', '1'), ('svar', 'x', '1')],
]


# keys that are NOT properties of a .rules section, although they name things the parser / the rule record know:
# the parser's working-dict keys, MerchantRule / MatchResult attributes, plural / singular / misspelt variants of the real
# keys, and the keywords of the other file format.  Every one must be rejected as an unknown property.
FOREIGN_KEYS_M = ['name', 'match_expr', 'let_bindings', 'fields', 'tags_list', 'line_number', 'is_categorization_rule', 'has_merchant',
                  'has_subcategory', 'lets', 'tag', 'matches', 'match expr', 'categories', 'sub_category', 'sub category', 'merchants',
                  'merchant_name', 'prio', 'priorities', 'rule', 'rules', 'variables', 'transforms', 'filter', 'description', 'expr',
                  'matched_rule', 'tag_sources', 'extra_fields', 'field.memo', 'let x', 'self', '__class__', '']
FOREIGN_KEYS_V = ['name', 'filter_expr', 'filter_ast', 'variables', 'line_number', 'sections', 'global_variables', 'Filter', 'FILTER',
                  'Description', 'DESCRIPTION', 'filters', 'descriptions', 'desc', 'match', 'category', 'tags', 'filter ', 'description ']

# names that are NOT a plain identifier (a let / field name must match [a-zA-Z_][a-zA-Z0-9_]* exactly)
BAD_NAMES = ['field.{n}', 'field.size', 'Field.{n}', 'txn.{n}', '{n}.x', '1{n}', '{n}-1', '{n} y', '{n}()', '"{n}"', '{n}[0]', '.{n}', '{n}.',
             'field.', 'é{n}']


def gen_m_items(rnd, nsec=None):
    items = []
    used = set()
    for _ in range(rnd.choice([0, 0, 1, 2])):
        n = rnd.choice([i for i in IDENTS if i.lower() not in used])
        used.add(n.lower())
        items.append(('var', n, rnd.choice(VALID_EXPRS)))
    if rnd.random() < 0.35:
        items.insert(rnd.randint(0, len(items)), ('tr', rnd.choice(['description', 'memo', 'X_1']), rnd.choice(VALID_EXPRS)))
    for _ in range(nsec or rnd.choice([1, 1, 2, 3])):
        items.append(('hdr', rnd.choice(NAMES)))
        props = [('match', rnd.choice(VALID_EXPRS))]
        r = rnd.random()
        if r < 0.75:
            props.append(('category', rnd.choice(CATS)))
        if r >= 0.75 or rnd.random() < 0.4:
            props.append(('tags', rnd.choice(TAGS)))
        if rnd.random() < 0.4:
            props.append(('subcategory', rnd.choice(CATS)))
        if rnd.random() < 0.3:
            props.append(('merchant', rnd.choice(NAMES)))
        if rnd.random() < 0.4:
            props.append(('priority', rnd.choice(['10', '+5', '-3', '1_000', '007', '0'])))
        # let names may repeat (a list of bindings: `let: ref = …` then `let: Ref = f(ref)`), field names too (a dict:
        # the last line for a lower-cased name wins)
        for _ in range(rnd.choice([0, 0, 1, 2, 3])):
            props.append(('let', casing(rnd, rnd.choice(['x', 'ref', 'is_large', '_t', 'q_2', 'field'])), rnd.choice(VALID_EXPRS)))
        for _ in range(rnd.choice([0, 0, 1, 2, 3])):
            props.append(('field', casing(rnd, rnd.choice(['memo', 'kind', 'x_1'])), rnd.choice(VALID_EXPRS)))
        rnd.shuffle(props)
        # lets keep their generated order among themselves (a list in the result)
        items += [('prop',) + p for p in props]
    return items


def gen_v_items(rnd, nsec=None):
    items = []
    for n in rnd.sample(IDENTS + ['1a', 'X', 'BIG1'], rnd.choice([0, 0, 1, 2, 3])):
        items.append(('gvar', n, rnd.choice(VIEW_EXPRS)))
    nv = nsec or rnd.choice([1, 1, 2, 3])
    for name in rnd.sample(VNAMES, nv):
        items.append(('hdr', name))
        body = [('filter', rnd.choice(VIEW_EXPRS))]
        if rnd.random() < 0.5:
            body.append(('desc', rnd.choice(DESCS)))
        for n in rnd.sample(IDENTS + ['1a', 'X', 'BIG1'], rnd.choice([0, 0, 1, 2, 3])):
            body.append(('svar', n, rnd.choice(VIEW_EXPRS)))
        rnd.shuffle(body)
        items += body
    return items


def render(it, rnd=None):
    """Canonical one-line rendering of an item (no indentation, single spaces)."""
    k = it[0]
    if k in ('var', 'gvar', 'svar'):
        return f'{it[1]} = {it[2]}'
    if k == 'tr':
        return f'field.{it[1]} = {it[2]}'
    if k == 'hdr':
        return f'[{it[1]}]'
    if k == 'prop':
        if it[1] in ('let', 'field'):
            return f'{it[1]}: {it[2]} = {it[3]}'
        return f'{it[1]}: {it[2]}'
    if k == 'filter':
        return f'filter: {it[1]}'
    if k == 'desc':
        return f'description: {it[1]}'
    raise ValueError(k)


def item_key(it):
    """What makes two property lines 'distinct properties' (may be reordered)."""
    if it[0] == 'prop':
        return it[1]
    return it[0] if it[0] in ('filter', 'desc') else ('svar', it[1].lower())


# ---- the property's reading of a generated file (independent of tally and of the Coq model) ----
def split_tags_spec(v):
    out, depth, cur = [], 0, ''
    for ch in v:
        if ch == '(':
            depth += 1
        elif ch == ')':
            depth -= 1
        if ch == ',' and depth == 0:
            out.append(cur)
            cur = ''
        else:
            cur += ch
    out.append(cur)
    return sorted({t.strip() for t in out if t.strip()})


def spec_m(items, lines_of):
    """Expected parse of a VALID merchants item list; lines_of[i] = 1-based line of item i."""
    vars_, trs, rules, cur = {}, [], [], None
    for i, it in enumerate(items):
        if it[0] == 'var':
            vars_[it[1].lower()] = it[2]
        elif it[0] == 'tr':
            trs.append(['field.' + it[1], it[2]])
        elif it[0] == 'hdr':
            cur = {'name': it[1].strip(), 'line': lines_of[i], 'lets': [], 'fields': {}}
            rules.append(cur)
        else:
            key = it[1]
            if key == 'let':
                cur['lets'].append([it[2].lower(), it[3]])
            elif key == 'field':
                cur['fields'][it[2].lower()] = it[3]
            else:
                cur[key] = it[2]
    out = []
    for r in rules:
        out.append([r['name'], r['match'], r.get('category', ''), r.get('subcategory', ''), r.get('merchant') or r['name'],
                    split_tags_spec(r.get('tags', '')), int(r.get('priority', '50').replace('_', '')), r['line'],
                    r['lets'], [[k, v] for k, v in r['fields'].items()]])
    return {'ok': True, 'rules': out, 'vars': [[k, v] for k, v in vars_.items()], 'transforms': trs}


def spec_v(items, lines_of):
    g, views, cur = {}, [], None
    for i, it in enumerate(items):
        if it[0] == 'gvar':
            g[it[1].lower()] = it[2]          # names are stored lower-cased
        elif it[0] == 'hdr':
            cur = [it[1].strip(), None, None, {}, lines_of[i]]
            views.append(cur)
        elif it[0] == 'filter':
            cur[1] = it[1]
        elif it[0] == 'desc':
            cur[2] = it[1]
        else:
            cur[3][it[1].lower()] = it[2]
    return {'ok': True, 'globals': [[k, v] for k, v in g.items()],
            'views': [[v[0], v[1], v[2], [[k, x] for k, x in v[3].items()], v[4]] for v in views]}


def valid_items(kind, items):
    """The item list still renders to a VALID file (every section keeps what makes it complete)."""
    secs, cur = [], None
    for it in items:
        if it[0] == 'hdr':
            cur = []
            secs.append(cur)
        elif cur is not None:
            cur.append(it)
        elif it[0] in ('prop', 'filter', 'desc', 'svar'):
            return False
    if not secs:
        return False
    for sec in secs:
        if kind == 'm':
            keys = [it[1] for it in sec]
            if 'match' not in keys or not ('category' in keys or 'tags' in keys):
                return False
            if 'category' not in keys and not any(split_tags_spec(it[2]) for it in sec if it[1] == 'tags'):
                return False
        elif not any(it[0] == 'filter' for it in sec):
            return False
    return True


def shrink_items(kind, items, rejected):
    """Delete items of a valid file while it stays valid and is still misread in the same way."""
    from_spec = spec_m if kind == 'm' else spec_v

    def fails(its):
        ls = [render(i) for i in its]
        r = impl_one(kind, ls)
        if 'exc' in r or (not r.get('ok')) != rejected:
            return False
        return canon(kind, r) != canon(kind, from_spec(its, list(range(1, len(ls) + 1))))
    items = list(items)
    changed = True
    while changed:
        changed = False
        for j in range(len(items) - 1, -1, -1):
            cand = items[:j] + items[j + 1:]
            # deleting a header deletes its section
            if items[j][0] == 'hdr':
                k = j + 1
                while k < len(items) and items[k][0] != 'hdr':
                    k += 1
                cand = items[:j] + items[k:]
            if valid_items(kind, cand) and fails(cand):
                items, changed = cand, True
                break
    return items


def erase_lines(kind, r):
    """Result with the line numbers removed (what layout edits that insert lines must preserve)."""
    if not r.get('ok'):
        return {'ok': False} if 'ok' in r else r
    r = json.loads(json.dumps(r))
    for x in r['rules' if kind == 'm' else 'views']:
        x[7 if kind == 'm' else 4] = 0
    return r


# ---- layout-preserving edits: (name, new lines, line map old index -> new index or None) ----------
def layout_edits(kind, items, lines, rnd, per_kind=1):
    n = len(lines)
    ident = list(range(n))
    out = []

    def ins(name, pos, text):
        out.append((name, lines[:pos] + [text] + lines[pos:], [i if i < pos else i + 1 for i in range(n)]))

    for _ in range(per_kind):
        ins('insert_comment', rnd.randint(0, n), rnd.choice(['# note', '  # [x]', '#match: y', '\t#', '# a = b', '#filter: 1']))
        ins('insert_blank', rnd.randint(0, n), rnd.choice(['', '   ', '\t', ' \r', '\x0c']))
        i = rnd.randrange(n)
        out.append(('trailing_blanks', lines[:i] + [lines[i] + rnd.choice(WS_TRAIL)] + lines[i + 1:], ident))
        props = [i for i, it in enumerate(items) if it[0] != 'hdr']
        if props:
            i = rnd.choice(props)
            out.append(('reindent_property', lines[:i] + [rnd.choice(WS_LEAD[1:]) + lines[i].lstrip()] + lines[i + 1:], ident))
        hdrs = [i for i, it in enumerate(items) if it[0] == 'hdr']
        if kind == 'm':
            i = rnd.choice(hdrs)
            out.append(('reindent_header', lines[:i] + [rnd.choice(WS_LEAD[1:]) + lines[i].lstrip()] + lines[i + 1:], ident))
            pl = [i for i, it in enumerate(items) if it[0] == 'prop']
            i = rnd.choice(pl)
            k, rest = lines[i].split(':', 1)
            k2 = rnd.choice([k.upper(), k.title(), ''.join(c.upper() if rnd.random() < .5 else c for c in k)])
            out.append(('key_case', lines[:i] + [k2 + ':' + rest] + lines[i + 1:], ident))
        # permutation of a section's distinct properties (same-key lines keep their relative order)
        h = rnd.choice(hdrs)
        j = h + 1
        while j < n and items[j][0] != 'hdr':
            j += 1
        body = list(range(h + 1, j))
        if len(body) >= 2:
            perm = body[:]
            rnd.shuffle(perm)
            bykey = {}
            for i in body:
                bykey.setdefault(item_key(items[i]), []).append(i)
            seen = {}
            fixed = []
            for i in perm:          # keep same-key lines in original relative order
                k = item_key(items[i])
                fixed.append(bykey[k][seen.get(k, 0)])
                seen[k] = seen.get(k, 0) + 1
            new = lines[:h + 1] + [lines[i] for i in fixed] + lines[j:]
            out.append(('permute_distinct_properties', new, None))
    out.append(('crlf', [l + '\r' for l in lines[:-1]] + [lines[-1]], ident))
    out.append(('crlf_all', [l + '\r' for l in lines], ident))
    return out


# ---- single-point corruptions: (name, new lines, expectation) -----------------------------------
# expectation: None (no claim: the property does not say) | ('reject', line) must be an error naming that line
def corruptions(kind, items, lines, rnd, full=False):
    """full=True (corpus files): every malformed-name form for every let / field line; otherwise a random pair."""
    n = len(lines)
    out = []
    hdr_of = {}
    cur = None
    for i, it in enumerate(items):
        if it[0] == 'hdr':
            cur = i
        hdr_of[i] = cur
    for i, it in enumerate(items):
        L = i + 1
        hl = (hdr_of[i] + 1) if hdr_of[i] is not None else None
        dele = lines[:i] + lines[i + 1:]
        exp = None
        later = []
        for x in items[i + 1:]:
            if x[0] == 'hdr':
                break
            later.append(x)
        sec_items = [x for j, x in enumerate(items) if hdr_of.get(j) == hdr_of[i] and x[0] != 'hdr'] if hdr_of[i] is not None else []
        last_match = it[0] == 'prop' and it[1] == 'match' and not any(x[1] == 'match' for x in later)
        last_field = it[0] == 'prop' and it[1] == 'field' and not any(x[1] == 'field' and x[2].lower() == it[2].lower() for x in later)
        if kind == 'm' and last_match and sum(1 for x in sec_items if x[1] == 'match') == 1:
            exp = ('reject', hl)                      # the section now lacks its match
        if kind == 'v' and it[0] == 'filter' and sum(1 for x in sec_items if x[0] == 'filter') == 1:
            exp = ('reject', hl)
        if kind == 'm' and it[0] == 'hdr' and not any(x[0] == 'hdr' for x in items[:i]):
            exp = ('reject', L)                       # its property lines now stand before the first header
        out.append(('delete', dele, exp))
        out.append(('duplicate', lines[:i + 1] + [lines[i]] + lines[i + 1:], None))
        in_sec = any(x[0] == 'hdr' for x in items[:i])     # an earlier header exists: the line sits inside a section
        out.append(('garbage', lines[:i] + [GARBAGE] + lines[i + 1:], ('reject', L)))

        def alt(name, text, exp):
            out.append((name, lines[:i] + [text] + lines[i + 1:], exp))
        bad = rnd.choice(INVALID_EXPRS)
        if kind == 'm':
            if it[0] == 'prop':
                alt('unknown_property', 'colour:' + lines[i].split(':', 1)[1], ('reject', L))
                # every foreign key on the first property line and on the match line of each corpus section; a random pair elsewhere
                for fk in (FOREIGN_KEYS_M if full and (it[1] == 'match' or i == hdr_of[i] + 1) else rnd.sample(FOREIGN_KEYS_M, 2)):
                    # the line re-keyed, and a line with that key added right after this one
                    alt('unknown_property', fk + ':' + lines[i].split(':', 1)[1], ('reject', L))
                    out.append(('unknown_property', lines[:i + 1] + [f'{fk}: {rnd.choice(NAMES)}'] + lines[i + 1:], ('reject', L + 1)))
                alt('no_colon', lines[i].replace(':', ' ').replace('=', ' '), ('reject', L))
                if it[1] == 'let':
                    for bl in (BAD_NAMES if full else rnd.sample(BAD_NAMES, 2)):
                        alt('bad_let', f'let: {bl.format(n=it[2])} = {it[3]}', ('reject', L))
                    forms = (f'let: {it[2]}', f'let: {it[2]} =', 'let:', f'let: {it[2]} {it[3]}', f'let: = {it[3]}')
                    for bl in (forms if full else rnd.sample(forms, 1)):
                        alt('bad_let', bl, ('reject', L))
                    alt('invalid_expression', f'let: {it[2]} = {bad}', ('reject', hl))
                elif it[1] == 'field':
                    for bl in (BAD_NAMES if full else rnd.sample(BAD_NAMES, 2)):
                        alt('bad_field', f'field: {bl.format(n=it[2])} = {it[3]}', ('reject', L))
                    forms = (f'field: {it[2]}', f'field: {it[2]} =', 'field:', f'field: = {it[3]}')
                    for bl in (forms if full else rnd.sample(forms, 1)):
                        alt('bad_field', bl, ('reject', L))
                    # a field line overridden by a later one with the same (lower-cased) name is not the rule's field
                    alt('invalid_expression', f'field: {it[2]} = {bad}', ('reject', hl) if last_field else None)
                elif it[1] == 'priority':
                    alt('bad_priority', 'priority: ' + rnd.choice(['abc', '1.5', '', '1 0', '_1', '1__0', '5_', '--1', '0x10']), ('reject', L))
                elif it[1] == 'match':
                    alt('invalid_expression', f'match: {bad}', ('reject', hl) if last_match else None)
            elif it[0] == 'hdr':
                alt('header_unclosed', '[' + it[1], None if header_shaped('m', '[' + it[1]) else ('reject', L))
                alt('header_empty', rnd.choice(['[]', '[  ]']), ('reject', L))
            elif it[0] in ('var', 'tr'):
                lhs = lines[i].split('=', 1)[0]
                alt('invalid_expression', f'{lhs}= {bad}', ('reject', L))
        else:
            if it[0] == 'filter':
                alt('invalid_expression', f'filter: {bad}', ('reject', L))
                alt('filter_empty', 'filter:', ('reject', L))
                alt('unknown_property', 'colour: ' + it[1], ('reject', L))
                for fk in (FOREIGN_KEYS_V if full else rnd.sample(FOREIGN_KEYS_V, 2)):
                    alt('unknown_property', f'{fk}: {it[1]}', ('reject', L))
                    out.append(('unknown_property', lines[:i + 1] + [f'{fk}: x'] + lines[i + 1:], ('reject', L + 1)))
            elif it[0] in ('gvar', 'svar'):
                alt('invalid_expression', f'{it[1]} = {bad}', ('reject', L))
            elif it[0] == 'desc':
                alt('unknown_property', 'colour: ' + it[1], ('reject', L))
            elif it[0] == 'hdr':
                alt('header_unclosed', '[' + it[1], ('reject', L))
                alt('header_indented', '  ' + lines[i], ('reject', L))
                earlier = [x[1] for x in items[:i] if x[0] == 'hdr']
                if earlier:
                    alt('duplicate_name', rnd.choice(['[%s]', '[ %s ]  ', '[%s]\t']) % rnd.choice(earlier), ('reject', L))
    return out


# ------------------------------------------------------------------------------------------------
# model side: cases.v evaluated by vm_compute; only the failing indices are printed
HEADER = '''From Coq Require Import String Ascii List Bool NArith ZArith.
From Tally Require Import Lib.Str C17.Model.
Import ListNotations.
Open Scope string_scope.
Definition sbytes (l : list N) : string := fold_right (fun n s => String (Ascii.ascii_of_N n) s) EmptyString l.
Definition pair_eqb (a b : string * string) : bool := (String.eqb (fst a) (fst b) && String.eqb (snd a) (snd b))%bool.
Fixpoint list_eqb {A} (e : A -> A -> bool) (a b : list A) : bool :=
  match a, b with [] , [] => true | x :: r, y :: s => (e x y && list_eqb e r s)%bool | _, _ => false end.
Definition set_eqb (a b : list string) : bool := (Nat.eqb (length a) (length b) && forallb (fun x => mem x b) a)%bool.
Definition opt_eqb (a b : option string) : bool :=
  match a, b with None, None => true | Some x, Some y => String.eqb x y | _, _ => false end.
Definition R n m c s me tg p ln lets flds : rule :=
  {| r_name := n; r_match := m; r_category := c; r_subcategory := s; r_merchant := me; r_tags := tg; r_priority := p;
     r_line := ln; r_lets := lets; r_fields := flds |}.
Definition rule_eqb (a b : rule) : bool :=
  (String.eqb (r_name a) (r_name b) && String.eqb (r_match a) (r_match b) && String.eqb (r_category a) (r_category b)
   && String.eqb (r_subcategory a) (r_subcategory b) && String.eqb (r_merchant a) (r_merchant b)
   && set_eqb (r_tags a) (r_tags b) && Z.eqb (r_priority a) (r_priority b) && Nat.eqb (r_line a) (r_line b)
   && list_eqb pair_eqb (r_lets a) (r_lets b) && list_eqb pair_eqb (r_fields a) (r_fields b))%bool.
Definition V n f d vs ln : view := {| v_name := n; v_filter := f; v_desc := d; v_vars := vs; v_line := ln |}.
Definition view_eqb (a b : view) : bool :=
  (String.eqb (v_name a) (v_name b) && String.eqb (v_filter a) (v_filter b) && opt_eqb (v_desc a) (v_desc b)
   && list_eqb pair_eqb (v_vars a) (v_vars b) && Nat.eqb (v_line a) (v_line b))%bool.
Inductive exp_m := XM (r : list rule) (v t : list (string * string)) | XME (line : nat).
Inductive exp_v := XV (g : list (string * string)) (v : list view) | XVE (line : nat).
'''

TAIL = '''Definition pyp (e : string) : bool := mem e valid.
Definition ok_m (c : list string * exp_m) : bool :=
  match parse_merchants pyp (fst c), snd c with
  | Ok f, XM r v t => (list_eqb rule_eqb (m_rules f) r && list_eqb pair_eqb (m_vars f) v && list_eqb pair_eqb (m_transforms f) t)%bool
  | Err n _, XME n' => Nat.eqb n n'
  | _, _ => false
  end.
Definition ok_v (c : list string * exp_v) : bool :=
  match parse_views pyp (fst c), snd c with
  | Ok f, XV g v => (list_eqb pair_eqb (f_globals f) g && list_eqb view_eqb (f_views f) v)%bool
  | Err n _, XVE n' => Nat.eqb n n'
  | _, _ => false
  end.
Definition ok_e (mode : match_mode) (c : list string * exp_m) : bool :=
  match parse_engine pyp mode (fst c), snd c with
  | Ok e, XM r v t => (list_eqb rule_eqb (e_rules e) r && list_eqb pair_eqb (e_vars e) v && list_eqb pair_eqb (e_tr e) t
                       && match e_mode e, mode with FirstMatch, FirstMatch | MostSpecific, MostSpecific => true | _, _ => false end)%bool
  | Err n _, XME n' => Nat.eqb n n'
  | _, _ => false
  end.
Fixpoint failing {A} (ok : A -> bool) (i : nat) (l : list A) : list nat :=
  match l with [] => [] | c :: r => if ok c then failing ok (S i) r else i :: failing ok (S i) r end.
Eval vm_compute in failing ok_m 0 cases_m.
Eval vm_compute in failing ok_v 0 cases_v.
Eval vm_compute in failing (ok_e FirstMatch) 0 cases_e1.
Eval vm_compute in failing (ok_e MostSpecific) 0 cases_e2.
'''


def cs(x):
    return coq_str(x)


def pairs(l):
    return '[' + '; '.join(f'({cs(a)}, {cs(b)})' for a, b in l) + ']'


def zlit(n):
    return f'({n})%Z' if n < 0 else f'{n}%Z'


def coq_exp(kind, r):
    if not r['ok']:
        return f"X{'M' if kind == 'm' else 'V'}E {r['line']}"
    if kind == 'm':
        rs = []
        for x in r['rules']:
            rs.append(f"R {cs(x[0])} {cs(x[1])} {cs(x[2])} {cs(x[3])} {cs(x[4])} [{'; '.join(cs(t) for t in x[5])}] "
                      f"{zlit(x[6])} {x[7]} {pairs(x[8])} {pairs(x[9])}")
        return f"XM [{'; '.join(rs)}] {pairs(r['vars'])} {pairs(r['transforms'])}"
    vs = []
    for x in r['views']:
        d = 'None' if x[2] is None else f'(Some {cs(x[2])})'
        vs.append(f"V {cs(x[0])} {cs(x[1])} {d} {pairs(x[3])} {x[4]}")
    return f"XV {pairs(r['globals'])} [{'; '.join(vs)}]"


def expr_candidates(lines):
    """Superset of the strings the model can hand to pyparse: strip of every suffix following ':' or '='."""
    out = set()
    for l in lines:
        s = l.strip()
        for i, ch in enumerate(s):
            if ch in ':=':
                c = s[i + 1:].strip()
                if c:
                    out.add(c)
    return out


def model_check(cases, results, table, name='C17', par=4):
    """cases: [(kind, lines)], results: impl results; table: expr -> True/False/'other:…'.
    Returns (bad indices, compared indices, error text)."""
    idx = [i for i, r in enumerate(results) if 'ok' in r and
           all(not isinstance(table.get(c), str) for c in expr_candidates(cases[i][1]))]
    CH = 400
    chunks = [idx[o:o + CH] for o in range(0, len(idx), CH)]
    jobs = []
    for k, chunk in enumerate(chunks):
        rows = {'m': [], 'v': [], 'e1': [], 'e2': []}
        ixs = {'m': [], 'v': [], 'e1': [], 'e2': []}
        cands = set()
        for i in chunk:
            kind, lines = cases[i]
            cands |= expr_candidates(lines)
            rows[kind].append(f"([{'; '.join(cs(l) for l in lines)}], {coq_exp('v' if kind == 'v' else 'm', results[i])})")
            ixs[kind].append(i)
        cm, cv = rows['m'], rows['v']
        valid = sorted(c for c in cands if table.get(c) is True)
        body = ('Definition valid : list string := [' + '; '.join(cs(c) for c in valid) + '].\n'
                'Definition cases_m : list (list string * exp_m) := [\n' + ';\n'.join(cm) + '\n].\n'
                'Definition cases_v : list (list string * exp_v) := [\n' + ';\n'.join(cv) + '\n].\n'
                'Definition cases_e1 : list (list string * exp_m) := [\n' + ';\n'.join(rows['e1']) + '\n].\n'
                'Definition cases_e2 : list (list string * exp_m) := [\n' + ';\n'.join(rows['e2']) + '\n].\n' + TAIL)
        jobs.append((f'{name}_{k}', body, [ixs['m'], ixs['v'], ixs['e1'], ixs['e2']]))
    bad = []

    def one(job):
        nm, body, ixl = job
        rc, out, err = run_cases(nm, HEADER, body)
        ms = re.findall(r'=\s*\[(.*?)\]\s*:\s*list nat', out, re.S)
        if rc != 0 or len(ms) != 4:
            return None, (out + err)[-1500:]
        b = []
        for m, ix in zip(ms, ixl):
            b += [ix[int(x)] for x in m.replace('%nat', '').replace('\n', ' ').split(';') if x.strip()]
        return b, ''
    from concurrent.futures import ThreadPoolExecutor
    with ThreadPoolExecutor(max_workers=par) as ex:
        for b, err in ex.map(one, jobs):
            if b is None:
                return None, idx, err
            bad += b
    return sorted(bad), idx, ''


# ------------------------------------------------------------------------------------------------
# structural readings used by the direct oracles (independent of tally and of the Coq model)
def is_skip(line):
    s = line.strip()
    return not s or s.startswith('#')


def header_shaped(kind, line):
    if is_skip(line):
        return False
    if kind == 'm':
        s = line.strip()
        return s.startswith('[') and s.endswith(']')
    return re.match(r'^\[[^\]]+\]\s*$', line) is not None


ASSIGN_RE = re.compile(r'^(field\.)?[A-Za-z_][A-Za-z0-9_]*\s*=\s*\S')


def first_header(kind, lines):
    for i, l in enumerate(lines):
        if header_shaped(kind, l):
            return i
    return len(lines)


def canon(kind, r):
    """Dict-valued parts compared as dicts (order of a Python dict is not an observable)."""
    if not r.get('ok'):
        return r
    r = json.loads(json.dumps(r))
    if kind == 'm':
        r['vars'] = sorted(r['vars'])
        for x in r['rules']:
            x[9] = sorted(x[9])
    else:
        r['globals'] = sorted(r['globals'])
        for x in r['views']:
            x[3] = sorted(x[3])
    return r


def map_lines(kind, r, linemap):
    r = json.loads(json.dumps(r))
    if linemap is None:
        return r
    if not r.get('ok'):
        if 'line' in r and 1 <= r['line'] <= len(linemap):
            r['line'] = linemap[r['line'] - 1] + 1
        return r
    for x in r['rules' if kind == 'm' else 'views']:
        j = 7 if kind == 'm' else 4
        x[j] = linemap[x[j] - 1] + 1
    return r


def impl_batch(cases):
    """cases: [(kind, lines)] -> results in order."""
    m = ['\n'.join(l) for k, l in cases if k == 'm']
    v = ['\n'.join(l) for k, l in cases if k == 'v']
    res = run_impl(IMPL, {'m': m, 'v': v}, timeout=3000)
    im, iv = iter(res['m']), iter(res['v'])
    return [next(im) if k == 'm' else next(iv) for k, l in cases]


def impl_one(kind, lines):
    return impl_batch([(kind, lines)])[0]


# ---- single-file checks (used by the search, the shrinker and replay) -----------------------------
def check_reject(kind, lines, key, want_line=None):
    """The file contains a defect at line index `key`; returns a failure description or None."""
    r = impl_one(kind, lines)
    if 'exc' in r:
        return {'observed': r, 'why': 'unexpected exception class'}
    if r['ok']:
        return {'observed': r, 'why': 'accepted'}
    if want_line is not None and r['line'] != want_line:
        return {'observed': r, 'why': f'error names line {r["line"]}, expected {want_line}'}
    return None


def check_drop(kind, lines, key):
    """Line `key` of an accepted file can be overwritten with garbage without any change."""
    r = impl_one(kind, lines)
    if not r.get('ok'):
        return None
    g = impl_one(kind, lines[:key] + [GARBAGE] + lines[key + 1:])
    if g == r:
        return {'observed': r, 'why': f'line {key + 1} replaced by {GARBAGE!r}: identical outcome'}
    return None


def check_mode(lines):
    """What is read from a .rules file does not depend on the engine's match mode (the mode only governs matching)."""
    a = impl_one('m', lines)
    b = run_impl(IMPL, {'m_ms': ['\n'.join(lines)]})['m_ms'][0]
    if a != b:
        return {'observed': {'first_match': a, 'most_specific': b},
                'why': "parse_merchants(text, 'most_specific') differs from parse_merchants(text): " +
                       ('rules are not in file order' if a.get('ok') and b.get('ok') and sorted(map(json.dumps, a['rules'])) == sorted(map(json.dumps, b['rules']))
                        else 'different outcome')}
    return None


SEQ_CORPUS = [
    # the same path, unloadable for a DIFFERENT reason each time (and loadable in between)
    [['[A]', 'category: c'], ['[A]', 'match: x', 'colour: r', 'category: c'], ['[A]', 'match: x', 'category: c'],
     ['[A]', 'match: )(', 'category: c'], ['junk', '[A]', 'match: x', 'category: c'], ['v = )(', '[A]', 'match: x', 'category: c'],
     ['[A]', 'match: x', 'category: c', '[B]', 'category: d'], ['[A]', 'match: x', 'category: c', '', '[B]', 'category: d']],
    # same defect, only the line differs; then the very same text again (may be silent: already shown)
    [['[A]', 'match: x', 'priority: z'], ['', '[A]', 'match: x', 'priority: z'], ['', '[A]', 'match: x', 'priority: z'], ['[A]', 'match: x', 'priority: z']],
]


def check_load_seq(texts, only=None):
    """Every step whose file is unloadable with an error not shown earlier in the process must tell the user something."""
    job = {'texts': ['\n'.join(t) for t in texts], 'dir': os.path.join(WORKDIR, 'loadseq')}
    if only:
        job['only'] = only
    steps = run_impl(IMPL, {'load_seq': [job]})['load_seq'][0]
    shown = set()
    for k, st in enumerate(steps):
        if st['err'] is not None:
            if st['err'] not in shown and not st['said'] and not st['exc']:
                return {'observed': steps, 'step': k,
                        'why': f'step {k + 1}: the file has a parse error not reported before in this process, the loaders returned {st["values"]} and nothing reached the user'}
            shown.add(st['err'])
    return None


# ---- report memory: operation sequences, implementation vs the Coq state machine ---------------------------------
MEM_TEXTS = [['[A]', 'match: x', 'category: c'], ['[A]', 'category: c'], ['[A]', 'match: x', 'colour: r'], ['junk', '[A]', 'match: x', 'tags: t'],
             ['', '[A]', 'category: c'], ['[A]', 'match: )(', 'tags: t'], ['v = 1', '[B]', 'match: x', 'tags: t'], ['[A]', 'match: x', 'priority: z']]


def gen_ops(rnd, n):
    ops = []
    for _ in range(n):
        if rnd.random() < 0.12:
            ops.append({'op': 'clear'})
        else:
            ops.append({'op': 'load', 'path': rnd.choice([0, 0, 1]), 'text': '\n'.join(rnd.choice(MEM_TEXTS)),
                        'loader': rnd.choice(['rules', 'transforms', 'tag_rules'])})
    return ops


def ops_of_steps(texts):
    ops = []
    order = ['transforms', 'rules', 'tag_rules']
    for k, t in enumerate(texts):
        for l in order[k % 3:] + order[:k % 3]:
            ops.append({'op': 'load', 'path': 0, 'text': '\n'.join(t), 'loader': l})
    return ops


MEM_HEADER = '''From Coq Require Import String Ascii List Bool NArith Arith.
From Tally Require Import Lib.Str C17.Model.
Import ListNotations.
Open Scope string_scope.
Definition sbytes (l : list N) : string := fold_right (fun n s => String (Ascii.ascii_of_N n) s) EmptyString l.
Fixpoint bl_eqb (a b : list bool) : bool :=
  match a, b with [], [] => true | x :: r, y :: s => (Bool.eqb x y && bl_eqb r s)%bool | _, _ => false end.
Definition L (p : nat) (o : option string) : call nat string := Load p o.
Definition C : call nat string := ClearCache.
Definition ok_s (c : list (call nat string) * list bool) : bool :=
  bl_eqb (run_calls nat string Nat.eqb String.eqb [] (fst c)) (snd c).
Fixpoint failing (i : nat) (l : list (list (call nat string) * list bool)) : list nat :=
  match l with [] => [] | c :: r => if ok_s c then failing (S i) r else i :: failing (S i) r end.
'''


def model_check_mem(obs_list, name='C17_mem'):
    """obs_list: per sequence the implementation's per-operation observations. Returns failing sequence indices or None."""
    rows = []
    for obs in obs_list:
        calls, flags = [], []
        for o in obs:
            if o['op'] == 'clear':
                calls.append('C')
                flags.append('false')
            else:
                calls.append(f"L {o['path']} " + ('None' if o['err'] is None else f"(Some {cs(o['err'])})"))
                flags.append('true' if (o['said'] or o['exc']) else 'false')
        rows.append(f"([{'; '.join(calls)}], [{'; '.join(flags)}])")
    body = 'Definition seqs := [\n' + ';\n'.join(rows) + '\n].\nEval vm_compute in failing 0 seqs.\n'
    rc, out, err = run_cases(name, MEM_HEADER, body)
    m = re.search(r'=\s*\[(.*?)\]\s*:\s*list nat', out, re.S)
    if rc != 0 or not m:
        return None, (out + err)[-1200:]
    return [int(x) for x in m.group(1).replace('%nat', '').replace('\n', ' ').split(';') if x.strip()], ''


def check_ops(ops):
    """Direct law on one operation sequence: an error of a path not shown since the last clear reaches the user."""
    obs = run_impl(IMPL, {'load_ops': [{'ops': ops, 'dir': os.path.join(WORKDIR, 'loadops')}]})['load_ops'][0]
    shown = set()
    for k, o in enumerate(obs):
        if o['op'] == 'clear':
            shown = set()
        elif o['err'] is not None:
            if (o['path'], o['err']) not in shown and not o['said'] and not o['exc']:
                return {'observed': obs, 'step': k, 'why': f'operation {k + 1}: a load error not shown since the last clear_engine_cache() produced no message'}
            shown.add((o['path'], o['err']))
    return None


def check_count(kind, lines):
    r = impl_one(kind, lines)
    if not r.get('ok'):
        return None
    n = len(r['rules' if kind == 'm' else 'views'])
    h = sum(1 for l in lines if header_shaped(kind, l))
    if n != h:
        return {'observed': r, 'why': f'{h} section headers, {n} rules/views'}
    return None


def apply_desc(lines, d):
    if d[0] == 'insert':
        return lines[:d[1]] + [d[2]] + lines[d[1]:], [i if i < d[1] else i + 1 for i in range(len(lines))]
    if d[0] == 'replace':
        return lines[:d[1]] + [d[2]] + lines[d[1] + 1:], list(range(len(lines)))
    if d[0] == 'crlf':
        return [l + '\r' for l in lines], list(range(len(lines)))
    if d[0] == 'lines':
        return list(d[1]), d[2]
    raise ValueError(d)


def check_layout(kind, lines, desc, pre=None):
    new, lm = apply_desc(lines, desc)
    rb, re_ = pre if pre is not None else impl_batch([(kind, lines), (kind, new)])
    if 'exc' in rb or 'exc' in re_:
        return {'observed': [rb, re_], 'why': 'unexpected exception class'}
    if rb.get('ok'):
        want = canon(kind, map_lines(kind, rb, lm))
        if canon(kind, re_) != want:
            return {'observed': re_, 'expected': want, 'why': 'result changed under a layout edit'}
    else:
        if re_.get('ok'):
            return {'observed': re_, 'expected': rb, 'why': 'a rejected file is accepted after a layout edit'}
        if lm is not None and desc[0] != 'lines' and re_['line'] != map_lines(kind, rb, lm)['line']:
            return {'observed': re_, 'expected': map_lines(kind, rb, lm), 'why': 'error line does not follow the edit'}
    return None


def shrink_lines(lines, keep, fails):
    """Delete lines (never index `keep`) while fails(lines, keep) stays true."""
    lines = list(lines)
    changed = True
    while changed:
        changed = False
        for j in range(len(lines) - 1, -1, -1):
            if j == keep:
                continue
            cand = lines[:j] + lines[j + 1:]
            k2 = keep - 1 if (keep is not None and j < keep) else keep
            try:
                if fails(cand, k2):
                    lines, keep, changed = cand, k2, True
            except Exception:  # noqa
                pass
    return lines, keep


def desc_of_edit(lines, new, lm):
    """Compact description of a layout edit so that it can be re-applied after lines were deleted."""
    if lm is not None and len(new) == len(lines) + 1:
        pos = next(i for i in range(len(lines) + 1) if i == len(lines) or lm[i] != i)
        return ('insert', pos, new[pos])
    if lm is not None and len(new) == len(lines):
        diff = [i for i in range(len(lines)) if lines[i] != new[i]]
        if len(diff) == 1:
            return ('replace', diff[0], new[diff[0]])
    return ('lines', new, lm)


def shrink_layout(kind, lines, desc):
    if desc[0] not in ('insert', 'replace'):
        return lines, desc
    f0 = check_layout(kind, lines, desc)
    if f0 is None:
        return lines, desc
    why0 = f0['why']        # keep the same kind of failure (e.g. the base file stays an accepted file)
    lines2 = list(lines)
    changed = True
    d = desc
    while changed:
        changed = False
        for j in range(len(lines2) - 1, -1, -1):
            if d[0] == 'replace' and j == d[1]:
                continue
            cand = lines2[:j] + lines2[j + 1:]
            if d[0] == 'replace':
                d2 = ('replace', d[1] - 1 if j < d[1] else d[1], d[2])
            else:
                d2 = ('insert', d[1] - 1 if j < d[1] else d[1], d[2])
            f = check_layout(kind, cand, d2)
            if f is not None and f['why'] == why0:
                lines2, d, changed = cand, d2, True
    return lines2, d


# ------------------------------------------------------------------------------------------------
# command level: merchant_utils.get_all_rules / get_transforms and `python -m tally up`
SETTINGS = '''year: 2025
data_sources:
  - name: Test
    file: data/test.csv
    format: "{date:%Y-%m-%d},{description},{amount}"
merchants_file: config/merchants.rules
views_file: config/views.rules
'''
GOOD_RULES = '[Netflix]\nmatch: contains("NETFLIX")\ncategory: Subs\n'
GOOD_VIEWS = '[Big]\nfilter: total > 1\n'


def run_cli(rules_text, views_text, tag='b'):
    d = os.path.join(WORKDIR, 'budget_' + tag)
    shutil.rmtree(d, ignore_errors=True)
    os.makedirs(os.path.join(d, 'config'))
    os.makedirs(os.path.join(d, 'data'))
    with open(os.path.join(d, 'config', 'settings.yaml'), 'w') as f:
        f.write(SETTINGS)
    with open(os.path.join(d, 'data', 'test.csv'), 'w') as f:
        f.write('date,description,amount\n2025-01-15,NETFLIX STREAMING,15.99\n2025-01-16,UBER TRIP,20.00\n')
    with open(os.path.join(d, 'config', 'merchants.rules'), 'w', newline='') as f:
        f.write(rules_text)
    with open(os.path.join(d, 'config', 'views.rules'), 'w', newline='') as f:
        f.write(views_text)
    p = subprocess.run([PY, '-m', 'tally', 'up', 'config', '-o', os.path.join(d, 'out.html')], cwd=d,
                       capture_output=True, text=True, env=env_impl(), timeout=120)
    return {'rc': p.returncode, 'out': (p.stdout + p.stderr)[-4000:]}


def cli_reports(res, line):
    o = res['out'].lower()
    return res['rc'] != 0 or 'error' in o or f'line {line}' in o


def check_load(lines):
    """API level: a .rules text that parse_merchants rejects must not come back as a bare rule list."""
    text = '\n'.join(lines)
    pr = impl_one('m', lines)
    if pr.get('ok') or 'exc' in pr:
        return None
    r = run_impl(IMPL, {'load': [{'text': text, 'dir': os.path.join(WORKDIR, 'load')}]})['load'][0]
    silent = [t for t in ('rules', 'transforms', 'tag_rules') if t + '_exc' not in r and not r[t + '_said']]
    if silent:
        return {'observed': r, 'parse_error_line': pr['line'], 'silent_loaders': silent,
                'why': ', '.join(f'get_{"all_rules" if t == "rules" else "transforms" if t == "transforms" else "tag_only_rules"} returned {r.get(t)!r}'
                                 for t in silent) + f' with no exception, warning or message although the file has a parse error at line {pr["line"]}'}
    return None


def check_cli(lines, which='rules'):
    pr = impl_one('m' if which == 'rules' else 'v', lines)
    if pr.get('ok') or 'exc' in pr:
        return None
    text = '\n'.join(lines) + '\n'
    res = run_cli(text if which == 'rules' else GOOD_RULES, GOOD_VIEWS if which == 'rules' else text, tag=which)
    if not cli_reports(res, pr['line']):
        return {'observed': res, 'parse_error_line': pr['line'],
                'why': f'`tally up` exit code {res["rc"]} and no error in its output although the {which} file has a parse error at line {pr["line"]}'}
    return None


def sig_load(f):
    o = f['observed']
    if all(o.get(t) == [] for t in f['silent_loaders']):
        return 'C17/load-error-swallowed'
    return 'C17/load-error-partial-result'


def sig_cli(f, which):
    if which == 'rules' and 'loaded 0 categorization rules' in f['observed']['out'].lower():
        return 'C17/load-error-swallowed'
    return f'C17/cli-silent-on-corrupt-{which}'


# ------------------------------------------------------------------------------------------------
def build_cases(seed, tier):
    rnd = random.Random(seed)
    nb = {'m': 16, 'v': 12} if tier == 'quick' else {'m': 250, 'v': 150}
    per_kind = 1 if tier == 'quick' else 2
    cases = []

    def add(**kw):
        kw['id'] = len(cases)
        cases.append(kw)
        return kw['id']
    for kind in 'mv':
        corpus = CORPUS_M if kind == 'm' else CORPUS_V
        for b in range(-len(corpus), nb[kind]):
            items = list(corpus[b]) if b < 0 else (gen_m_items if kind == 'm' else gen_v_items)(rnd, nsec=(3 if b % 7 == 0 else None))
            lines = [render(i) for i in items]
            lo = list(range(1, len(lines) + 1))
            base = add(kind=kind, lines=lines, role='base', spec=(spec_m if kind == 'm' else spec_v)(items, lo), nitems=len(items), items=items)
            for nm, new, lm in layout_edits(kind, items, lines, rnd, per_kind=per_kind):
                add(kind=kind, lines=new, role='layout', base=base, edit=nm, linemap=lm)
            errs = []
            for nm, new, exp in corruptions(kind, items, lines, rnd, full=(b < 0)):
                cid = add(kind=kind, lines=new, role='corrupt', base=base, edit=nm, expect=exp,
                          key=next((i for i in range(min(len(new), len(lines))) if new[i] != lines[i]), min(len(new), len(lines)) - 1))
                if exp:
                    errs.append(cid)
            # layout edits of rejected files: still rejected, the error line follows the edit
            for cid in rnd.sample(errs, min(2, len(errs))):
                src = cases[cid]['lines']
                pos = rnd.randint(0, len(src))
                add(kind=kind, lines=src[:pos] + [rnd.choice(['# c', '', '  #x: y', ' \t'])] + src[pos:], role='layout_err', base=cid,
                    edit='insert_skip', linemap=[i if i < pos else i + 1 for i in range(len(src))])
                add(kind=kind, lines=[l + rnd.choice(['\r', '  ', '\t\r']) for l in src], role='layout_err', base=cid, edit='trailing_or_crlf',
                    linemap=list(range(len(src))))
    return cases


def classify_drop(kind, lines, key):
    if kind == 'm' and not any(header_shaped('m', l) for l in lines[:key]):
        return 'C17/property-before-first-header-ignored'
    return f'C17/line-ignored-inside-section-{kind}'


def classify_accept(case, table):
    """Signature of 'a corruption with a stated defect was accepted / named the wrong line'."""
    kind, lines, key = case['kind'], case['lines'], case['key']
    if kind == 'm' and case['edit'] == 'invalid_expression' and key < first_header('m', lines) and ASSIGN_RE.match(lines[key].strip()):
        rhs = lines[key].strip().split('=', 1)[1].strip()
        if table.get(rhs) is False:
            return 'C17/toplevel-expression-not-validated'
    if kind == 'm' and key < first_header('m', lines) and not ASSIGN_RE.match(lines[key].strip()):
        return 'C17/property-before-first-header-ignored'
    return f'C17/corruption-{case["edit"]}-{kind}'


def _t(run, label):
    if os.environ.get('VERIF_DEBUG'):
        print(f'[C17 +{time.time() - run.t0:6.1f}s] {label}', file=sys.stderr)


def main(tier):
    run = Run('C17', tier)
    os.makedirs(WORKDIR, exist_ok=True)
    run.assumptions = [
        'ORACLE pyparse: whether expr_parser.parse_expression (CPython ast.parse + tally node whitelist) accepts an expression string is a '
        'Section variable of every theorem; the harness supplies its table from the implementation for each compared file',
        'the model works on the list of lines produced by text.split("\\n") (no line contains LF); CRLF = lines ending in CR',
        'strings are bytes; whitespace = ASCII set of str.strip()/\\s (9-13, 28-32), case mapping and \\w are ASCII: generated files use '
        'ASCII whitespace/keys/identifiers, non-ASCII only inside values and expressions (never adjacent to an identifier)',
        'int() is modelled for ASCII digits, sign and single underscores (no Unicode digits, no 4300-digit limit)',
        'merchant_utils.load_merchant_rules (CSV reader reached by the fall-through) is an uninterpreted function csv_rules in the model',
        'error KIND is model-internal (theorem statements); the correspondence compares error class + line number, never message texts',
        'dict-valued results (variables, fields) are compared in insertion order against the model, as dicts by the direct oracles',
        'report memory (_reported_load_errors) is modelled as a state machine over abstract paths and messages (run_calls); the message TEXT of an '
        'error is its identity and comes from the implementation; operation sequences are compared call by call inside Coq',
        'the engine loop (current_rule, _add_rule appends, engine carries its match mode) is modelled (parse_engine) and proved equal to the grouped '
        'model; it is run inside Coq against parse_merchants(text, mode) for both modes']
    res = run.proof_step(COQ_FILES, extra_trusted=[
        'harness/c17.py + harness/impl_c17.py (generators, correspondence, direct oracles)',
        'C17/Model.v is a hand model (no translator): tied to /repo only by the correspondence stream'])
    broken = []
    if not res['ok']:
        broken.append({'kind': 'broken-obligation', 'detail': first_error(res['log'])})
    if res['hygiene']:
        broken.append({'kind': 'hygiene', 'detail': res['hygiene']})

    _t(run, 'proofs built')
    cases = build_cases(run.seed, tier)
    pairs_ = [(c['kind'], c['lines']) for c in cases]
    results = impl_batch(pairs_)
    cands = sorted(set().union(*[expr_candidates(l) for k, l in pairs_]))
    table = dict(zip(cands, run_impl(IMPL, {'exprs': cands})['exprs']))
    pool_bad = [e for e in VALID_EXPRS + VIEW_EXPRS if table.get(e) is not True and e in table] + \
               [e for e in INVALID_EXPRS if table.get(e) is not False and e in table]
    _t(run, 'implementation run on all files')
    found = []          # (tag, replay dict, signature)

    def report(tag, obj, sig):
        found.append(tag)
        run.violation(tag, obj, signature=sig)

    seen_sig = set()
    known = {f.get('signature') for f in run.findings if f.get('status') == 'finding'}

    def maybe_shrink(sig, fn, default):
        """Shrinking costs implementation runs; a listed known finding is reported without it."""
        return default if sig in known else fn()
    # ---- direct oracles on the implementation --------------------------------------------------
    drop_jobs = []
    for c, r in zip(cases, results):
        kind, lines = c['kind'], c['lines']
        if 'exc' in r:
            sig = f'C17/exception-{r["exc"]}-{c["role"]}-{c.get("edit", "")}'
            if sig not in seen_sig:
                seen_sig.add(sig)
                report('exc', {'kind': 'counterexample', 'check': 'exc', 'file_kind': kind, 'lines': lines, 'observed': r,
                               'expected': 'MerchantParseError / SectionParseError or a result', 'obligation': 'c17_reject_* on the implementation'}, sig)
            continue
        if c['role'] == 'base':
            if canon(kind, r) != canon(kind, c['spec']):
                sig = f'C17/valid-file-misread-{kind}-' + ('rejected' if not r.get('ok') else 'wrong-result')
                if sig not in seen_sig:
                    seen_sig.add(sig)
                    its = shrink_items(kind, c['items'], rejected=not r.get('ok'))
                    sl = [render(i) for i in its]
                    sp = (spec_m if kind == 'm' else spec_v)(its, list(range(1, len(sl) + 1)))
                    report('spec', {'kind': 'counterexample', 'check': 'spec', 'file_kind': kind, 'lines': sl, 'observed': impl_one(kind, sl),
                                    'expected': sp, 'obligation': 'c17_one_rule_per_section / c17_exactly_stated_properties',
                                    'why': 'a valid file is ' + ('rejected' if not r.get('ok') else 'read with other properties than it states'),
                                    'shrunk_from': len(lines)}, sig)
        elif c['role'] in ('layout', 'layout_err'):
            b = cases[c['base']]
            desc = desc_of_edit(b['lines'], lines, c['linemap'])
            f = check_layout(kind, b['lines'], desc, pre=(results[b['id']], r))
            if f:
                sig = f'C17/layout-{c["edit"]}-{kind}'
                if sig not in seen_sig:
                    seen_sig.add(sig)
                    sl, sd = shrink_layout(kind, b['lines'], desc)
                    f2 = check_layout(kind, sl, sd) or f
                    report('layout', dict(f2, kind='counterexample', check='layout', file_kind=kind, lines=sl, desc=list(sd), edit=c['edit'],
                                          obligation='c17_' + (c['edit'] if c['role'] == 'layout' else 'layout_insensitive'),
                                          shrunk_from=len(b['lines'])), sig)
        elif c['role'] == 'corrupt' and c['expect']:
            want = c['expect'][1]
            bad = None
            if r['ok']:
                bad = 'accepted'
            elif r['line'] != want:
                bad = f'error names line {r["line"]}, expected {want}'
            if bad:
                sig = classify_accept(c, table) + ('' if r['ok'] else '-wrong-line')
                if sig not in seen_sig:
                    seen_sig.add(sig)
                    key = c['key']
                    first_hdr_before = key < first_header(kind, lines)

                    def fails(cand, k2, kind=kind, accepted=r['ok'], fhb=first_hdr_before):
                        rr = impl_one(kind, cand)
                        if accepted:
                            return rr.get('ok') is True and (k2 < first_header(kind, cand)) == fhb
                        return False
                    sl, sk = maybe_shrink(sig, lambda: shrink_lines(lines, key, fails), (lines, key)) if r['ok'] else (lines, key)
                    report('reject', {'kind': 'counterexample', 'check': 'reject', 'file_kind': kind, 'lines': sl, 'key': sk,
                                      'want_line': None if r['ok'] else want, 'defect': c['edit'], 'why': bad, 'observed': impl_one(kind, sl),
                                      'expected': f'{"Merchant" if kind == "m" else "Section"}ParseError naming line {want if not r["ok"] else sk + 1}',
                                      'obligation': 'c17_reject_' + c['edit'], 'shrunk_from': len(lines)}, sig)
        if r.get('ok') and c['role'] in ('base', 'corrupt', 'layout'):
            n = len(r['rules' if kind == 'm' else 'views'])
            h = sum(1 for l in lines if header_shaped(kind, l))
            if n != h:
                sig = f'C17/rules-vs-headers-{kind}'
                if sig not in seen_sig:
                    seen_sig.add(sig)
                    sl, _ = shrink_lines(lines, None, lambda cand, k2, kind=kind: check_count(kind, cand) is not None)
                    report('count', dict(check_count(kind, sl) or {}, kind='counterexample', check='count', file_kind=kind, lines=sl,
                                         expected='one rule/view per section header', obligation='c17_one_rule_per_section',
                                         shrunk_from=len(lines)), sig)
            if c['role'] in ('base', 'corrupt'):
                for i, l in enumerate(lines):
                    if not is_skip(l):
                        drop_jobs.append((c['id'], i))
    _t(run, 'direct oracles done')
    gl = impl_batch([(cases[cid]['kind'], cases[cid]['lines'][:i] + [GARBAGE] + cases[cid]['lines'][i + 1:]) for cid, i in drop_jobs])
    n_drop = 0
    dropped = [(cid, i) for (cid, i), g in zip(drop_jobs, gl) if g == results[cid]]
    n_drop = len(dropped)
    # report first the most telling witness: a `key: value` line of a file that still yields rules
    dropped.sort(key=lambda t: (':' not in cases[t[0]]['lines'][t[1]], not results[t[0]].get('rules') and not results[t[0]].get('views'),
                                len(cases[t[0]]['lines'])))
    for cid, i in dropped:
        c = cases[cid]
        if True:
            sig = classify_drop(c['kind'], c['lines'], i)
            if sig not in seen_sig:
                seen_sig.add(sig)
                kind = c['kind']

                had = bool(results[cid].get('rules') or results[cid].get('views'))

                def fails(cand, k2, kind=kind, sig=sig, had=had):
                    f = check_drop(kind, cand, k2)
                    return f is not None and classify_drop(kind, cand, k2) == sig and \
                        (not had or bool(f['observed'].get('rules') or f['observed'].get('views')))
                sl, sk = maybe_shrink(sig, lambda: shrink_lines(c['lines'], i, fails), (c['lines'], i))
                report('drop', dict(check_drop(kind, sl, sk) or {}, kind='counterexample', check='drop', file_kind=kind, lines=sl, key=sk,
                                    expected='an error, or a result that depends on the line', obligation='c17_no_silent_drop',
                                    shrunk_from=len(c['lines'])), sig)

    _t(run, 'garbage law done')
    # ---- the match mode never changes what is read ----------------------------------------------
    mcases = [c for c in cases if c['kind'] == 'm' and c['role'] in ('base', 'corrupt')]
    ms = run_impl(IMPL, {'m_ms': ['\n'.join(c['lines']) for c in mcases]}, timeout=3000)['m_ms']
    n_mode = len(mcases)
    for c, b in sorted(zip(mcases, ms), key=lambda t: len(t[0]['lines'])):
        if results[c['id']] != b:
            sig = 'C17/match-mode-changes-what-is-read'
            if sig not in seen_sig:
                seen_sig.add(sig)
                sl, _ = maybe_shrink(sig, lambda: shrink_lines(c['lines'], None, lambda cand, k2: check_mode(cand) is not None), (c['lines'], None))
                report('mode', dict(check_mode(sl) or {}, kind='counterexample', check='mode', file_kind='m', lines=sl,
                                    expected="the same rules, in file order, whatever the match mode",
                                    obligation='c17_one_rule_per_section', shrunk_from=len(c['lines'])), sig)
    # ---- one process, one path, several different load errors ----------------------------------------
    n_seq = 0
    seqs = [(q, None) for q in SEQ_CORPUS] + [(SEQ_CORPUS[0], ['rules']), (SEQ_CORPUS[0], ['transforms']), (SEQ_CORPUS[0], ['tag_rules'])]
    for texts, only in seqs:
        n_seq += 1
        f = check_load_seq(texts, only)
        if f:
            sig = 'C17/load-error-not-reported-after-an-earlier-report'
            if sig not in seen_sig:
                seen_sig.add(sig)
                tx = list(texts)
                changed = True
                while changed and len(tx) > 2:       # shrink the sequence
                    changed = False
                    for j in range(len(tx)):
                        cand = tx[:j] + tx[j + 1:]
                        if check_load_seq(cand, only):
                            tx, changed = cand, True
                            break
                report('loadseq', dict(check_load_seq(tx, only) or f, kind='counterexample', check='loadseq', file_kind='m', texts=tx, only=only,
                                       lines=tx[-1], expected='each new load error of the path reaches the user',
                                       obligation='c17_load_error_is_reported', shrunk_from=len(texts)), sig)
    # operation sequences (several paths, the three loaders, clear_engine_cache in between): direct law + kept for the model
    rnd_ops = random.Random(run.seed + 31)
    mem_ops = [ops_of_steps(q) for q in SEQ_CORPUS] + \
              [[{'op': 'load', 'path': 0, 'text': '[A]\ncategory: c', 'loader': 'rules'}, {'op': 'clear'},
                {'op': 'load', 'path': 0, 'text': '[A]\ncategory: c', 'loader': 'transforms'},
                {'op': 'load', 'path': 1, 'text': '[A]\ncategory: c', 'loader': 'tag_rules'},
                {'op': 'load', 'path': 1, 'text': '[A]\nmatch: x\ncategory: c', 'loader': 'rules'}]] + \
              [gen_ops(rnd_ops, 14) for _ in range(20 if tier == 'quick' else 300)]
    mem_obs = run_impl(IMPL, {'load_ops': [{'ops': o, 'dir': os.path.join(WORKDIR, 'loadops')} for o in mem_ops]}, timeout=3000)['load_ops']
    for ops, obs in zip(mem_ops, mem_obs):
        shown = set()
        for k, o in enumerate(obs):
            if o['op'] == 'clear':
                shown = set()
            elif o['err'] is not None:
                if (o['path'], o['err']) not in shown and not o['said'] and not o['exc']:
                    sig = 'C17/load-error-not-reported-after-an-earlier-report'
                    if sig not in seen_sig:
                        seen_sig.add(sig)
                        sq = list(ops[:k + 1])
                        changed = True
                        while changed and len(sq) > 1:
                            changed = False
                            for j in range(len(sq) - 1):
                                cand = sq[:j] + sq[j + 1:]
                                if check_ops(cand):
                                    sq, changed = cand, True
                                    break
                        report('loadops', dict(check_ops(sq) or {}, kind='counterexample', check='loadops', file_kind='m', ops=sq,
                                               lines=sq[-1].get('text', '').split('\n'), expected='each error not yet shown reaches the user',
                                               obligation='c17_new_load_error_reaches_user'), sig)
                    break
                shown.add((o['path'], o['err']))
    # ---- command level ---------------------------------------------------------------------------
    rejected_m = [c for c, r in zip(cases, results) if c['kind'] == 'm' and c['role'] == 'corrupt' and r.get('ok') is False]
    rejected_v = [c for c, r in zip(cases, results) if c['kind'] == 'v' and c['role'] == 'corrupt' and r.get('ok') is False]
    rnd = random.Random(run.seed + 17)
    n_api = 12 if tier == 'quick' else 100
    n_cli = 3 if tier == 'quick' else 15
    load_cases = [['[Uber]', 'category: Transport']] + [c['lines'] for c in rnd.sample(rejected_m, min(n_api, len(rejected_m)))]
    n_load = 0
    for lines in load_cases:
        f = check_load(lines)
        n_load += 1
        if f:
            sig = sig_load(f)
            if sig not in seen_sig:
                seen_sig.add(sig)
                sl, _ = maybe_shrink(sig, lambda: shrink_lines(lines, None, lambda cand, k2: (lambda x: x is not None and sig_load(x) == sig)(check_load(cand))), (lines, None))
                report('load', dict(check_load(sl) or f, kind='counterexample', check='load', file_kind='m', lines=sl,
                                    expected='the parse error reaches the caller (exception, warning or message)',
                                    obligation='c17_load_error_is_reported', shrunk_from=len(lines)), sig)
    n_clirun = 0
    for which, pool in (('rules', load_cases[:n_cli]), ('views', [['[Big]', 'description: no filter']] + [c['lines'] for c in rejected_v[:max(0, n_cli - 2)]])):
        for lines in pool:
            f = check_cli(lines, which)
            n_clirun += 1
            if f:
                sig = sig_cli(f, which)
                if sig + '-cli' not in seen_sig:
                    seen_sig.add(sig + '-cli')
                    report('cli', dict(f, kind='counterexample', check='cli', which=which, file_kind='m' if which == 'rules' else 'v', lines=lines,
                                       expected='`tally up` reports the error (non-zero exit or an error message naming the line)',
                                       obligation='c17_load_error_is_reported'), sig)
    # control: a good budget loads its rule and `up` does not cry wolf
    ctl = run_cli(GOOD_RULES, GOOD_VIEWS, tag='ctl')
    if ctl['rc'] != 0 or 'loaded 1 categorization rules' not in ctl['out'].lower():
        report('cli', {'kind': 'counterexample', 'check': 'cli-control', 'observed': ctl, 'file_kind': 'm', 'lines': GOOD_RULES.split('\n'),
                       'expected': 'exit 0 and "Loaded 1 categorization rules"', 'obligation': 'c17_load_error_is_reported_partial'},
               'C17/cli-control')

    _t(run, 'command level done')
    # ---- the model, inside Coq, on the same files ---------------------------------------------------
    model_idx = []
    if res['ok']:
        n_eng = 400 if tier == 'quick' else 4000
        eng = [(c, b) for c, b in zip(mcases, ms) if 'ok' in b and 'ok' in results[c['id']]][:n_eng]
        pairs2 = pairs_ + [('e1', c['lines']) for c, b in eng] + [('e2', c['lines']) for c, b in eng]
        results2 = results + [results[c['id']] for c, b in eng] + [b for c, b in eng]
        bad, model_idx, err = model_check(pairs2, results2, table)
        if bad:
            be = [i for i in bad if i >= len(cases)]
            bad = [i for i in bad if i < len(cases)]
            if be:
                c = eng[(be[0] - len(cases)) % len(eng)][0]
                broken.append({'kind': 'broken-correspondence', 'obligation': 'model_vs_impl(C17.Model.parse_engine, parse_merchants(text, mode))',
                               'detail': {'file_kind': 'm', 'lines': c['lines'], 'mode': 'first_match' if be[0] - len(cases) < len(eng) else 'most_specific',
                                          'n_disagreements': len(be)}})
        mem_bad, mem_err = model_check_mem(mem_obs)
        if mem_bad is None:
            broken.append({'kind': 'broken-correspondence', 'obligation': 'model_vs_impl(C17.Model.run_calls, report memory)', 'detail': mem_err})
        elif mem_bad:
            broken.append({'kind': 'broken-correspondence', 'obligation': 'model_vs_impl(C17.Model.run_calls, report memory)',
                           'detail': {'ops': mem_ops[mem_bad[0]], 'observed': mem_obs[mem_bad[0]], 'n_disagreements': len(mem_bad)}})
        if bad is None:
            broken.append({'kind': 'broken-correspondence', 'obligation': 'model_vs_impl(C17.Model.parse_merchants/parse_views)',
                           'detail': 'cases.v did not evaluate: ' + err})
        elif bad:
            i = min(bad, key=lambda j: len(cases[j]['lines']))
            c = cases[i]

            def still(cand, k2, kind=c['kind']):
                rr = impl_one(kind, cand)
                cd = sorted(expr_candidates(cand))
                tb = dict(zip(cd, run_impl(IMPL, {'exprs': cd})['exprs']))
                b2, _, e2 = model_check([(kind, cand)], [rr], tb, name='C17_shrink')
                return bool(b2)
            # shrinking through coqc is slow: only when this disagreement is what will be reported
            sl, _ = shrink_lines(c['lines'], None, still) if not run.violations else (c['lines'], None)
            broken.append({'kind': 'broken-correspondence', 'obligation': 'model_vs_impl(C17.Model.parse_merchants/parse_views)',
                           'detail': {'file_kind': c['kind'], 'lines': sl, 'implementation': impl_one(c['kind'], sl), 'n_disagreements': len(bad),
                                      'role': c['role'], 'edit': c.get('edit')}})
    if broken and not run.violations:
        b0 = broken[0]
        obj = {'kind': b0['kind'], 'check': 'model', 'obligation': b0.get('obligation') or
               (b0['detail'].get('obligation') if isinstance(b0['detail'], dict) else None), 'broken': broken,
               'searched': f'{len(cases)} files + {len(drop_jobs)} garbage variants against the C17 laws; failing laws found: {sorted(set(found))} (all known findings)'}
        if isinstance(b0.get('detail'), dict) and 'lines' in b0['detail']:
            obj.update(file_kind=b0['detail']['file_kind'], lines=b0['detail']['lines'])
        run.violation('broken', obj, found_input=False)

    _t(run, 'model check done')
    # ---- coverage ---------------------------------------------------------------------------------
    hist_role, hist_edit, hist_out = {}, {}, {}
    for c, r in zip(cases, results):
        hist_role[c['role']] = hist_role.get(c['role'], 0) + 1
        e = f"{c['kind']}:{c.get('edit', 'base')}"
        hist_edit[e] = hist_edit.get(e, 0) + 1
        o = c['kind'] + ':' + ('exc' if 'exc' in r else 'ok' if r['ok'] else 'error')
        hist_out[o] = hist_out.get(o, 0) + 1
    nontriv = {(k, '\n'.join(l)) for (k, l), r in zip(pairs_, results)
               if 'ok' in r and any(header_shaped(k, x) for x in l) and sum(1 for x in l if not is_skip(x) and not header_shaped(k, x)) >= 2}
    run.cov.update({
        'evaluations': len(cases) + len(drop_jobs) + len(model_idx) + n_load + n_clirun + 1 + n_mode + n_seq,
        'distinct_nontrivial': len(nontriv),
        'rule': 'generated valid .rules/views files (1-3 sections, every property kind, values containing ":" "=" "#" non-ASCII), every layout edit '
                'of each (comment, blank, trailing blanks, CRLF, re-indentation, key case + indented header for .rules, permutation of distinct '
                'properties), ALL single-point corruptions (delete / duplicate / garbage / alter each line) and layout edits of rejected files; '
                'non-trivial = distinct file texts with >= 1 header and >= 2 content lines whose implementation outcome was compared with the model',
        'samples': [{'kind': cases[0]['kind'], 'lines': cases[0]['lines']},
                    next(({'kind': c['kind'], 'edit': c['edit'], 'lines': c['lines']} for c in cases if c['role'] == 'corrupt' and c['kind'] == 'v'), None),
                    next(({'kind': c['kind'], 'edit': c['edit'], 'lines': c['lines']} for c in cases if c.get('edit') == 'permute_distinct_properties'), None)],
        'cases_by_role': hist_role, 'cases_by_edit': hist_edit, 'implementation_outcomes': hist_out,
        'garbage_law_variants': len(drop_jobs), 'silently_ignored_lines_found': n_drop,
        'model_vs_impl_cases_in_coq': len(model_idx), 'expression_table': {'candidates': len(cands), 'accepted': sum(1 for v in table.values() if v is True),
                                                                            'other_exceptions': [e for e, v in table.items() if isinstance(v, str)]},
        'discarded': {'not_compared_with_model (impl raised a foreign exception or oracle unavailable)': len(cases) - len(model_idx),
                      'expression_pool_misclassified': pool_bad},
        'api_load_cases': n_load, 'match_mode_cases': n_mode, 'load_sequences': n_seq, 'report_memory_sequences_in_coq': len(mem_ops),
        'engine_loop_cases_in_coq_per_mode': len(eng) if res['ok'] else 0, 'cli_runs': n_clirun + 1, 'broken': broken})
    run.finish()


def replay(path):
    obj = json.load(open(path))
    os.makedirs(WORKDIR, exist_ok=True)
    chk, kind, lines = obj.get('check'), obj.get('file_kind'), obj.get('lines')
    f = None
    if obj.get('kind') != 'counterexample' and chk == 'model' and lines:
        r = impl_one(kind, lines)
        cd = sorted(expr_candidates(lines))
        tb = dict(zip(cd, run_impl(IMPL, {'exprs': cd})['exprs']))
        bad, _, err = model_check([(kind, lines)], [r], tb, name='C17_replay')
        f = {'why': 'model and implementation disagree', 'observed': r} if (bad or bad is None) else None
    elif obj.get('kind') != 'counterexample':
        main('quick')
    elif chk == 'reject':
        f = check_reject(kind, lines, obj['key'], obj.get('want_line'))
    elif chk == 'drop':
        f = check_drop(kind, lines, obj['key'])
    elif chk == 'count':
        f = check_count(kind, lines)
    elif chk == 'layout':
        d = obj['desc']
        f = check_layout(kind, lines, tuple(d))
    elif chk == 'spec':
        r = impl_one(kind, lines)
        f = None if canon(kind, r) == canon(kind, obj['expected']) else {'observed': r, 'why': 'differs from the stated properties'}
    elif chk == 'exc':
        r = impl_one(kind, lines)
        f = {'observed': r, 'why': 'foreign exception'} if 'exc' in r else None
    elif chk == 'load':
        f = check_load(lines)
    elif chk == 'mode':
        f = check_mode(lines)
    elif chk == 'loadops':
        f = check_ops(obj['ops'])
    elif chk == 'loadseq':
        f = check_load_seq(obj['texts'], obj.get('only'))
    elif chk == 'cli':
        f = check_cli(lines, obj.get('which', 'rules'))
    elif chk == 'cli-control':
        ctl = run_cli(GOOD_RULES, GOOD_VIEWS, tag='ctl')
        f = {'observed': ctl} if (ctl['rc'] != 0 or 'loaded 1 categorization rules' not in ctl['out'].lower()) else None
    print(json.dumps({'check': chk, 'still_fails': f is not None, 'detail': f}, indent=1, default=str)[:3000])
    if f is not None:
        print(f'VIOLATION property=C17 replay={path}')
        return 1
    return 0
