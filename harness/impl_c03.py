"""C03 implementation runner: loads/evaluates adversarial expression texts through every entry point
with an audit hook, deep type checks of results and frame checks. Runs under /venv/bin/python."""
import ast
import copy
import datetime
import json
import re
import sys

import os as _os
# things that exist in the process but are none of the transaction, its fields, the rows or the user variables: no
# expression may ever produce them
_os.environ['VERIF_CANARY_ENV'] = 'canary-env-7f3a91'
_os.environ['VERIF_CANARY_NUM'] = '730191.25'
_os.environ['verif_canary_lower'] = 'canary-env-lower-11c2'
_os.environ['LARGE_PURCHASE'] = '730192'
CANARY = re.compile(r'canary-|73019')

EVENTS = []
ARMED = [False]
PHASE = ['']


def hook(event, args):
    if not ARMED[0]:
        return
    if event == 'compile' and len(args) > 1 and args[1] == '<unknown>' and PHASE[0] in ('parse', 'engine'):
        return    # ast.parse(text) (filename '<unknown>', PyCF_ONLY_AST) raises this while an expression TEXT is loaded
        #           (rule files parse their dynamic {tags} when a rule first matches: phase 'engine'); nothing is executed.
        #           While an already loaded expression is evaluated (phases 'eval', 'view') nothing may be handed to the compiler.
        #           eval()/exec()/compile() of a string use '<string>' or an explicit name and also raise 'exec'.
    if event == 'import':
        mod = args[0] if args else ''
        if mod in LAZY_OK:
            return
    if event.startswith(('open', 'import', 'exec', 'compile', 'os.', 'subprocess.', 'socket.', 'object.__getattr__',
                         'object.__setattr__', 'object.__delattr__', 'builtins.', 'ctypes.', 'sys._getframe', 'code.__new__',
                         'function.__new__', 'marshal.', 'pickle.', 'shutil.', 'tempfile.', 'glob.', 'pathlib.', 'mmap.',
                         'fcntl.', 'signal.', 'gc.', 'sys.settrace', 'sys.setprofile', 'cpython.', 'setopencodehook',
                         'urllib.', 'http.', 'webbrowser.')):
        EVENTS.append(event + ':' + repr(args)[:80])


# modules the UNCHANGED tree imports lazily while evaluating (fuzzy() imports difflib on first use; pre-imported below, so
# its own imports are satisfied from sys.modules). A fixed standard-library import made by the implementation on first use
# is accepted as it stands on the unchanged tree; any OTHER import during evaluation is reported.
LAZY_OK = ('difflib',)
sys.addaudithook(hook)
import warnings  # noqa: E402
# CPython's own compiler warnings about the expression text (invalid escape sequence, "is" with a literal, ...) are
# printed by the interpreter, not by tally: ignored. Every other warning is left at its default, so that a warning raised
# from inside evaluation does what it does for a user: a line on stderr and a source-file read by linecache.
warnings.filterwarnings('ignore', category=SyntaxWarning)
warnings.filterwarnings('ignore', category=DeprecationWarning)

from tally import expr_parser as EP  # noqa: E402
from tally import merchant_engine as ME  # noqa: E402
from tally import section_engine as SE  # noqa: E402
import difflib  # noqa: E402,F401  (pre-import so that fuzzy()'s lazy import is not an event)

DATA_TYPES = (type(None), bool, int, float, str, datetime.date, datetime.timedelta, bytes, complex, type(Ellipsis))
BAD_TEXT = re.compile(r'<class |<function |<built-in |<module |<bound method |object at 0x|<generator object|<method|<slot wrapper|<attribute ')


def classify_value(v, depth=0):
    """'data' or a description of the first non-data component."""
    if isinstance(v, DATA_TYPES):
        return 'data'
    if depth > 6:
        return 'too-deep'
    if isinstance(v, (list, tuple, set, frozenset)):
        for x in v:
            c = classify_value(x, depth + 1)
            if c != 'data':
                return c
        return 'data'
    if isinstance(v, dict):
        for k, x in v.items():
            for y in (k, x):
                c = classify_value(y, depth + 1)
                if c != 'data':
                    return c
        return 'data'
    return 'non-data:' + type(v).__name__


def tree_kinds(node):
    return [type(node).__name__, [tree_kinds(c) for c in ast.iter_child_nodes(node)]]


def mk_txn():
    return {'description': 'STARBUCKS #123 SEATTLE WA', 'raw_description': 'STARBUCKS #123 SEATTLE WA', 'amount': -12.5,
            'date': datetime.date(2025, 2, 28), 'field': {'memo': 'REF:42', 'code': 'ACH-7', 'num': '42', 'hexy': '0x1F'}, 'source': 'Amex',
            'location': 'Seattle, WA'}


def mk_ds():
    return {'rows': [{'item': 'Book', 'amount': 12.5, 'date': datetime.date(2025, 2, 27), 'qty': '3', 'sku': '7-ELEVEN 12'},
                     {'item': 'Pen', 'amount': 3.0, 'date': datetime.date(2025, 3, 1), 'qty': '1_0', 'sku': '.5'}]}


def run_one(text):
    out = {'text': text}
    # Python's own parse (library) — to give the model the node kinds
    try:
        import warnings
        with warnings.catch_warnings():
            warnings.simplefilter('ignore')
            t0 = ast.parse(text, mode='eval')
        out['kinds'] = tree_kinds(t0)
    except (SyntaxError, ValueError, RecursionError, MemoryError) as e:
        out['kinds'] = None
        out['py_syntax_error'] = type(e).__name__
    EVENTS.clear()
    # ---- load ----
    ARMED[0] = True
    PHASE[0] = 'parse'
    try:
        tree = EP.parse_expression(text)
        out['load'] = 'accepted'
    except EP.UnsafeNodeError:
        tree = None
        out['load'] = 'unsafe'
    except EP.ExpressionError:
        tree = None
        out['load'] = 'expr_error'
    except BaseException as e:  # noqa
        tree = None
        out['load'] = 'py_error:' + type(e).__name__
    ARMED[0] = False
    out['cached_after_reject'] = (tree is None and text in EP._expression_cache)
    if tree is None:
        out['events'] = list(EVENTS)
        return out
    # ---- evaluate as a transaction expression ----
    txn, ds, variables = mk_txn(), mk_ds(), {'threshold': 10, 'label': 'x', 'lst': ['a', 'b']}
    txn0, ds0, var0, dump0 = copy.deepcopy(txn), copy.deepcopy(ds), copy.deepcopy(variables), ast.dump(tree)
    PHASE[0] = 'eval'
    ARMED[0] = True
    try:
        v = EP.evaluate_transaction(text, txn, variables, ds)
        out['eval'] = 'value'
        out['value_class'] = classify_value(v)
        try:
            s = str(v)
            out['bad_text'] = bool(BAD_TEXT.search(s))
            out['str'] = s[:120]
            if CANARY.search(s):
                out['canary'] = 'txn: ' + s[:80]
        except BaseException as e:  # noqa
            out['str_error'] = type(e).__name__
    except EP.ExpressionError:
        out['eval'] = 'expr_error'
    except BaseException as e:  # noqa
        out['eval'] = 'py_error:' + type(e).__name__
    ARMED[0] = False
    out['frame_ok'] = (txn == txn0 and ds == ds0 and variables == var0 and ast.dump(tree) == dump0)
    # same evaluation on a transaction whose date is a datetime.datetime and whose rows mix dates and raw strings
    txn_b = mk_txn()
    txn_b['date'] = datetime.datetime(2025, 3, 4, 10, 30, 5)
    ds_b = {'rows': [{'item': 'Book', 'amount': 12.5, 'date': datetime.date(2025, 2, 27)}, {'item': 'Pen', 'amount': 3.0, 'date': 'pending'}]}
    txn_b0, ds_b0 = copy.deepcopy(txn_b), copy.deepcopy(ds_b)
    ARMED[0] = True
    try:
        EP.evaluate_transaction(text, txn_b, dict(variables), ds_b)
    except BaseException:  # noqa
        pass
    ARMED[0] = False
    if not (txn_b == txn_b0 and ds_b == ds_b0 and ast.dump(tree) == dump0 and type(txn_b['date']) is type(txn_b0['date'])):
        out['frame_ok'] = False
    # ---- evaluate as a view filter ----
    PHASE[0] = 'view'
    ARMED[0] = True
    try:
        ctx = EP.ExpressionContext(transactions=[{'amount': a, 'date': d, 'category': 'Food', 'subcategory': 'Cafe',
                                                  'merchant': 'Starbucks', 'tags': ['coffee']}
                                                 for a, d in ((10.0, datetime.date(2025, 1, 5)), (12.5, datetime.date(2025, 1, 19)),
                                                              (7.25, datetime.date(2025, 2, 5)), (30.0, datetime.date(2025, 3, 9)))],
                                   num_months=12, variables={'threshold': 10})
        ARMED[0] = False
        view_txns0 = copy.deepcopy(ctx.transactions)   # (the copy itself calls id(): not part of the evaluation)
        ARMED[0] = True
        v = EP.evaluate(text, ctx)
        out['view'] = 'value'
        out['view_value_class'] = classify_value(v)
        out['view_bad_text'] = bool(BAD_TEXT.search(str(v)))
        if CANARY.search(str(v)):
            out['canary'] = 'view: ' + str(v)[:80]
    except EP.ExpressionError:
        out['view'] = 'expr_error'
    except BaseException as e:  # noqa
        out['view'] = 'py_error:' + type(e).__name__
    ARMED[0] = False
    try:
        if ctx.transactions != view_txns0 or ast.dump(tree) != dump0:
            out['frame_ok'] = False   # evaluating a view filter wrote into the caller's transactions / the parsed expression
    except NameError:
        pass
    # ---- through a rules file: match / let / field / tag / transform / variable positions ----
    PHASE[0] = 'engine'
    rules_text = (f'v1 = {text}\nfield.memo = {text}\n\n[R1]\nlet: w = {text}\nmatch: contains("STARBUCKS")\n'
                  f'category: Food\nsubcategory: Cafe\nfield: f1 = {text}\ntags: a, {{{text}}}\n\n[R2]\nmatch: {text}\ntags: b\n')
    ARMED[0] = True
    try:
        eng = ME.parse_merchants(rules_text)
        out['rules_load'] = 'accepted'
    except ME.MerchantParseError:
        eng = None
        out['rules_load'] = 'rejected'
    except BaseException as e:  # noqa
        eng = None
        out['rules_load'] = 'py_error:' + type(e).__name__
    if eng is not None:
        txn = mk_txn()
        try:
            r = eng.match(txn, data_sources=mk_ds())
            out['engine'] = 'ok'
            texts = list(r.tags or []) + [str(x) for x in (getattr(r, 'extra_fields', None) or {}).values()]
            out['engine_bad_text'] = [t for t in texts if BAD_TEXT.search(str(t))][:3]
            if any(CANARY.search(str(t)) for t in texts):
                out['canary'] = 'engine: ' + ' '.join(str(t) for t in texts if CANARY.search(str(t)))[:80]
            out['engine_value_class'] = classify_value([list(r.tags or []), dict(getattr(r, 'extra_fields', None) or {})])
        except EP.ExpressionError:
            out['engine'] = 'expr_error'
        except BaseException as e:  # noqa
            out['engine'] = 'py_error:' + type(e).__name__
    ARMED[0] = False
    out['events'] = list(EVENTS)
    return out


def main():
    import io
    payload = json.load(sys.stdin)
    real_out, real_err = sys.stdout, sys.stderr
    res = []
    for t in payload['texts']:
        buf = io.StringIO()
        sys.stdout = sys.stderr = buf
        try:
            r = run_one(t)
        except RecursionError:
            r = {'text': t, 'load': 'harness_recursion'}
        finally:
            sys.stdout, sys.stderr = real_out, real_err
        if buf.getvalue():
            r['wrote_output'] = buf.getvalue()[:200]
        res.append(r)
    json.dump({'results': res}, real_out)


main()
