"""C04 — expressions mean what the reference says (logic, comparisons, match functions).
Proof: C04/Props.v over the evaluator model Expr/Eval.v.  Tie: evaluate_transaction vs the model inside
Coq (vm_compute) — exhaustive small expressions, comprehension templates, random deep trees, on boundary
and random environments.  Search / direct oracle: the laws themselves and an independent reading of the
reference tables, evaluated on the implementation only."""
import datetime
import json
import os
import random
import re
import time
from collections import Counter

from common import *
from expr_common import (boundary_envs, children, coq_outcome, enc, fl, model_check, node_kinds, py_parse, shrink_tree,
                         src, tree_size)
import c04_gen as G

COQ_FILES = ['Lib/Str.v', 'Expr/StrOps.v', 'Expr/Date.v', 'Expr/Syntax.v', 'Expr/Funcs.v', 'Expr/Eval.v', 'Expr/Check.v',
             'C04/Proofs.v', 'C04/NameCase.v', 'C04/Props.v']
IMPL = os.path.join(os.path.dirname(os.path.abspath(__file__)), 'impl_c04.py')


# ---------------------------------------------------------------------------------------------------
def truthy_j(j):
    t = j['t']
    if t == 'none':
        return False
    if t == 'bool':
        return j['v']
    if t == 'int':
        return int(j['v']) != 0
    if t == 'float':
        return int(j['n']) != 0
    if t == 'str':
        return j['v'] != ''
    if t in ('list', 'dict'):
        return len(j['v']) > 0
    if t == 'td':
        return j['d'] != 0
    return True


def to_bool(o):
    return {'val': {'t': 'bool', 'v': truthy_j(o['val'])}} if 'val' in o else o


def is_ok(o):
    return 'val' in o


def B(b):
    return {'val': {'t': 'bool', 'v': b}}


def has_kind(t, kinds):
    if isinstance(t, str):
        return ':=' in t or ' for ' in t if 'walrus' in kinds else False
    return t[0] in kinds or any(has_kind(c, kinds) for c in children(t))


def pure(t):
    """syntactically free of := and of comprehensions / generators (which touch the scope)"""
    return not has_kind(t, ('walrus', 'comp'))


IDENT = re.compile(r'(?<![\w"\\])([A-Za-z_][A-Za-z_0-9]*)')
KEEP = {'and', 'or', 'not', 'in', 'if', 'else', 'for', 'is', 'None', 'True', 'False', 'lambda'}


def recase_identifiers(text, rnd):
    """change the letter case of identifiers (names, attributes, function names), not of string literals"""
    out, i = [], 0
    for part in re.split(r'("(?:[^"\\]|\\.)*")', text):
        if part.startswith('"'):
            out.append(part)
        else:
            out.append(re.sub(r'[A-Za-z_][A-Za-z_0-9]*',
                              lambda m: m.group(0) if m.group(0) in KEEP else
                              ''.join(c.upper() if rnd.random() < 0.5 else c.lower() for c in m.group(0)), part))
    return ''.join(out)


def swapcase_ascii(s):
    return ''.join(c.swapcase() if c.isascii() else c for c in s)


def pylit(s):
    out = s.replace('\\', '\\\\').replace('"', '\\"')
    return '"' + ''.join(c if ord(c) >= 32 else '\\x%02x' % ord(c) for c in out) + '"'


# ---------------------------------------------------------------------------------------------------
# law instances: each is {'law', 'env', 'exprs': [text...], 'check': fn(outs) -> None | str, 'trees': ..., 'sig': fn(outs)}
def law_instances(rnd, envs, n):
    """metamorphic laws on random trees. An instance: {'law','env','trees','build': trees -> [texts],'exprs','check','sig'}"""
    L = []
    ne = len(envs)

    def add(law, ei, trees, build, check, sig=None):
        L.append({'law': law, 'env': ei, 'trees': trees, 'build': build, 'exprs': build(trees), 'check': check, 'sig': sig})

    ERRS = ['nope', 'contains(5)', 'field.nope']
    Z0 = {'val': {'t': 'int', 'v': '0'}}

    def chk_swap(o):
        if not (is_ok(o[0]) and is_ok(o[1])):
            return None
        if o[2] != o[3] or o[4] != o[5]:
            return 'swapping error-free, non-binding operands changes the result'
        if o[2] != B(truthy_j(o[0]['val']) and truthy_j(o[1]['val'])) or o[4] != B(truthy_j(o[0]['val']) or truthy_j(o[1]['val'])):
            return 'and/or is not the Boolean conjunction/disjunction of its operands'
        return None

    def chk_sc(o):
        if not is_ok(o[0]) or is_ok(o[3]):
            return None
        t = truthy_j(o[0]['val'])
        if t and (o[1] != B(True) or is_ok(o[2])):
            return 'truthy left operand: `or` must stop, `and` must evaluate the failing right operand'
        if not t and (o[2] != B(False) or is_ok(o[1])):
            return 'falsy left operand: `and` must stop, `or` must evaluate the failing right operand'
        return None

    def chk_zero(o):
        if not (is_ok(o[0]) and is_ok(o[1])) or truthy_j(o[1]['val']):
            return None
        return None if o[2] == Z0 and o[3] == Z0 else 'division / modulo by zero is not 0'

    def sig_chain(o):
        if is_ok(o[2]) and is_ok(o[3]) and o[2]['val']['t'] == 'date' and o[3]['val']['t'] == 'str':
            return 'C04/chain-carries-parsed-date'
        return None

    for i in range(n):
        ei = rnd.randrange(ne)
        depth = rnd.choice([1, 2, 3, 4])
        a = G.gen(rnd, rnd.choice(['bool', 'bool', 'any']), depth)
        b = G.gen(rnd, rnd.choice(['bool', 'bool', 'any']), depth)
        c = G.gen(rnd, 'bool', depth)
        add('double-negation', ei, [a], lambda t: [src(t[0]), f'(not (not {src(t[0])}))'],
            lambda o: None if o[1] == to_bool(o[0]) else 'not not a differs from bool(a)')
        add('de-morgan-and', ei, [a, b],
            lambda t: [f'(not ({src(t[0])} and {src(t[1])}))', f'((not {src(t[0])}) or (not {src(t[1])}))'],
            lambda o: None if o[0] == o[1] else 'not (a and b) differs from (not a) or (not b)')
        add('de-morgan-or', ei, [a, b, c],
            lambda t: [f'(not ({src(t[0])} or {src(t[1])} or {src(t[2])}))',
                       f'((not {src(t[0])}) and (not {src(t[1])}) and (not {src(t[2])}))'],
            lambda o: None if o[0] == o[1] else 'not (a or b or c) differs from (not a) and (not b) and (not c)')
        if pure(a) and pure(b):
            add('swap-pure-operands', ei, [a, b],
                lambda t: [src(t[0]), src(t[1]), f'({src(t[0])} and {src(t[1])})', f'({src(t[1])} and {src(t[0])})',
                           f'({src(t[0])} or {src(t[1])})', f'({src(t[1])} or {src(t[0])})'], chk_swap)
        err = rnd.choice(ERRS)
        add('short-circuit', ei, [c],
            lambda t, err=err: [src(t[0]), f'({src(t[0])} or {err})', f'({src(t[0])} and {err})', err], chk_sc)
        ty = rnd.choice(['num', 'num', 'str', 'date', 'mixdate'])
        if ty == 'mixdate':
            x, y, z = rnd.choice(G.DATE_ATOMS), rnd.choice(['"2025-01-31"', '"2024-02-29"', '"2025-06-01"']), \
                rnd.choice(['"2025-06-01"', '"20250601"', '"2025-01-31"', 'date'])
        else:
            x, y, z = (G.gen(rnd, ty, depth - 1) for _ in range(3))
        if pure(y):
            o1, o2 = rnd.choice(G.CMP[:6]), rnd.choice(G.CMP[:6])
            add('chain-is-conjunction', ei, [x, y, z],
                lambda t, o1=o1, o2=o2: [f'({src(t[0])} {o1} {src(t[1])} {o2} {src(t[2])})',
                                         f'(({src(t[0])} {o1} {src(t[1])}) and ({src(t[1])} {o2} {src(t[2])}))', src(t[0]), src(t[1])],
                lambda o: None if o[0] == o[1] else 'a op1 b op2 c differs from (a op1 b) and (b op2 c)', sig=sig_chain)
        e = G.gen(rnd, 'any', depth + 1)
        cs = rnd.randrange(1 << 30)
        add('name-case', ei, [e], lambda t, cs=cs: [src(t[0]), recase_identifiers(src(t[0]), random.Random(cs))],
            lambda o: None if o[0] == o[1] else 'changing the letter case of names / function names changes the result')
        nume = G.gen(rnd, 'num', depth)
        zero = rnd.choice(['0', '0.0', '(k - k)', 'False', '(amount - amount)', '(0 * month)'])
        add('div-mod-zero', ei, [nume],
            lambda t, zero=zero: [src(t[0]), zero, f'({src(t[0])} / {zero})', f'({src(t[0])} % {zero})'], chk_zero)
    return L


# ---------------------------------------------------------------------------------------------------
# fixed corpora (always run, every tier and seed)
JOIN_ENVS = [
    {'txn': {'description': 'REFUND 123', 'amount': fl(25), 'date': datetime.date(2025, 3, 1).toordinal(), 'field': None,
             'source': 'Amex', 'location': None},
     'vars': {'groups': enc([[1, 2], [3], [], [4, 5, 6]]), 'pairs': enc([[1.5, 2.5], [0.5]]), 'nothing': enc(None)},
     'ds': {'orders': [{'id': enc(1), 'item': enc('Book'), 'amount': fl(10)}, {'id': enc(2), 'item': enc('Toy'), 'amount': fl(15)},
                       {'id': enc(3), 'item': enc('Pen'), 'amount': fl(2.5)}, {'id': enc(2), 'item': enc('Cable'), 'amount': fl(7.5)}],
            'refunds': [{'order_id': enc(2), 'amount': fl(15)}, {'order_id': enc(9), 'amount': fl(1)}, {'order_id': enc(1), 'amount': fl(10)}]}},
    {'txn': {'description': 'x', 'amount': fl(0), 'date': None, 'field': None, 'source': None, 'location': None},
     'vars': {'groups': enc([[], [7]]), 'pairs': enc([]), 'nothing': enc(None)},
     'ds': {'orders': [{'id': enc(5), 'item': enc('Ink'), 'amount': fl(3)}], 'refunds': [{'order_id': enc(5), 'amount': fl(3)},
                                                                                       {'order_id': enc(5), 'amount': fl(1)}]}},
]


def _cross_env(rows, x):
    return {'txn': {'description': 'AMZN MKTP US ORDER A1', 'amount': fl(20), 'date': datetime.date(2025, 5, 12).toordinal(),
                    'field': {'ref': enc('A1')}, 'source': 'Amex', 'location': None},
            'vars': {'x': x, 'k': enc(1)}, 'ds': {'orders': rows}}


_D = lambda y, m, d_: enc(datetime.date(y, m, d_))  # noqa: E731
CROSS_ENVS = [
    _cross_env([{'date': _D(2025, 5, 12), 'ref': enc('A1'), 'item': enc('a')}, {'date': _D(2025, 7, 1), 'ref': enc('B2'), 'item': enc('b')}], _D(2025, 5, 12)),
    _cross_env([{'date': enc('06/15/2025'), 'ref': enc('A1'), 'item': enc('a')}, {'date': enc('n/a'), 'ref': enc('B2'), 'item': enc('b')}], enc('06/15/2025')),
    _cross_env([{'date': _D(2025, 5, 12), 'ref': enc('A1'), 'item': enc('a')}, {'date': enc('06/15/2025'), 'ref': enc('B2'), 'item': enc('b')},
                {'date': _D(2025, 8, 1), 'ref': enc('A1'), 'item': enc('c')}], enc('2025-05-12')),
]


def cross_eval_corpus():
    """(expression, order of CROSS_ENVS indices): a comparison against a string literal whose other operand is a date in one
    evaluation and a raw string in another.  Every evaluation must mean what a fresh one means (the parse tree is shared
    through the expression cache and must not be changed by an evaluation)."""
    out = []
    for lit, order in (('"2025-06-30"', (0, 1, 2, 1)), ('"2025-07-01"', (1, 0, 1, 2)), ('"2025-05-12"', (2, 1, 0))):
        for op in ('<=', '==', '>'):
            out += [
                (('call', 'any', [('comp', '(', ('cmp', 'r.date', [(op, lit)]), [('r', 'orders', [])])]), order),
                (('call', 'any', [('comp', '(', ('cmp', 'r.date', [(op, lit)]), [('r', 'orders', [('cmp', 'r.ref', [('==', 'field.ref')])])])]), order),
                (('comp', '[', 'r.item', [('r', 'orders', [('cmp', 'r.date', [(op, lit)])])]), order),
                (('cmp', 'x', [(op, lit)]), order),
                (('cmp', lit, [(op, 'x')]), order),
                (('cmp', ('if', 'k', 'x', 'date'), [(op, lit), (op, lit)]), order),
            ]
    return out


# ---- whitespace: what counts as a blank for normalized / trim / split / strip / exists ------------------
ASCII_WS = ['\t', '\n', '\x0b', '\x0c', '\r', '\x1c', '\x1d', '\x1e', '\x1f', ' ']          # modelled (Expr.StrOps.is_space)
UNI_WS = ['\x85', '\xa0', ' ', ' ', ' ', ' ', ' ', ' ', ' ', ' ', '　']
NOT_WS = ['​', '﻿', '_', '\x00'[:0] + '\x7f']      # zero-width space, BOM, underscore, DEL: not whitespace


def whitespace_corpus(chars):
    """(name, expression, expected): the functions that ignore or strip blanks, with each blank character between /
    around words.  Expected values by CPython's own notion of whitespace (str.isspace, = regex \\s)."""
    out = []
    norm = lambda s: ''.join(c for c in s.upper() if not (c.isspace() or c in "-'.*"))  # noqa: E731
    for w in chars:
        t, t2, pad = 'WHOLE' + w + 'FOODS', 'whole' + w + w + 'foods mkt', w + 'AMAZON' + w
        out += [
            ('normalized', f'normalized({pylit(t)}, "wholefoods")', norm('wholefoods') in norm(t)),
            ('normalized', f'normalized("WHOLEFOODS MKT", {pylit(t2)})', norm(t2) in norm('WHOLEFOODS MKT')),
            ('normalized', f'normalized({pylit(t)}, {pylit("FOODS" + w)})', norm('FOODS' + w) in norm(t)),
            ('trim', f'trim({pylit(pad)})', pad.strip()),
            ('strip-method', f'{pylit(pad)}.strip()', pad.strip()),
            ('split-strip', f'split({pylit("a" + w + "-" + w + "b" + w)}, "-", 1)', ('a' + w + '-' + w + 'b' + w).split('-')[1].strip()),
            ('exists', f'exists({pylit(w + w)})', bool((w + w).strip())),
            ('contains-exact', f'contains({pylit(t)}, "WHOLEFOODS")', 'WHOLEFOODS' in t),
        ]
    return out


# ---- txn.<name> is the transaction's own value, whatever else is called <name> ------------------------------
PRIMS = ['description', 'amount', 'date', 'source', 'location', 'month', 'year', 'day', 'weekday']


def hijack_env(base):
    e = json.loads(json.dumps(base))
    e['vars'] = dict(e.get('vars', {}), amount=enc(999), date=enc('hijacked'), description=enc('hijacked'), source=enc('hijacked'),
                     location=enc('hijacked'), month=enc(13), year=enc(1), day=enc(99), weekday=enc(9), txn=enc('hijacked'),
                     field=enc('hijacked'))
    return e


def hijack_family():
    """txn.<primitive> (and field.<builtin>) next to a loop variable, a := target or a user variable of the same name"""
    out = []
    for p in PRIMS:
        out += [('attr', 'txn', p), ('attr', 'TXN', p.upper()),
                ('bin', '+', ('bin', '*', ('call', 'len', [('comp', '[', ('attr', 'txn', p), [(p, 'orders', [])])]), '0'), '0'),
                ('comp', '[', ('attr', 'txn', p), [(p, 'orders', [])]),
                ('call', 'next', [('comp', '(', ('attr', 'txn', p), [(p, 'orders', [])]), 'None']),
                ('if', ('cmp', ('walrus', p, '"bound"'), [('==', '"bound"')]), ('attr', 'txn', p), 'None'),
                ('comp', '[', ('attr', 'txn', p), [('r', 'orders', [('walrus', p, 'r.item')])])]
    for p in ['description', 'amount', 'date', 'source', 'location']:
        out += [('attr', 'field', p), ('comp', '[', ('attr', 'field', p), [(p, 'orders', [])]),
                ('if', ('cmp', ('walrus', p, '"bound"'), [('==', '"bound"')]), ('attr', 'field', p), 'None')]
    out += [('comp', '[', ('cmp', 'amount.amount', [('==', 'txn.amount')]), [('amount', 'orders', [])]),
            ('comp', '[', 'amount', [('amount', 'orders', [('cmp', 'amount.amount', [('<=', 'txn.amount')])])]),
            ('call', 'any', [('comp', '(', ('cmp', 'date.date', [('==', 'txn.date')]), [('date', 'orders', [])])])]
    return out


def rebinding_family():
    """multi-clause and nested comprehensions whose inner iterable is a bare name re-bound by the outer clause
    (outer loop variable over a list of lists; := in the outer clause's condition), and a name re-bound between two
    comprehensions: the iterable must be looked up afresh every time"""
    match = ('comp', '[', 'o', [('o', 'orders', [('cmp', 'o.id', [('==', 'r.order_id')])])])
    flat = [('g', 'groups', []), ('a', 'g', [])]
    join = [('r', 'refunds', [('walrus', 'm', match)]), ('x', 'm', [])]
    out = []
    for kind in '[(':
        out += [('comp', kind, 'a', flat), ('comp', kind, ('bin', '*', 'a', '2'), [('g', 'groups', []), ('a', 'g', [('cmp', 'a', [('>', '1')])])]),
                ('comp', kind, 'x.item', join), ('comp', kind, ('bin', '+', 'x.amount', 'r.amount'), join),
                ('comp', kind, 'a', [('g', 'pairs', []), ('a', 'g', [])]),
                ('comp', kind, ('bin', '+', 'a', 'b'), [('g', 'groups', []), ('a', 'g', []), ('b', 'g', [('cmp', 'b', [('>', 'a')])])])]
    gens = [t for t in out if t[1] == '(']
    lists = [t for t in out if t[1] == '[']
    res = list(lists)
    for ge in gens:
        res += [('call', 'sum', [ge]) if ge[2] != 'x.item' else ('call', 'len', [('comp', '[') + ge[2:]]),
                ('call', 'any', [ge]), ('call', 'all', [ge]), ('call', 'next', [ge, 'None']), ('call', 'max', [ge]),
                ('call', 'len', [('comp', '[') + ge[2:]])]
    res += [
        ('comp', '[', ('comp', '[', ('bin', '*', 'a', '2'), [('a', 'g', [])]), [('g', 'groups', [])]),
        ('comp', '[', ('call', 'sum', [('comp', '(', 'a', [('a', 'g', [])])]), [('g', 'groups', [])]),
        ('comp', '[', ('call', 'len', [('comp', '[', 'o', [('o', 'm', [])])]),
         [('r', 'refunds', [('bool', 'or', [('walrus', 'm', match), 'True'])])]),
        ('comp', '[', ('call', 'len', ['g']), [('g', 'groups', [])]),
        ('comp', '[', ('call', 'len', ['orders']), [('orders', 'groups', [])]),
        ('comp', '[', 'o', [('orders', 'groups', []), ('o', 'orders', [])]),
        # the same comprehension text twice, its iterable re-bound in between
        ('bin', '+', ('if', ('walrus', 'g', ('sub', 'groups', '0')), ('comp', '[', 'a', [('a', 'g', [])]), 'groups'),
         ('if', ('walrus', 'g', ('sub', 'groups', '3')), ('comp', '[', 'a', [('a', 'g', [])]), 'groups')),
        ('bin', '+', ('call', 'sum', [('comp', '(', 'a', [('a', ('walrus', 'g', ('sub', 'groups', '0')), [])])]),
         ('call', 'sum', [('comp', '(', 'a', [('a', ('walrus', 'g', ('sub', 'groups', '3')), [])])])),
        ('comp', '[', ('comp', '[', 'o.item', [('o', 'orders', [('cmp', 'o.id', [('==', 'r.order_id')])])]), [('r', 'refunds', [])]),
        ('comp', '[', 'o.item', [('r', 'refunds', []), ('o', 'orders', [('cmp', 'o.id', [('==', 'r.order_id')])])]),
    ]
    return res


REGEX_TEXTS = ['UBER EATS 123', 'uber *trip', 'ref 77 Uber', 'AB ab', '  padded  ', '€5 uber', 'a_b-c', '12:30']


def regex_pair_corpus():
    """pairs of patterns that differ only in the letter case of an escape class, or in surrounding blanks, evaluated
    back to back in one process (lower first for one spelling, upper first for another), also through extract() and
    regex_replace(): each call must mean re.search/re.sub(pattern, text, IGNORECASE) for ITS pattern"""
    jobs = []
    for c in 'dswb':
        lo, up = '\\' + c, '\\' + c.upper()
        shapes = [('%s+', '%s+'), ('^%s', '^%s'), ('r%s', 'r%s'), ('%s{2}', '%s{2}')] if c != 'b' else \
                 [('uber%s', 'uber%s'), ('%s7', '%s7'), ('%sab', '%sab'), ('d%s', 'd%s')]
        for i, (a, b) in enumerate(shapes):
            first, second = (a % lo, b % up) if i % 2 == 0 else (a % up, b % lo)
            for t in REGEX_TEXTS[(i * 2) % 8:][:3] + REGEX_TEXTS[:2]:
                for p in (first, second):
                    jobs.append(('regex', f'regex({pylit(t)}, {pylit(p)})', bool(re.search(p, t, re.IGNORECASE))))
        if c == 'b':
            g1, g2 = '(%su\\w*)' % lo, '(%su\\w*)' % up
        else:
            g1, g2 = ('(%s+)' % lo, '(%s+)' % up) if c in 'dw' else ('(%s+)' % up, '(%s+)' % lo)
        for t in REGEX_TEXTS[:4]:
            for p in (g1, g2):
                m = re.search(p, t, re.IGNORECASE)
                jobs.append(('extract', f'extract({pylit(t)}, {pylit(p)})', m.group(1) if m and m.groups() else ''))
                jobs.append(('regex_replace', f'regex_replace({pylit(t)}, {pylit(p)}, "#")', re.sub(p, '#', t, flags=re.IGNORECASE)))
    for a, b in [('uber', ' uber'), ('Uber ', 'uber'), ('u.er', 'U.ER'), ('[a-c]b', '[A-C]B'), ('ab$', 'AB$'), ('(?-i:ab)', '(?-i:AB)')]:
        for t in REGEX_TEXTS[:5]:
            for p in (a, b):
                jobs.append(('regex', f'regex({pylit(t)}, {pylit(p)})', bool(re.search(p, t, re.IGNORECASE))))
                jobs.append(('regex', f'regex({pylit(p)})', None))
    return jobs


def fuzzy_spec(text, pattern, thr=0.8, swapped=False):
    """fuzzy(): some window of the pattern's length over the upper-cased text has SequenceMatcher(None, window, pattern)
    .ratio() >= threshold (the whole text if it is shorter than the pattern)"""
    from difflib import SequenceMatcher
    t, p = text.upper(), pattern.upper()
    r = (lambda w: SequenceMatcher(None, p, w).ratio()) if swapped else (lambda w: SequenceMatcher(None, w, p).ratio())
    if len(p) > len(t):
        return r(t) >= thr
    return any(r(t[i:i + len(p)]) >= thr for i in range(len(t) - len(p) + 1))


FUZZY_FIXED = [('AIRNIBNB STAY', 'AIRBNB', 0.8), ('AMAZMAON MKTP', 'AMAZON', 0.8), ('TIDE', 'DIET', 0.4), ('STARBUKS', 'STARBUCKS', 0.8),
               ('STARBUCK', 'STARBUCKS', 0.8), ('NETFLX.COM', 'NETFLIX', 0.8), ('', 'X', 0.8), ('X', '', 0.8)]
_FUZZY = []


def fuzzy_corpus():
    """texts with typos for which ratio(window, pattern) and ratio(pattern, window) fall on different sides of the
    threshold (SequenceMatcher.ratio is not symmetric), found by a deterministic search, plus fixed witnesses"""
    if _FUZZY:
        return _FUZZY
    rnd = random.Random(20260101)
    out = list(FUZZY_FIXED)
    vocab = ['AIRBNB', 'AMAZON', 'STARBUCKS', 'NETFLIX', 'COSTCO', 'WALMART', 'SPOTIFY', 'CHIPOTLE', 'SAFEWAY', 'TARGET']
    tries = 0
    while len(out) < len(FUZZY_FIXED) + 14 and tries < 40000:
        tries += 1
        w = rnd.choice(vocab)
        s = list(w)
        for _ in range(rnd.choice([1, 2, 2, 3])):
            i = rnd.randrange(len(s))
            k = rnd.random()
            if k < 0.35:
                s.insert(i, rnd.choice(w))
            elif k < 0.6:
                s.insert(i, s[i])
            elif k < 0.85 and i + 1 < len(s):
                s[i], s[i + 1] = s[i + 1], s[i]
            else:
                del s[i]
        text = rnd.choice(['', 'SQ ', 'THE ']) + ''.join(s) + rnd.choice(['', ' STAY', ' MKTP', ' #12'])
        thr = rnd.choice([0.8, 0.8, 0.75, 0.9, 0.7])
        if fuzzy_spec(text, w, thr) != fuzzy_spec(text, w, thr, swapped=True) and (text, w, thr) not in out:
            out.append((text, w, thr))
    _FUZZY.extend(out)
    return _FUZZY


TEXTS = ['UBER EATS 123', 'uber *trip', '', 'Whole-Foods Mkt', 'WHOLE FOODS', 'NETFLIX.COM', 'ref 77 Uber', '  padded  ',
         'AB ab', 'ACH-OUT-123', 'AMZN*MARKET', 'SQ*COFFEE', 'STORE DES:123', "O'Reilly-Media.", '€5 uber', 'x']
PATS = ['uber', 'UBER', 'Uber eats', '', 'whole', 'WHOLEFOODS', 'oreillymedia', 'ach-', 'sq*', ' des:123', 'x', 'mkt', '€5', '123']


def dec_j(j):
    from expr_common import dec
    return dec(j)


def spec_instances(rnd, envs, n, hij=None, n_plain=None):
    """independent reading of the reference: each instance carries the expected value computed here in Python"""
    L = []

    def add(name, ei, expr, expected, sig=None):
        L.append({'law': 'spec:' + name, 'env': ei, 'exprs': [expr], 'expect': expected,
                  'check': (lambda o, e=expected: None if o[0] == e else f'expected {json.dumps(e)}'), 'trees': None,
                  'sig': (lambda o, s=sig: s)})

    def V(x):
        return {'val': enc(x)}
    up = lambda s: ''.join(c.upper() if c.isascii() else c for c in s)  # noqa: E731
    lo = lambda s: ''.join(c.lower() if c.isascii() else c for c in s)  # noqa: E731
    norm = lambda s: ''.join(c for c in up(s) if c not in " \t\n\r\f\v-'.*")  # noqa: E731
    for i in range(n):
        ei = rnd.randrange(n_plain or len(envs))
        desc = envs[ei]['txn']['description']
        t, p, p2 = rnd.choice(TEXTS), rnd.choice(PATS), rnd.choice(PATS)
        T, P, P2 = pylit(t), pylit(p), pylit(p2)
        k = i % 16
        if k == 0:
            add('contains', ei, f'contains({T}, {P})', V(lo(p) in lo(t)))
            add('contains', ei, f'contains({P})', V(lo(p) in lo(desc)))
            add('contains-case', ei, f'contains({pylit(swapcase_ascii(t))}, {pylit(swapcase_ascii(p))})', V(lo(p) in lo(t)))
        elif k == 1:
            add('startswith', ei, f'startswith({T}, {P})', V(lo(t).startswith(lo(p))))
            add('startswith', ei, f'STARTSWITH({pylit(swapcase_ascii(p))})', V(lo(desc).startswith(lo(p))))
        elif k == 2:
            add('anyof', ei, f'anyof({P}, {P2})', V(lo(p) in lo(desc) or lo(p2) in lo(desc)))
        elif k == 3:
            add('normalized', ei, f'normalized({T}, {P})', V(norm(p) in norm(t)))
        elif k == 4:
            add('str-eq', ei, f'({T} == {P})', V(lo(t) == lo(p)))
            add('str-ne', ei, f'({T} != {pylit(swapcase_ascii(t))})', V(False))
            add('str-in', ei, f'({P} in {T})', V(lo(p) in lo(t)))
            add('str-not-in', ei, f'({P} not in description)', V(lo(p) not in lo(desc)))
        elif k == 5:
            dt = envs[ei]['txn'].get('date')
            y, m, dd = rnd.choice([(2025, 1, 31), (2024, 2, 29), (2024, 12, 31), (2025, 1, 1), (1999, 12, 31), (2025, 2, 1)])
            other = datetime.date(y, m, dd)
            iso = f'"{y:04d}-{m:02d}-{dd:02d}"'
            op = rnd.choice(['<', '<=', '>', '>=', '==', '!='])
            if dt is not None:
                mine = datetime.date.fromordinal(dt)
                exp = {'<': mine < other, '<=': mine <= other, '>': mine > other, '>=': mine >= other, '==': mine == other,
                       '!=': mine != other}[op]
                add('date-vs-iso', ei, f'(date {op} {iso})', V(exp))
                add('date-vs-iso', ei, f'({iso} {op} txn.date)', V({'<': other < mine, '<=': other <= mine, '>': other > mine,
                                                                     '>=': other >= mine, '==': other == mine, '!=': other != mine}[op]))
                for nm, val in (('month', mine.month), ('year', mine.year), ('day', mine.day), ('weekday', mine.weekday())):
                    add('date-parts', ei, nm if rnd.random() < 0.5 else 'txn.' + nm, V(val))
            else:
                add('date-parts-missing', ei, '(month + year + day + weekday)', V(0))
        elif k == 6:
            dl = rnd.choice(['-', ' ', '*', 'o', 'OUT'])
            idx = rnd.choice([0, 1, 2, 5, -1])
            parts = t.split(dl)
            add('split', ei, f'split({T}, {pylit(dl)}, {idx})', V(parts[idx].strip() if 0 <= idx < len(parts) else ''))
        elif k == 7:
            a, b = rnd.choice([0, 1, 4, -3]), rnd.choice([0, 4, 100, -1])
            add('substring', ei, f'substring({T}, {a}, {b})', V(t[a:b]))
        elif k == 8:
            add('trim', ei, f'trim({T})', V(t.strip()))
            add('trim', ei, 'trim()', V(desc.strip()))
        elif k == 9:
            add('strip_prefix', ei, f'strip_prefix({T}, {P})', V(t[len(p):] if lo(t).startswith(lo(p)) else t))
        elif k == 10:
            sfx = rnd.choice(PATS + [t[-3:], swapcase_ascii(t[-4:]), ''])
            exp = t[:len(t) - len(sfx)] if lo(t).endswith(lo(sfx)) else t
            add('strip_suffix', ei, f'strip_suffix({T}, {pylit(sfx)})', V(exp),
                sig='C04/strip-suffix-empty-suffix' if sfx == '' and t != '' else None)
        elif k == 11:
            add('uppercase', ei, f'uppercase({T})', V(up(t)))
            add('lowercase', ei, f'lowercase({T})', V(lo(t)))
        elif k == 12:
            pat = rnd.choice([r'(\d+)', r'([a-z]+)-', r'#(\w*)', r'uber', r'(x)?uber'])
            m = re.search(pat, t, re.IGNORECASE)
            add('extract', ei, f'extract({T}, {pylit(pat)})', V(m.group(1) if m and m.groups() else ''))
        elif k == 13:
            pat, rep = rnd.choice([(r'^sq\*\s*', ''), (r'\s+', '_'), (r'[0-9]', '#')])
            add('regex_replace', ei, f'regex_replace({T}, {pylit(pat)}, {pylit(rep)})', V(re.sub(pat, rep, t, flags=re.IGNORECASE)))
        elif k == 14:
            pat = rnd.choice([r'uber\s', r'^U', r'EATS$', r'whole.foods', r'\d{3}'])
            add('regex', ei, f'regex({T}, {pylit(pat)})', V(bool(re.search(pat, t, re.IGNORECASE))))
            add('regex-case', ei, f'regex({pylit(swapcase_ascii(t))}, {pylit(pat)})', V(bool(re.search(pat, t, re.IGNORECASE))))
        else:
            add('walrus', ei, f'((w := {T}) == w)', V(True))
            add('walrus', ei, f'((w := {P}) + W)', V(p + p))
    # fixed corpora: regex pattern pairs, order-sensitive fuzzy witnesses
    for name, expr, expected in regex_pair_corpus():
        if expected is not None:
            add('corpus-' + name, 0, expr, V(expected))
    for text, pat, thr in fuzzy_corpus():
        add('corpus-fuzzy', 0, f'fuzzy({pylit(text)}, {pylit(pat)}, {thr})', V(fuzzy_spec(text, pat, thr)))
        if thr == 0.8:
            add('corpus-fuzzy', 0, f'fuzzy({pylit(text.lower())}, {pylit(pat)})', V(fuzzy_spec(text, pat, thr)))
    for name, expr, expected in whitespace_corpus(ASCII_WS + UNI_WS + NOT_WS):
        add('corpus-ws-' + name, 0, expr, V(expected))
    # txn.<name>: the transaction's value, whatever a := target or a user variable of that name holds
    for ei in (0, 2, 4):
        t = envs[ei]['txn']
        mine = None if t.get('date') is None else datetime.date.fromordinal(t['date'])
        real = {'description': t['description'], 'amount': dec_j(t['amount']), 'date': mine, 'source': t.get('source') or '',
                'location': t.get('location') or '', 'month': mine.month if mine else 0, 'year': mine.year if mine else 0,
                'day': mine.day if mine else 0, 'weekday': mine.weekday() if mine else 0}
        for pnm in PRIMS:
            add('corpus-txn-attr', ei, f'(txn.{pnm} if ({pnm} := "bound") == "bound" else None)', V(real[pnm]))
            if hij is not None and ei in (0, 2):
                add('corpus-txn-attr', hij + (0 if ei == 0 else 1), f'txn.{pnm}', V(real[pnm]))
    # the reference's own examples
    E0 = 0
    ref = [
        ('contains("NETFLIX")', 'NETFLIX.COM', True), ('contains("NETFLIX")', 'netflix', True),
        ('regex("UBER\\\\s(?!EATS)")', 'UBER TRIP', True), ('regex("UBER\\\\s(?!EATS)")', 'UBER EATS', False),
        ('normalized("WHOLEFOODS")', 'WHOLE FOODS', True), ('normalized("WHOLEFOODS")', 'WHOLE-FOODS', True),
        ('anyof("NETFLIX", "HULU", "HBO")', 'hulu plus', True),
        ('startswith("AMZN")', 'AMZN MKTP', True), ('startswith("AMZN")', 'PAY AMZN', False),
        ('fuzzy("STARBUCKS")', 'STARBUKS', True), ('fuzzy("STARBUCKS")', 'STARBUCK', True),
        ('split("-", 0)', 'ACH-OUT-123', 'ACH'), ('substring(0, 4)', 'AMZN*MARKET', 'AMZN'), ('trim()', '  AMAZON  ', 'AMAZON'),
        ('extract("REF:(\\\\d+)")', 'REF:12345', '12345'),
        ('regex_replace(field.description, "^APLPAY\\\\s+", "")', 'APLPAY STARBUCKS', 'STARBUCKS'),
        ('uppercase(field.description)', 'Starbucks', 'STARBUCKS'), ('lowercase(field.description)', 'STARBUCKS', 'starbucks'),
        ('strip_prefix(field.description, "SQ*")', 'SQ*COFFEE', 'COFFEE'),
        ('strip_suffix(field.description, " DES:123")', 'STORE DES:123', 'STORE'),
        ('contains("UBER") and not contains("EATS")', 'UBER EATS', False),
        ('(contains("AMAZON") or contains("AMZN")) and amount > 100', 'AMZN MKTP', True),
    ]
    return L, ref


REF_ENV = {'txn': {'description': '', 'amount': fl(150), 'date': datetime.date(2025, 1, 15).toordinal(), 'field': None,
                   'source': 'Amex', 'location': None}, 'vars': {},
           'ds': {'orders': [{'item': enc('Book'), 'amount': fl(150), 'date': enc(datetime.date(2025, 1, 14))},
                             {'item': enc('Toy'), 'amount': fl(10), 'date': enc(datetime.date(2025, 2, 1))}]}}


def pyeval_family(rnd):
    """comprehension expressions whose meaning in tally and in plain Python coincide (numeric conditions,
    attribute access on rows): compared with CPython's own evaluation of the same text on plain data"""
    elts = ['r', 'r.amount', 'r.item', 'txn.amount', ('bin', '*', 'r.amount', '2'), ('bin', '+', 'r.amount', 'txn.amount')]
    iters = ['orders', 'paypal', ('comp', '[', 'q', [('q', 'orders', [('cmp', 'q.amount', [('>', '0')])])])]
    conds = [None, ('cmp', 'r.amount', [('>', '0')]), ('cmp', 'r.amount', [('==', 'txn.amount')]),
             ('cmp', 'r.amount', [('<', 'txn.amount'), ('<', '100')]), ('cmp', ('bin', '-', 'r.amount', '1'), [('<=', '12')])]
    out = []
    for e in elts:
        for it in iters:
            for c in conds:
                ifs = [] if c is None else [c]
                lc = ('comp', '[', e, [('r', it, ifs)])
                ge = ('comp', '(', e, [('r', it, ifs)])
                out += [lc, ('call', 'len', [lc]), ('call', 'any', [ge]), ('call', 'all', [ge]), ('call', 'next', [ge, '0']),
                        ('sub', lc, '0'), ('call', 'next', [ge, 'None']), ('call', 'next', [ge, 'nothing']),
                        ('cmp', ('call', 'next', [ge, 'None']), [('==', 'None')]),
                        ('if', ('call', 'any', [ge]), 'None', ('call', 'len', [lc]))]
                if e in ('r.amount', 'txn.amount') or isinstance(e, tuple):
                    out += [('call', 'sum', [ge]), ('call', 'max', [ge]), ('call', 'min', [lc]), ('call', 'sum', [lc, '0.5'])]
    out += [('comp', '[', ('bin', '+', 'r.amount', 'p.amount'), [('r', 'orders', []), ('p', 'paypal', [])]),
            ('comp', '[', ('comp', '[', 'p.amount', [('p', 'paypal', [('cmp', 'p.amount', [('>', 'r.amount')])])]), [('r', 'orders', [])]),
            ('call', 'len', [('comp', '[', 'r', [('r', 'orders', []), ('q', 'orders', [('cmp', 'q.amount', [('>=', 'r.amount')])])])])]
    return out


def same_modulo_error_class(a, b):
    if is_ok(a) != is_ok(b):
        return False
    return a == b if is_ok(a) else True


# ---------------------------------------------------------------------------------------------------
def run_seq(env, texts, prelude=()):
    """evaluate `texts` on `env` after the `prelude` (items: a text = same environment, or {'env':…, 'expr':…}), all in ONE
    process: the expression cache, the regex cache and the shared parse trees are process state"""
    envs, jobs = [env], []
    for p in prelude:
        if isinstance(p, dict):
            envs.append(p['env'])
            jobs.append([len(envs) - 1, p['expr']])
        else:
            jobs.append([0, p])
    r = run_impl(IMPL, {'envs': envs, 'jobs': jobs + [[0, x] for x in texts]})
    return r['results'][len(jobs):], r['log']


def run_one(env, text, prelude=()):
    res, log = run_seq(env, [text], prelude)
    return res[-1], log


def prelude_for(texts, ei, all_jobs, all_envs=None, upto=None):
    """earlier evaluations of this run that can share process state with `texts`: the same text up to letter case
    (a cache keyed on a normalised string), or the very same text on another environment (a shared parse tree)"""
    want = {t.lower() for t in texts}
    out = []
    for e, t in (all_jobs if upto is None else all_jobs[:upto]):
        if t.lower() not in want:
            continue
        if t not in texts:
            item = t if e == ei or all_envs is None else {'env': all_envs[e], 'expr': t}
        elif e != ei and all_envs is not None:
            item = {'env': all_envs[e], 'expr': t}
        else:
            continue
        if item not in out:
            out.append(item)
    return out[-6:]


def model_one(env, text, out, log):
    mc = model_check('C04_one', [env], [(0, text, out)], log, jobs=1)
    if mc['error']:
        return 'error: ' + mc['error']
    if mc['bad']:
        return 'disagree'
    if mc['skipped']:
        why = list(mc['skipped'].values())[0]
        return 'disagree' if why.endswith('oracle-miss') else 'unmodelled: ' + why
    if mc['not_comparable']:
        return 'not-comparable'
    return 'agree'


def main(tier):
    run = Run('C04', tier)
    run.assumptions = [
        'strings: ASCII case mapping and ASCII whitespace; generated text is ASCII plus caseless non-ASCII code points (Unicode case tables not modelled)',
        'floats are exact rationals; a float result that is not a binary64 value is Unmodelled (counted, not compared): float rounding is outside the model',
        'CPython\'s expression parser (ast.parse, mode=eval) is used as is: the harness renders its tree as the Coq pyast term',
        're.search / re.sub with IGNORECASE and difflib.SequenceMatcher.ratio are oracles of the model (Section-style parameters of env), '
        'answered per case by CPython itself through logging proxies in harness/impl_c04.py',
        'the evaluator model Expr/Eval.v is hand-written and tied to the code by the correspondence only',
        'generator objects are modelled only where they are consumed at the place they are written (any/all/sum/min/max/next(<genexp>)); '
        'a stored generator, str() of floats/lists/dicts, round(x, n), %-formatting, ISO week dates are Unmodelled (counted)',
        'recursion limit, memory and catastrophic regex backtracking are not modelled']
    res = run.proof_step(COQ_FILES, extra_trusted=[
        'harness/expr_common.py (ast -> Coq rendering, value encoding), harness/c04.py, harness/c04_gen.py, harness/impl_c04.py (oracle logging)'])
    broken = []
    if not res['ok']:
        broken.append({'kind': 'broken-obligation', 'detail': first_error(res['log'])})
    if res['hygiene']:
        broken.append({'kind': 'hygiene', 'detail': res['hygiene']})

    rnd = random.Random(run.seed * 7919 + 17)
    quick = tier != 'thorough'
    envs = boundary_envs()
    nb = len(envs)
    envs += [G.rand_env(rnd) for _ in range(30 if quick else 120)]
    # case-variant environments (description / fields in the other letter case) for the text-case law
    # ---- correspondence stream ------------------------------------------------------------------------
    small = G.exhaustive_small()
    n_small_total = len(small)
    if quick:
        head = [t for t in small if tree_size(t) <= 2]
        rest = [t for t in small if tree_size(t) > 2]
        small_sel = head + rnd.sample(rest, 2000)
        corr = [((i * 5 + i // 7 + d) % nb, t) for i, t in enumerate(small_sel) for d in (0, 3)]
    else:
        corr = [(ei, t) for t in small for ei in range(nb)]
    fam = G.comprehension_family()
    if quick:
        corr += [((i * 7) % nb, t) for i, t in enumerate(fam) if i % 3 == run.seed % 3]
    else:
        corr += [(ei, t) for t in fam for ei in (0, 1, 3, 4)]
    envs += JOIN_ENVS + CROSS_ENVS
    envs += [hijack_env(envs[0]), hijack_env(envs[2])]
    h0 = len(envs) - 2
    j0 = h0 - len(JOIN_ENVS) - len(CROSS_ENVS)
    x0 = h0 - len(CROSS_ENVS)
    reb = rebinding_family()
    corr += [(j0 + d, t) for t in reb for d in range(len(JOIN_ENVS))]
    # scoping templates and := inside comprehensions: always, on every environment that has rows
    wal = G.walrus_in_comp_family()
    corr += [(ei, t) for t in G.scoping_family() + wal for ei in (0, 1, 2, 5, j0)]
    hij = hijack_family()
    corr += [(ei, t) for t in hij for ei in (0, 1, 5, h0, h0 + 1)]
    corr += [(0, e) for _, e, _ in whitespace_corpus(ASCII_WS)]
    # the same text on environments whose rows / variables hold dates, raw strings, or both, in both orders
    corr += [(x0 + d, t) for t, order in cross_eval_corpus() for d in order]
    corr += [(0, e) for _, e, _ in regex_pair_corpus()] + \
            [(0, f'fuzzy({pylit(t)}, {pylit(p)}, {th})') for t, p, th in fuzzy_corpus()]
    n_exh = len(corr)
    for i in range(2000 if quick else 25000):
        corr.append((rnd.randrange(len(envs)), G.gen(rnd, 'any', rnd.choice([2, 3, 4, 5, 6]))))
    corr_jobs = [[ei, src(t)] for ei, t in corr]

    # ---- law / spec streams ----------------------------------------------------------------------------
    laws = law_instances(rnd, envs, 500 if quick else 4000)
    specs, ref = spec_instances(rnd, envs, 480 if quick else 6000, hij=h0, n_plain=j0)
    ref_envs = []
    for expr, desc, expected in ref:
        e = json.loads(json.dumps(REF_ENV))
        e['txn']['description'] = desc
        e['txn']['field'] = {'description': enc(desc)}
        ref_envs.append(e)
        specs.append({'law': 'reference-example', 'env': len(envs) + len(ref_envs) - 1, 'exprs': [expr], 'expect': {'val': enc(expected)},
                      'check': (lambda o, x=expected: None if o[0] == {'val': enc(x)} else f'the reference says {x!r}'),
                      'trees': None, 'sig': lambda o: None})
    # the reference's "within 3 days" example
    specs.append({'law': 'reference-example', 'env': len(envs) + len(ref_envs), 'exprs': ['len([r for r in orders if abs(r.date - txn.date) <= 3])'],
                  'expect': {'val': enc(1)},
                  'check': lambda o: None if o[0] == {'val': enc(1)} else 'the reference says: finds the orders within 3 days of the transaction',
                  'trees': None, 'sig': lambda o: 'C04/reference-date-difference-example'})
    all_envs = envs + ref_envs + [REF_ENV]
    law_jobs = []
    for inst in laws + specs:
        inst['at'] = len(law_jobs)
        law_jobs += [[inst['env'], x] for x in inst['exprs']]
    pyf = pyeval_family(rnd)
    if quick:
        pyf = [t for i, t in enumerate(pyf) if i % 2 == run.seed % 2 or i >= len(pyf) - 3]
    py_jobs = [[ei, src(t)] for t in pyf for ei in ((0, 1) if quick else (0, 1, 2, 5, nb, nb + 1))]
    py_jobs += [[j0 + d, src(t)] for t in reb for d in range(len(JOIN_ENVS))]
    py_jobs += [[ei, src(t)] for t in wal for ei in (0, 1, 2, 5, j0)]
    py_jobs += [[ei, src(t)] for t in hij[-3:-1] + [t for t in hij if t[0] == 'comp' and t[2][:2] == ('attr', 'txn')] for ei in (0, 1, 5)]

    all_jobs = corr_jobs + law_jobs + py_jobs
    t0 = time.time()
    r = run_impl(IMPL, {'envs': all_envs, 'jobs': all_jobs, 'pyeval': py_jobs}, timeout=3000)
    t_impl = time.time() - t0
    outs = r['results']
    corr_out = outs[:len(corr_jobs)]
    law_out = outs[len(corr_jobs):len(corr_jobs) + len(law_jobs)]
    py_out = outs[len(corr_jobs) + len(law_jobs):]

    # ---- direct oracle on the implementation ------------------------------------------------------------
    law_fail = []
    law_counts, law_applicable = Counter(), Counter()
    for inst in laws + specs:
        o = law_out[inst['at']:inst['at'] + len(inst['exprs'])]
        law_counts[inst['law']] += 1
        msg = inst['check'](o)
        if any(is_ok(x) for x in o):
            law_applicable[inst['law']] += 1
        if msg:
            law_fail.append((inst, o, msg))
    for (ei, text), a, b in zip(py_jobs, py_out, r['pyeval']):
        law_counts['python-construct'] += 1
        if is_ok(b):
            law_applicable['python-construct'] += 1
        if b.get('err') == 'SyntaxError':
            continue            # not a construct CPython compiles (e.g. := in a comprehension iterable)
        if not same_modulo_error_class(a, b):
            law_fail.append(({'law': 'python-construct', 'env': ei, 'exprs': [text], 'trees': None, 'sig': lambda o: None,
                              'check': None}, [a, b], 'differs from CPython evaluating the same construct on plain data'))
    reported = set()
    for inst, o, msg in law_fail:
        sig = inst['sig'](o) if inst.get('sig') else None
        key = (inst['law'], sig)
        if key in reported:
            continue
        reported.add(key)
        case = {'law': inst['law'], 'env': all_envs[inst['env']], 'exprs': inst['exprs']}
        if 'expect' in inst:
            case['expect'] = inst['expect']
        shrunk_from = None
        if inst.get('trees') and not sig:
            case, shrunk_from = shrink_law(inst, all_envs[inst['env']], case)
        case['prelude'] = prelude_for(case['exprs'], inst['env'], all_jobs, all_envs, len(corr_jobs) + inst.get('at', 0))
        if shrunk_from:
            o, _ = run_seq(case['env'], case['exprs'], case['prelude'])
        run.violation('law', {'kind': 'counterexample', 'case': case, 'observed': o, 'expected': msg,
                              'obligation': 'c04 law "%s" on the implementation' % inst['law'], 'shrunk_from': shrunk_from,
                              'n_failing_instances': sum(1 for i2, _, _ in law_fail if i2['law'] == inst['law']), 'broken': broken},
                      signature=sig)

    # ---- correspondence: the model inside Coq --------------------------------------------------------------
    t0 = time.time()
    mc = {'bad': [], 'skipped': {}, 'not_comparable': [], 'error': 'proof step failed', 'files': 0}
    if res['ok']:
        cases = [(ei, text, o) for (ei, text), o in zip(corr_jobs, corr_out)]
        mc = model_check('C04', all_envs, cases, r['log'], jobs=4)
        # the model asked the regex / fuzzy oracle something the harness has no CPython answer for: the code did not
        # make (and the expression does not spell) the call the model expects -- counted as a disagreement
        for i2, why in list(mc['skipped'].items()):
            if why.endswith('oracle-miss'):
                mc['bad'].append(i2)
                del mc['skipped'][i2]
    t_model = time.time() - t0
    if res['ok'] and mc['error']:
        broken.append({'kind': 'broken-correspondence', 'obligation': 'model_vs_impl(Expr.Eval.eval_top, evaluate_transaction)',
                       'detail': 'cases.v did not evaluate: ' + mc['error']})
    elif mc['bad']:
        i = min(mc['bad'], key=lambda j: tree_size(corr[j][1]))
        ei, tree = corr[i]
        small_tree, n0 = shrink_corr(all_envs[ei], tree)
        text = src(small_tree)
        prelude = prelude_for([text], ei, all_jobs, all_envs, i)
        out, log = run_one(all_envs[ei], text, prelude)
        run.violation('corr', {'kind': 'counterexample', 'case': {'env': all_envs[ei], 'expr': text, 'prelude': prelude},
                               'observed': out, 'expected': 'the outcome of Expr.Eval.eval_top on the same input (model_vs_impl)',
                               'model_says': model_one(all_envs[ei], text, out, log),
                               'obligation': 'model_vs_impl(Expr.Eval.eval_top, evaluate_transaction)',
                               'n_disagreements': len(mc['bad']), 'shrunk_from': n0,
                               'other_disagreements': [corr_jobs[j][1] for j in mc['bad'][:8]], 'broken': broken})
    if broken and not run.violations:
        run.violation('broken', {'kind': broken[0]['kind'], 'obligation': broken[0].get('obligation') or
                                 (broken[0]['detail'].get('obligation') if isinstance(broken[0]['detail'], dict) else None),
                                 'broken': broken, 'searched': f'{len(law_jobs)} law/spec evaluations and {len(corr_jobs)} '
                                 'correspondence cases on the implementation, none fails'}, found_input=False)

    # ---- evidence ------------------------------------------------------------------------------------------
    kinds, okinds = Counter(), Counter()
    for (ei, text), o in zip(corr_jobs, corr_out):
        for k in set(node_kinds(text)):
            kinds[k] += 1
        okinds[o.get('err') or 'value:' + o['val']['t']] += 1
    # non-trivial: distinct expression texts whose outcome differs between two environments
    by_text = {}
    for (ei, text), o in zip(corr_jobs + law_jobs, corr_out + law_out):
        by_text.setdefault(text, set()).add(json.dumps(o, sort_keys=True))
    nontrivial = sum(1 for v in by_text.values() if len(v) > 1)
    skipped = Counter(mc['skipped'].values())
    compared = len(corr_jobs) - len(mc['skipped']) - len(mc['not_comparable'])
    run.cov.update({
        'evaluations': len(corr_jobs) + len(law_jobs) + 2 * len(py_jobs),
        'distinct_nontrivial': nontrivial,
        'rule': 'correspondence: all expressions of <= 3 nodes over a 15-leaf alphabet (incl. None) (quick: all of <= 2 nodes + 2000 sampled of 3, each on 2 boundary transactions; '
                'thorough: all x 6 boundary transactions), comprehension/scoping templates, random typed trees of depth <= 6, on boundary '
                'transactions (zero/negative/large amount, month/year ends, leap day, empty description, missing date, custom fields, '
                'source) x 0-2 supplemental tables of 0-3 rows and random environments; non-trivial = distinct expression texts evaluated '
                'on >= 2 environments with different outcomes',
        'exhaustive_small_total': n_small_total, 'exhaustive_small_run': len(small_sel) if quick else n_small_total,
        'exhaustive': not quick, 'correspondence_cases': len(corr_jobs), 'exhaustive_and_template_cases': n_exh,
        'random_cases': len(corr_jobs) - n_exh, 'model_vs_impl_compared_in_coq': compared,
        'model_disagreements': len(mc['bad']), 'discarded_inexact': skipped.get('inexact-float', 0),
        'unmodelled_by_reason': dict(skipped), 'not_comparable': len(mc['not_comparable']), 'cases_files': mc.get('files'),
        'node_kind_histogram': dict(kinds.most_common()), 'outcome_histogram': dict(okinds.most_common()),
        'law_instances': dict(law_counts), 'law_instances_applicable': dict(law_applicable), 'law_failures': len(law_fail),
        'oracle_queries': {k: len(v) for k, v in r['log'].items()},
        'environments': len(all_envs), 'impl_seconds': round(t_impl, 1), 'model_seconds': round(t_model, 1),
        'samples': [corr_jobs[3][1], corr_jobs[n_exh - 5][1], corr_jobs[-1][1], laws[1]['exprs'], specs[5]['exprs']]})
    run.finish()


def shrink_law(inst, env, case):
    """shrink the trees of a law instance, one component at a time, while the law still fails on the implementation"""
    trees = list(inst['trees'])

    def fails_with(ts):
        ex = inst['build'](ts)
        rr = run_impl(IMPL, {'envs': [env], 'jobs': [[0, x] for x in ex]})['results']
        return bool(inst['check'](rr)) and not (inst.get('sig') and inst['sig'](rr))
    if not fails_with(trees):
        return case, None           # needs the state of the whole run (e.g. a cache): keep as found
    n0 = sum(tree_size(t) for t in trees)
    for k in range(len(trees)):
        trees[k] = shrink_tree(trees[k], lambda t, k=k: fails_with(trees[:k] + [t] + trees[k + 1:]), budget=40)
    out = dict(case)
    out['exprs'] = inst['build'](trees)
    return out, n0


def shrink_corr(env, tree):
    """shrink an expression tree while model and implementation still disagree on it"""
    def fails(t):
        text = src(t)
        out, log = run_one(env, text)
        return model_one(env, text, out, log) == 'disagree'
    if not fails(tree):
        return tree, None            # reproduces only with the state of the whole run: keep as found
    return shrink_tree(tree, fails, budget=25), tree_size(tree)


def replay(path):
    obj = json.load(open(path))
    if obj.get('kind') != 'counterexample':
        main('quick')
        return 0
    case = obj['case']
    if 'expr' in case:     # correspondence
        out, log = run_one(case['env'], case['expr'], case.get('prelude', []))
        verdict = model_one(case['env'], case['expr'], out, log)
        print(json.dumps({'expr': case['expr'], 'implementation': out, 'model_vs_impl': verdict}, indent=1))
        if verdict == 'disagree' or verdict.startswith('error'):
            print(f'VIOLATION property=C04 replay={path}')
            return 1
        return 0
    outs, _ = run_seq(case['env'], case['exprs'], case.get('prelude', []))
    rr = {'pyeval': run_impl(IMPL, {'envs': [case['env']], 'jobs': [], 'pyeval': [[0, x] for x in case['exprs']]})['pyeval']
          if case['law'] == 'python-construct' else []}
    print(json.dumps({'law': case['law'], 'exprs': case['exprs'], 'implementation': outs, 'expected': obj.get('expected')}, indent=1))
    law = case['law']
    if law == 'python-construct':
        bad = not same_modulo_error_class(outs[0], rr['pyeval'][0])
    elif law in ('double-negation',):
        bad = outs[1] != to_bool(outs[0])
    elif law in ('de-morgan-and', 'de-morgan-or', 'name-case'):
        bad = outs[0] != outs[1]
    elif law == 'chain-is-conjunction':
        bad = outs[0] != outs[1]
    elif 'expect' in case:
        bad = outs[0] != case['expect']
    elif law == 'swap-pure-operands':
        bad = is_ok(outs[0]) and is_ok(outs[1]) and (outs[2] != outs[3] or outs[4] != outs[5] or
                                                      outs[2] != B(truthy_j(outs[0]['val']) and truthy_j(outs[1]['val'])))
    elif law == 'short-circuit':
        t = is_ok(outs[0]) and truthy_j(outs[0]['val'])
        bad = is_ok(outs[0]) and not is_ok(outs[3]) and ((t and (outs[1] != B(True) or is_ok(outs[2]))) or
                                                          (not t and (outs[2] != B(False) or is_ok(outs[1]))))
    elif law == 'div-mod-zero':
        z0 = {'val': {'t': 'int', 'v': '0'}}
        bad = is_ok(outs[0]) and is_ok(outs[1]) and not truthy_j(outs[1]['val']) and (outs[2] != z0 or outs[3] != z0)
    else:
        bad = True
    if bad:
        print(f'VIOLATION property=C04 replay={path}')
        return 1
    return 0
