"""C13, consequence clause: "totals recomputed in the browser when filtering agree with the totals tally prints".
The REAL application code (whole spending_report.js) is run under node with a stand-in for Vue (harness/c13_app.js) on the
data the REAL report writer embeds for generated transactions, with and without active filters. Three comparisons:
  property   : browser totals of the visible transactions == command-line classification of those transactions
  tie        : browser figures == C13.Browser.browser_figures (vm_compute in coqc), cli figures == cli_figures
  header     : the numbers embedded for the header == analyze_transactions' totals
A disagreement of the first kind that is explained exactly by the merchant-level tag union (proved characterisation
c13_browser_is_cli_of_retagged) is the listed known finding; anything else is a violation."""
import itertools
import json
import os
import random
import re
import subprocess

from common import *

COQ_FILES_BROWSER = ['Lib/Str.v', 'Lib/NumOps.v', 'Gen/ClassificationPy.v', 'Gen/ClassificationJs.v', 'C06/Model.v', 'C06/Proofs.v',
                     'C13/Proofs.v', 'C13/Browser.v', 'C13/BrowserProofs.v', 'C13/BrowserProps.v']
HERE = os.path.dirname(os.path.abspath(__file__))
IMPL = os.path.join(HERE, 'impl_c13_app.py')
APP = os.path.join(HERE, 'c13_app.js')
SPECIAL = ['income', 'investment', 'transfer']
SIG = 'C13/browser-classifies-by-merchant-tags'
TICK = 64
MERCHANTS = ['Acme', 'Bolt', 'Cafe', 'Venmo', 'Job', 'Bank', 'Broker', '7-Eleven', '7 Eleven', 'Acme-Payroll', 'Acme Payroll', 'A.B', 'A,B', 'A/B', 'Café', 'CAFE']
CATS = [('Food', 'Out'), ('Food', 'Home'), ('Bills', 'Net'), ('Money', 'Moves')]
BK = ['income', 'investment', 'transfer_in', 'transfer_out', 'spending', 'credits']


def casing(rnd, w):
    return rnd.choice([w, w.upper(), w.title()])


def cls(tags):
    low = {t.lower() for t in (tags or [])}
    return 1 if 'income' in low else 2 if 'investment' in low else 3 if 'transfer' in low else 0


def gen_case(rnd, homogeneous):
    txns = []
    ms = rnd.sample(MERCHANTS, rnd.randint(1, 4))
    mtags = {}
    for m in ms:
        sp = [casing(rnd, w) for w in SPECIAL if rnd.random() < 0.25]
        mtags[m] = sp + [w for w in ['food', 'gas', 'weekly'] if rnd.random() < 0.3]
    mcat = {m: rnd.choice(CATS) for m in ms}
    for _ in range(rnd.randint(1, 9)):
        m = rnd.choice(ms)
        if homogeneous:
            tags = list(mtags[m])
            if rnd.random() < 0.3:
                tags = tags + [rnd.choice(['x', 'gift'])]  # ordinary extra tags do not change the class
        else:
            tags = [casing(rnd, w) for w in SPECIAL if rnd.random() < 0.25] + [w for w in ['food', 'gift'] if rnd.random() < 0.3]
        a = rnd.choice([64, -64, 0, rnd.randint(-50000, 50000), rnd.randint(-300, 300) * 64])
        txns.append({'a': a, 'tags': tags if rnd.random() < 0.95 else None, 'm': m, 'c': mcat[m][0], 's': mcat[m][1],
                     'd': f'2025-{rnd.randint(1, 4):02d}-{rnd.randint(1, 28):02d}'})
    if homogeneous:
        # a missing tag list is the empty list: keep the class equal to the merchant's
        for t in txns:
            if t['tags'] is None and cls(mtags[t['m']]) != 0:
                t['tags'] = list(mtags[t['m']])
    fl = [[]]
    months = sorted({t['d'][:7] for t in txns})
    fl.append([{'type': 'month', 'text': rnd.choice(months), 'mode': 'include'}])
    if len(months) > 1:
        fl.append([{'type': 'month', 'text': months[0] + '..' + months[1], 'mode': 'include'}])
        fl.append([{'type': 'month', 'text': months[-1], 'mode': 'exclude'}])
    alltags = sorted({x for t in txns for x in (t['tags'] or [])})
    if alltags:
        tg = rnd.choice(alltags)
        fl.append([{'type': 'tag', 'text': tg, 'mode': 'include'}])
        fl.append([{'type': 'tag', 'text': tg, 'mode': 'exclude'}])
    fl.append([{'type': 'category', 'text': rnd.choice(txns)['c'], 'mode': 'include'}])
    fl.append([{'type': 'merchant', 'text': rnd.choice(txns)['m'], 'mode': rnd.choice(['include', 'exclude'])}])
    return {'txns': txns, 'filters': fl, 'homogeneous': homogeneous}


def corpus():
    out = []
    # every class of merchant x every class of one odd transaction x sign (the smallest heterogeneous merchants), and the
    # homogeneous counterparts
    tagsets = [[], ['income'], ['investment'], ['transfer'], ['Income', 'transfer'], ['food']]
    for mt, ot in itertools.product(tagsets, tagsets):
        for a in (6400, -12800):
            txns = [{'a': 3200, 'tags': list(mt), 'm': 'Venmo', 'c': 'Money', 's': 'Moves', 'd': '2025-01-05'},
                    {'a': a, 'tags': list(ot), 'm': 'Venmo', 'c': 'Money', 's': 'Moves', 'd': '2025-02-05'},
                    {'a': 640, 'tags': ['food'], 'm': 'Cafe', 'c': 'Food', 's': 'Out', 'd': '2025-02-07'},
                    {'a': -64, 'tags': [], 'm': 'Cafe', 'c': 'Food', 's': 'Out', 'd': '2025-03-07'}]
            out.append({'txns': txns, 'homogeneous': cls(mt) == cls(ot) == cls(mt + ot),
                        'filters': [[], [{'type': 'month', 'text': '2025-02', 'mode': 'include'}],
                                    [{'type': 'merchant', 'text': 'venmo', 'mode': 'include'}],
                                    [{'type': 'tag', 'text': 'food', 'mode': 'exclude'}]]})
    # visible transactions of a merchant that cancel exactly under a filter while it has others outside it (a zero
    # filtered total is falsy in JS), for every class of merchant
    for tg in ([], ['income'], ['transfer'], ['investment']):
        txns = [{'a': 3200, 'tags': list(tg), 'm': 'Bookshop', 'c': 'Fun', 's': 'Books', 'd': '2025-01-05'},
                {'a': -3200, 'tags': list(tg), 'm': 'Bookshop', 'c': 'Fun', 's': 'Books', 'd': '2025-01-20'},
                {'a': 1920, 'tags': list(tg), 'm': 'Bookshop', 'c': 'Fun', 's': 'Books', 'd': '2025-02-03'},
                {'a': 800, 'tags': [], 'm': 'Cafe', 'c': 'Food', 's': 'Out', 'd': '2025-01-07'},
                {'a': 0, 'tags': [], 'm': 'Zero', 'c': 'Food', 's': 'Out', 'd': '2025-01-08'},
                {'a': 640, 'tags': [], 'm': 'Zero', 'c': 'Food', 's': 'Out', 'd': '2025-02-08'}]
        out.append({'txns': txns, 'homogeneous': True,
                    'filters': [[], [{'type': 'month', 'text': '2025-01', 'mode': 'include'}],
                                [{'type': 'month', 'text': '2025-02', 'mode': 'exclude'}],
                                [{'type': 'merchant', 'text': 'bookshop', 'mode': 'include'}, {'type': 'month', 'text': '2025-01', 'mode': 'include'}]]})
    # merchants whose names differ only in punctuation / case / accents are different merchants, all embedded
    names = ['7-Eleven', '7 Eleven', 'Acme-Payroll', 'Acme Payroll', 'A.B', 'A,B', 'A/B', 'A+B', 'A&B', 'A(B)', 'A:B', 'Café', 'Cafe', 'CAFE']
    txns = [{'a': 640 * (i + 1), 'tags': ['income'] if 'Payroll' in n else [], 'm': n, 'c': 'Food', 's': 'Out', 'd': f'2025-0{1 + i % 3}-11'}
            for i, n in enumerate(names)]
    txns += [{'a': -64 * (i + 1), 'tags': ['income'] if 'Payroll' in n else [], 'm': n, 'c': 'Food', 's': 'Out', 'd': f'2025-0{1 + (i + 1) % 3}-12'}
             for i, n in enumerate(names)]
    out.append({'txns': txns, 'homogeneous': True,
                'filters': [[], [{'type': 'month', 'text': '2025-01', 'mode': 'include'}], [{'type': 'category', 'text': 'food', 'mode': 'include'}]]})
    # merchants with many tags whose special tag sorts last / first (a cap or a re-ordering of the merchant's tag list)
    for sp in ('transfer', 'investment', 'income', 'Transfer', 'INCOME'):
        for n in (5, 6, 7, 12, 40):
            tg = [f'a{i:02d}' for i in range(n)] + [sp] + (['zz'] if n % 2 else [])
            txns = [{'a': 6400, 'tags': list(tg), 'm': 'Tagged', 'c': 'Money', 's': 'Moves', 'd': '2025-01-05'},
                    {'a': -3200, 'tags': list(tg), 'm': 'Tagged', 'c': 'Money', 's': 'Moves', 'd': '2025-02-05'},
                    {'a': 640, 'tags': ['food'], 'm': 'Cafe', 'c': 'Food', 's': 'Out', 'd': '2025-02-07'}]
            out.append({'txns': txns, 'homogeneous': True,
                        'filters': [[], [{'type': 'month', 'text': '2025-02', 'mode': 'include'}], [{'type': 'tag', 'text': sp, 'mode': 'exclude'}]]})
    # the same filter flipped between include and exclude inside one session, and filter sets that differ only in mode
    txns = [{'a': 640 * (i + 1), 'tags': ['food'] if i % 2 else ['gas'], 'm': m, 'c': c, 's': 'S', 'd': f'2025-0{1 + i % 3}-1{i}'}
            for i, (m, c) in enumerate([('Acme', 'Food'), ('Bolt', 'Bills'), ('Cafe', 'Food'), ('Acme', 'Food'), ('Bolt', 'Bills'), ('Job', 'Money')])]
    txns[5]['tags'] = ['income']
    flips = []
    for f in ({'type': 'month', 'text': '2025-01'}, {'type': 'tag', 'text': 'food'}, {'type': 'category', 'text': 'food'},
              {'type': 'merchant', 'text': 'Acme'}, {'type': 'month', 'text': '2025-01..2025-02'}):
        flips += [[dict(f, mode='include')], [dict(f, mode='exclude')], [dict(f, mode='include')]]
    flips += [[{'type': 'month', 'text': '2025-01', 'mode': 'include'}, {'type': 'tag', 'text': 'food', 'mode': 'exclude'}],
              [{'type': 'month', 'text': '2025-01', 'mode': 'exclude'}, {'type': 'tag', 'text': 'food', 'mode': 'include'}],
              [{'type': 'month', 'text': '2025-01', 'mode': 'include'}, {'type': 'month', 'text': '2025-03', 'mode': 'include'}], []]
    out.append({'txns': txns, 'homogeneous': True, 'filters': flips})
    # free-text filters over descriptions and extra fields (string- and list-valued), with quotes / backslashes / separators
    txns = [{'a': 21119, 'tags': [], 'm': 'Shop', 'c': 'Shopping', 's': 'Tech', 'd': '2025-01-05', 'desc': 'ONLINE ORDER 1',
             'extra': {'items': ['Dell 27" Monitor', 'HDMI Cable'], 'note': 'gift "wrapped"'}},
            {'a': 6400, 'tags': [], 'm': 'Shop', 'c': 'Shopping', 's': 'Tech', 'd': '2025-01-09', 'desc': 'ONLINE ORDER 2',
             'extra': {'items': ['USB\\C hub', 'a,b'], 'note': 'plain'}},
            {'a': 3200, 'tags': [], 'm': 'Cafe', 'c': 'Food', 's': 'Out', 'd': '2025-02-07', 'desc': 'CAFE 27" SCREEN BAR'},
            {'a': -640, 'tags': [], 'm': 'Cafe', 'c': 'Food', 's': 'Out', 'd': '2025-02-08', 'desc': 'CAFE REFUND', 'extra': {'n': 27, 'ok': True}}]
    tf = []
    for x in ['27" monitor', '27"', 'hdmi', '","', 'gift "w', 'usb\\c', 'a,b', '[', '27', 'true', 'order', 'nomatch', '"']:
        tf += [[{'type': 'text', 'text': x, 'mode': 'include'}], [{'type': 'text', 'text': x, 'mode': 'exclude'}]]
    tf.append([{'type': 'text', 'text': '27"', 'mode': 'exclude'}, {'type': 'category', 'text': 'shopping', 'mode': 'include'}])
    out.append({'txns': txns, 'homogeneous': True, 'filters': [[]] + tf})
    # consecutive calls on special tags in one session, repeated tags, all six buckets at once
    txns = [{'a': -(i + 1) * 640, 'tags': [w], 'm': m, 'c': 'Money', 's': 'Moves', 'd': f'2025-0{1 + i % 3}-1{i}'}
            for i, (w, m) in enumerate([('income', 'Job'), ('income', 'Job'), ('transfer', 'Bank'), ('Transfer', 'Bank'),
                                        ('investment', 'Broker'), ('INVESTMENT', 'Broker')])]
    txns += [{'a': 6400, 'tags': ['transfer'], 'm': 'Bank', 'c': 'Money', 's': 'Moves', 'd': '2025-03-03'},
             {'a': 1280, 'tags': [], 'm': 'Acme', 'c': 'Food', 's': 'Home', 'd': '2025-03-04'},
             {'a': -128, 'tags': [], 'm': 'Acme', 'c': 'Food', 's': 'Home', 'd': '2025-03-05'}]
    out.append({'txns': txns, 'homogeneous': True,
                'filters': [[], [{'type': 'month', 'text': '2025-01..2025-02', 'mode': 'include'}],
                            [{'type': 'tag', 'text': 'income', 'mode': 'include'}], [{'type': 'tag', 'text': 'income', 'mode': 'exclude'}],
                            [{'type': 'category', 'text': 'money', 'mode': 'include'}, {'type': 'month', 'text': '2025-03', 'mode': 'include'}]]})
    return out


def hetero_merchants(txns):
    by = {}
    for t in txns:
        by.setdefault(t['m'], []).append(t)
    return sorted(m for m, ts in by.items() if any(cls(t['tags']) != cls([x for u in ts for x in (u['tags'] or [])]) for t in ts))


def ids_of(txns, data):
    """The embedded id of every generated transaction, read off the embedded data itself (merchant display name -> ids of its
    transactions in input order), so that the check does not depend on how ids are formed. A transaction the data does not
    contain gets None (and then can never be visible)."""
    emb = {}
    for cat in (data.get('categoryView') or {}).values():
        for sub in (cat.get('subcategories') or {}).values():
            for m in (sub.get('merchants') or {}).values():
                emb.setdefault(m.get('displayName'), [x.get('id') for x in m.get('transactions') or []])
    seen = {}
    out = []
    for t in txns:
        k = seen.get(t['m'], 0)
        seen[t['m']] = k + 1
        l = emb.get(t['m'], [])
        out.append(l[k] if k < len(l) else None)
    return out


def ticks(x):
    v = x * TICK
    if v != v or not float(v).is_integer():
        return None
    return int(v)


def run_app(js_path, items):
    p = subprocess.run(['node', APP], input=json.dumps({'js': js_path, 'cases': items}), capture_output=True, text=True, timeout=1800)
    if p.returncode != 0 or not p.stdout.strip():
        raise RuntimeError('node: ' + (p.stderr or p.stdout)[-600:])
    return json.loads(p.stdout)['results']


def predicted_merchant_level(txns, vis):
    """What the proved characterisation says the browser shows: every visible transaction classified by its merchant's tag
    union, on its effective amount."""
    union = {}
    for t in txns:
        union.setdefault(t['m'], []).extend(t['tags'] or [])
    tot = {k: 0 for k in BK}
    for t, v in zip(txns, vis):
        if not v:
            continue
        c = cls(union[t['m']])
        own = cls(t['tags'])
        e = abs(t['a']) if own in (1, 2) else t['a']
        k = 'income' if c == 1 else 'investment' if c == 2 else ('transfer_in' if e > 0 else 'transfer_out') if c == 3 else \
            ('spending' if e > 0 else 'credits')
        tot[k] += abs(e)
    return tot


def evaluate(cases, js_path, workdir):
    """Runs both sides. Returns per case a list of per-filter records with everything in ticks."""
    py = run_impl(IMPL, {'cases': cases, 'workdir': workdir}, timeout=1800)['results']
    items = [{'data': r['data'], 'filters': c['filters']} for c, r in zip(cases, py) if 'error' not in r]
    # the same filter sets, each in an application instance of its own (for the cases that ask for it)
    fresh_items, fresh_where = [], []
    for ci, (c, r) in enumerate(zip(cases, py)):
        if 'error' not in r and c.get('fresh'):
            for fi, f in enumerate(c['filters']):
                fresh_items.append({'data': r['data'], 'filters': [f]})
                fresh_where.append((ci, fi))
    allres = run_app(js_path, items + fresh_items)
    fresh = {}
    for (ci, fi), fr in zip(fresh_where, allres[len(items):]):
        if isinstance(fr, list):
            fresh[(ci, fi)] = set(fr[0]['visible'])
    js = iter(allres[:len(items)])
    out = []
    for ci, (c, r) in enumerate(zip(cases, py)):
        if 'error' in r:
            out.append({'error': 'python: ' + r['error']})
            continue
        j = next(js)
        if isinstance(j, dict) and 'error' in j:
            out.append({'error': 'js: ' + j['error']})
            continue
        ids = ids_of(c['txns'], r['data'])
        recs = []
        for fi, (f, jr) in enumerate(zip(c['filters'], j)):
            vis_ids = set(jr['visible'])
            vis = [i in vis_ids for i in ids]
            cli = {k: 0 for k in BK}
            inexact = False
            for v, p in zip(vis, r['per_txn']):
                if v:
                    for k in BK:
                        tk = ticks(p['buckets'][k])
                        inexact |= tk is None
                        cli[k] += tk or 0
            fv = jr['filteredViewTotals']
            br = {'income': ticks(fv['income']), 'investment': ticks(fv['investment']), 'spending': ticks(fv['spending']),
                  'credits': ticks(fv['credits']), 'transfers': ticks(fv['transfers']), 'net': ticks(fv['net']), 'count': fv['count'],
                  'grand': ticks(jr['grandTotal'])}
            extra = {'fresh_visible': [i in fresh[(ci, fi)] for i in ids]} if (ci, fi) in fresh else {}
            recs.append({**extra, 'filter': f, 'visible': vis, 'unknown_ids': sorted(vis_ids - {i for i in ids if i}), 'not_embedded': sum(1 for i in ids if i is None), 'cli': cli, 'browser': br,
                         'inexact': inexact or any(v is None for v in br.values()),
                         'header': {k: ticks(v) for k, v in jr['header'].items()},
                         'cli_totals': {k: (ticks(v) if k != 'count' else v) for k, v in r['cli'].items()}})
        out.append({'recs': recs})
    return out


def expected_visible(case, flt):
    """Which transactions a filter set shows, from the report's documented filter semantics (an exclude filter that matches
    hides; include filters: OR within one type, AND across types), computed independently of the application."""
    def hit(t, f):
        x = f['text'].lower()
        if f['type'] == 'month':
            m = t['d'][:7]
            if '..' in f['text']:
                a, b = f['text'].split('..')
                return a <= m <= b
            return m == f['text']
        if f['type'] == 'tag':
            return any(g.lower() == x for g in (t['tags'] or []))
        if f['type'] == 'category':
            return t['c'].lower() == x
        if f['type'] == 'merchant':
            return t['m'].lower() == x
        if f['type'] == 'text':
            if x in (t.get('desc') or t['m'].upper()).lower():
                return True
            for v in (t.get('extra') or {}).values():
                items = v if isinstance(v, list) else [v]
                if any(x in str(i).lower() for i in items):
                    return True
            return False
        return None
    out = []
    for t in case['txns']:
        if any(hit(t, f) for f in flt if f['mode'] == 'exclude'):
            out.append(False)
            continue
        by = {}
        for f in flt:
            if f['mode'] == 'include':
                by.setdefault(f['type'], []).append(f)
        out.append(all(any(hit(t, f) for f in fs) for fs in by.values()))
    return out


def judge(case, rec):
    """-> list of (law, known_finding?) failing for this case and filter."""
    bad = []
    b, c = rec['browser'], rec['cli']
    if rec['inexact']:
        return [('inexact-figure', False)]
    if rec['unknown_ids']:
        bad.append(('browser-shows-transactions-that-were-not-analysed', False))
    nvis = sum(rec['visible'])
    if b['count'] != nvis:
        bad.append(('count', False))
    if 'fresh_visible' in rec and rec['fresh_visible'] != rec['visible']:
        bad.append(('totals-depend-on-the-filters-applied-before', False))
    if not rec.get('not_embedded') and rec['visible'] != expected_visible(case, rec['filter']):
        bad.append(('filter-shows-other-transactions-than-it-names', False))
    if rec.get('not_embedded'):
        bad.append(('analysed-transactions-missing-from-the-embedded-data', False))
    if not rec['filter'] and nvis != len(case['txns']):
        bad.append(('unfiltered-view-hides-transactions', False))
    exp = {'income': c['income'], 'investment': c['investment'], 'spending': c['spending'], 'credits': c['credits'],
           'transfers': c['transfer_in'] - c['transfer_out']}
    exp['net'] = exp['income'] - exp['spending'] + exp['credits'] if exp['income'] > 0 else exp['spending'] - exp['credits']
    diff = [k for k in exp if b[k] != exp[k]]
    het = hetero_merchants(case['txns'])
    if not het and b['grand'] != exp['spending'] - exp['credits']:
        diff.append('grand')
    if diff:
        known = False
        if het:
            p = predicted_merchant_level(case['txns'], rec['visible'])
            pe = {'income': p['income'], 'investment': p['investment'], 'spending': p['spending'], 'credits': p['credits'],
                  'transfers': p['transfer_in'] - p['transfer_out']}
            pe['net'] = pe['income'] - pe['spending'] + pe['credits'] if pe['income'] > 0 else pe['spending'] - pe['credits']
            known = all(b[k] == pe[k] for k in pe)
        bad.append(('browser-totals-differ-from-command-line:' + ','.join(diff), known))
    if not rec['filter']:
        h, t = rec['header'], rec['cli_totals']
        pairs = [('income', 'income_total'), ('spending', 'spending_total'), ('credits', 'credits_total'), ('cashFlow', 'cash_flow'),
                 ('transfersIn', 'transfers_in'), ('transfersOut', 'transfers_out'), ('transfersNet', 'transfers_net'),
                 ('investment', 'investment_total')]
        if any(h[a] != t[bk] for a, bk in pairs):
            bad.append(('header-differs-from-command-line', False))
        names = {'income': 'income_total', 'investment': 'investment_total', 'spending': 'spending_total', 'credits': 'credits_total',
                 'transfer_in': 'transfers_in', 'transfer_out': 'transfers_out'}
        if nvis == len(case['txns']) and any(t[names[k]] != c[k] for k in BK):
            bad.append(('analysis-totals-not-sum-of-classified-transactions', False))
    return bad


HEADER = '''From Coq Require Import String List Bool ZArith.
From Tally Require Import Lib.Str Lib.NumOps C06.Model C13.Browser.
Import ListNotations.
Open Scope Z_scope.
Definition sbytes (l : list N) : string := fold_right (fun n s => String (Ascii.ascii_of_N n) s) EmptyString l.
Definition T a tg m := {| amount := a; tags := tg; merchant := m; category := ""; subcategory := ""; month := "" |}.
Fixpoint list_eqb (a b : list Z) : bool :=
  match a, b with [], [] => true | x :: r, y :: s => (Z.eqb x y && list_eqb r s)%bool | _, _ => false end.
Definition ok (c : list mtxns * list Z * list Z) : bool :=
  let '(ms, bf, cf) := c in (list_eqb (browser_figures ms) bf && list_eqb (cli_figures ms) cf)%bool.
Fixpoint failing (i : nat) (l : list (list mtxns * list Z * list Z)) : list nat :=
  match l with [] => [] | c :: r => if ok c then failing (S i) r else i :: failing (S i) r end.
'''


def z(n):
    return f'({n})' if n < 0 else str(n)


def coq_row(case, rec):
    by = {}
    for t, v in zip(case['txns'], rec['visible']):
        tg = 'None' if t['tags'] is None else 'Some [' + '; '.join(coq_str(x) for x in t['tags']) + ']'
        by.setdefault(t['m'], []).append(f"({'true' if v else 'false'}, T {z(t['a'])} ({tg}) {coq_str(t['m'])})")
    ms = '[' + '; '.join('[' + '; '.join(v) + ']' for v in by.values()) + ']'
    b, c = rec['browser'], rec['cli']
    # the model keeps transferIn and transferOut apart; the card only shows their difference -> compare what is observable
    return ms, b, c


HEADER2 = HEADER.replace('(list_eqb (browser_figures ms) bf && list_eqb (cli_figures ms) cf)%bool',
                         '''(list_eqb (let f := browser_figures ms in
                 [nth 0 f 0; nth 1 f 0; nth 2 f 0 - nth 3 f 0; nth 4 f 0; nth 5 f 0; nth 6 f 0; nth 7 f 0; nth 8 f 0]) bf
      && list_eqb (cli_figures ms) cf)%bool''')


def model_check(cases, results, name='C13browser'):
    rows, idx = [], []
    for i, (c, r) in enumerate(zip(cases, results)):
        if 'error' in r:
            continue
        for j, rec in enumerate(r['recs']):
            if rec['inexact'] or rec['unknown_ids']:
                continue
            ms, b, cl = coq_row(c, rec)
            bf = [b['income'], b['investment'], b['transfers'], b['spending'], b['credits'], b['count'], b['net'], b['grand']]
            net = cl['income'] - cl['spending'] + cl['credits'] if cl['income'] > 0 else cl['spending'] - cl['credits']
            cf = [cl[k] for k in BK] + [sum(rec['visible']), net]
            rows.append(f"({ms}, [{'; '.join(z(x) for x in bf)}], [{'; '.join(z(x) for x in cf)}])")
            idx.append((i, j))
    bad = []
    CH = 500
    for off in range(0, len(rows), CH):
        body = 'Definition cases := [\n' + ';\n'.join(rows[off:off + CH]) + '\n].\nEval vm_compute in failing 0 cases.\n'
        rc, out, err = run_cases(f'{name}_{off // CH}', HEADER2, body)
        m = re.search(r'=\s*\[(.*?)\]\s*:\s*list nat', out, re.S)
        if rc != 0 or not m:
            return None, idx, (out + err)[-800:]
        bad += [idx[off + int(x)] for x in m.group(1).replace('%nat', '').replace('\n', ' ').split(';') if x.strip()]
    return bad, idx, ''


def shrink(case, fails):
    txns = list(case['txns'])
    fl = case['filters']
    changed = True
    while changed and len(txns) > 1:
        changed = False
        for i in range(len(txns)):
            cand = dict(case, txns=txns[:i] + txns[i + 1:], filters=fl)
            if fails(cand):
                txns, changed = cand['txns'], True
                break
    for f in fl:
        if fails(dict(case, txns=txns, filters=[f])):
            fl = [f]
            break
    return dict(case, txns=txns, filters=fl)


def check(run, tier, js_path):
    """Runs the browser-totals part; records violations / known findings on `run`; returns coverage and broken-tie list."""
    res = run.proof_step(COQ_FILES_BROWSER, extra_trusted=[
        'harness/c13_app.js (stand-in for the Vue runtime and browser globals; the application file itself runs unmodified)',
        'harness/c13_browser.py + impl_c13_app.py (drivers, oracle)'])
    broken = []
    if not res['ok']:
        broken.append({'kind': 'broken-obligation', 'detail': first_error(res['log'])})
    if res['hygiene']:
        broken.append({'kind': 'hygiene', 'detail': res['hygiene']})
    rnd = random.Random(run.seed + 77)
    n = 120 if tier == 'quick' else 3000
    cases = [dict(c, fresh=True) for c in corpus()] + [gen_case(rnd, i % 3 != 0) for i in range(n)]
    wd = os.path.join(WORK, 'C13app')
    os.makedirs(wd, exist_ok=True)
    try:
        results = evaluate(cases, js_path, wd)
    except Exception as e:  # the application no longer runs under the stand-in: the tie is gone
        broken.append({'kind': 'broken-correspondence', 'obligation': 'app_vs_model(spending_report.js under node)',
                       'detail': str(e)[-600:]})
        return {'app_cases': 0}, broken, False
    fresh, known = [], []
    for c, r in zip(cases, results):
        if 'error' in r:
            fresh.append((c, None, [('raises: ' + r['error'][:300], False)]))
            continue
        for rec in r['recs']:
            laws = judge(c, rec)
            if not laws:
                continue
            (known if all(k for _, k in laws) else fresh).append((c, rec, laws))
    def still(kind_known):
        def f(cand):
            try:
                rr = evaluate([cand], js_path, wd)[0]
            except Exception:
                return False
            if 'error' in rr:
                return not kind_known
            for rec in rr['recs']:
                l = judge(cand, rec)
                if l and all(k for _, k in l) == kind_known:
                    return True
            return False
        return f
    if fresh:
        c, rec, laws = min(fresh, key=lambda x: len(x[0]['txns']))
        small = shrink(c, still(False))
        rr = evaluate([small], js_path, wd)[0]
        run.violation('browser', {'kind': 'counterexample', 'part': 'browser-totals', 'case': small,
                                  'laws_failing': [l for l, _ in laws], 'observed': rr,
                                  'expected': 'totals the browser recomputes for the visible transactions == command-line '
                                              'classification of those transactions; header == analysis totals',
                                  'obligation': 'c13_browser_totals_partial / app-vs-command-line', 'n_failing': len(fresh)})
    if known:
        c, rec, laws = min(known, key=lambda x: len(x[0]['txns']))
        small = shrink(c, still(True))
        run.violation('browser-known', {'kind': 'counterexample', 'part': 'browser-totals', 'case': small,
                                        'laws_failing': [l for l, _ in laws]}, signature=SIG)
    model_idx = []
    if res['ok']:
        bad, model_idx, err = model_check(cases, results)
        if bad is None:
            broken.append({'kind': 'broken-correspondence', 'obligation': 'app_vs_model(C13.Browser.browser_figures, filteredViewTotals/grandTotal)',
                           'detail': 'cases.v did not evaluate: ' + err})
        elif bad:
            i, j = bad[0]
            broken.append({'kind': 'broken-correspondence', 'obligation': 'app_vs_model(C13.Browser.browser_figures, filteredViewTotals/grandTotal)',
                           'detail': {'case': cases[i]['txns'], 'filter': cases[i]['filters'][j], 'observed': results[i]['recs'][j], 'n': len(bad)}})
    nhet = sum(1 for c in cases if hetero_merchants(c['txns']))
    cov = {'app_cases': len(cases), 'app_filter_evaluations': sum(len(c['filters']) for c in cases),
           'app_cases_with_heterogeneous_merchants': nhet, 'app_vs_model_rows_in_coq': len(model_idx),
           'known_finding_instances': len(known)}
    return cov, broken, bool(fresh)


def replay_case(case, js_path):
    wd = os.path.join(WORK, 'C13app')
    os.makedirs(wd, exist_ok=True)
    rr = evaluate([case], js_path, wd)[0]
    if 'error' in rr:
        return [('raises', False)], rr
    laws = []
    for rec in rr['recs']:
        laws += judge(case, rec)
    return laws, rr
