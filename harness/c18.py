"""C18 — a format string maps columns by position, and inspect's suggestion round-trips.
Proof: C18/Props.v over the hand model C18/Model.v and the constants regenerated from /repo
(Gen/C18Keywords.v, tools/c18_tables.py).  Tie: parse_format_string and `tally inspect`'s printed
detection + suggestion are compared with the model inside Coq (vm_compute); CPython's
string.Formatter().parse, which the template validation calls, is a parameter of the model and its
answers are supplied per case (two-phase).  Search: the property restated over implementation outputs
only (direct oracle)."""
import itertools
import json
import os
import random
import re
import string as _string_mod
from concurrent.futures import ThreadPoolExecutor
from _string import formatter_field_name_split

from common import *
import c18_tables

COQ_FILES = ['Lib/Str.v', 'Gen/C18Keywords.v', 'C18/Model.v', 'C18/Spec.v', 'C18/Proofs.v', 'C18/Props.v']
IMPL = os.path.join(os.path.dirname(os.path.abspath(__file__)), 'impl_c18.py')
WORKDIR = os.path.join(WORK, 'c18')
KNOWN_NONPLAIN = 'C18/template-nonplain-reference-unchecked'
KNOWN_FIXED_WIDTH = 'C18/csv-with-two-blank-dates-reported-fixed-width'
DATE2 = re.compile(r'^\d{2}/\d{2}/\d{4}\s{2,}')

BLANKS = ['', '', '', ' ', ' ', '  ', '\t', ' \t ', '\n', '\r', '\x0b', '\x0c', '\x1c', '\x1d\x1e', '\x1f ']
DATE_FORMATS = ['%m/%d/%Y', '%Y-%m-%d', '%d.%m.%y', '%d %b %Y', '%b %d %Y %H:%M', '%Y%m%d', '%d/%m/%Y %H:%M:%S',
                'x', ' %Y ', '%%', '%j', '%Y年%m月%d日', '%d-%b-%y', ':%Y:', '{%Y', '%A %d. %B %Y', '-%m', '+%d']
JUNK_SPECS = ['x', '%Y', '>5', ' a b ', '0', ':']
CUSTOM_NAMES = ['merchant', 'type', 'a', 'b2', 'x_y', '_x', '__', 'payee', 'memo1', 'n0', '0', '9z', 'datex',
                'amounts', 'fields', 'desc', 'descriptions', 'locations', 'date_', '_amount']
RESERVED_KINDS = {'date': 'date', 'desc': 'description', 'amount': 'amount', 'loc': 'location', 'field': 'field'}
PLAIN_SP = {'lead': '', 'trail': '', 'mask': [], 'star': False, 'jsign': '', 'jspec': None}


# --------------------------------------------------------------------------- rendering (python side)
def base_name(col):
    k = col['k']
    if k == 'custom':
        return col['name']
    if k == 'skip':
        return '*' if col['sp']['star'] else '_'
    return RESERVED_KINDS[k]


def render_tok(col):
    sp = col['sp']
    name = base_name(col)
    name = ''.join(ch.upper() if i < len(sp['mask']) and sp['mask'][i] else ch for i, ch in enumerate(name))
    sign = col.get('sg', '') if col['k'] == 'amount' else sp['jsign']
    spec = col.get('fmt') if col['k'] == 'date' else sp['jspec']
    return sp['lead'] + '{' + sign + name + ('' if spec is None else ':' + spec) + '}' + sp['trail']


def render(cols):
    return ','.join(render_tok(c) for c in cols)


def rand_spelling(rnd, k, plainish=False):
    if plainish:
        return dict(PLAIN_SP, lead=rnd.choice(['', ' ']))
    n = 12
    return {'lead': rnd.choice(BLANKS), 'trail': rnd.choice(BLANKS),
            'mask': [rnd.random() < 0.3 for _ in range(n)] if rnd.random() < 0.5 else [],
            'star': rnd.random() < 0.5,
            'jsign': rnd.choice(['', '', '', '', '', '-', '+']) if k != 'amount' else '',
            'jspec': (rnd.choice(JUNK_SPECS) if rnd.random() < 0.12 else None) if k != 'date' else None}


def mk_col(rnd, k, name=None, plainish=False):
    c = {'k': k, 'sp': rand_spelling(rnd, k, plainish)}
    if k == 'custom':
        c['name'] = name or rnd.choice(CUSTOM_NAMES)
    if k == 'date':
        c['fmt'] = rnd.choice(DATE_FORMATS) if rnd.random() < 0.7 else None
    if k == 'amount':
        c['sg'] = rnd.choice(['', '', '-', '+'])
    return c


# --------------------------------------------------------------------------- templates
def formatter_names(t):
    """Names str.format would look up as keywords (argument name of every replacement field, also of fields nested
    in format specs); None if t is not a valid format string. Positional / auto-numbered fields ('', digits) are
    returned too, marked by the caller."""
    try:
        out = []
        for _lit, field, spec, _conv in _string_mod.Formatter().parse(t):
            if field is None:
                continue
            out.append(str(formatter_field_name_split(field)[0]))
            if spec:
                sub = formatter_names(spec)
                if sub is None:
                    return None
                out += sub
        return out
    except ValueError:
        return None


def keyword_names(t):
    tn = formatter_names(t)
    return None if tn is None else [n for n in tn if n != '' and not n.isdigit()]


def referenced_names(t, usable):
    """Everything the template refers to: keyword names, plus anonymous fields ({} {!r} {:>8} -> '') and explicit
    positions ({0} -> '0'). A description template is filled with captured columns by keyword only, so an anonymous
    field or a position can never be a captured column -- except that a capture literally named '0' makes '{0}'
    ambiguous; that single case is left without a claim by the caller."""
    return formatter_names(t)


PLAIN_TEMPLATE = re.compile(r'(?:[^{}]|\{\w+\})*\Z')


def rand_template(rnd, usable, all_names, good=None):
    """good=True: literal text + plain {name} over usable names (non-empty). Otherwise a mix that may contain
    uncaptured names, references with format specs / conversions / attributes / indexes, escapes."""
    lits = ['', ' ', ' - ', ' (', ')', 'x', '/', ': ', '日']
    if good is None:
        good = rnd.random() < 0.55
    pieces = []
    for _ in range(rnd.randint(1, 4)):
        pieces.append(rnd.choice(lits))
        pool = usable if (good or rnd.random() < 0.6) else None
        if pool:
            n = rnd.choice(pool)
        elif good:
            pieces.append('t')
            continue
        else:
            n = rnd.choice(['nope', 'typo', 'description', 'date', 'amount', 'Merchant', 'x'] + list(all_names or ['zz']))
        if good:
            pieces.append('{' + n + '}')
        else:
            form = rnd.choice(['{%s}', '{%s}', '{%s:>10}', '{%s!r}', '{%s.real}', '{%s[0]}', '{{%s}}', '{%s:}', '{ %s}',
                               '{%s }', '{%s!s:^5}', '{merchant:{%s}}', '{%s:{w}}', '{%s:>{type}}', '{%s!x}', '{%s!rr}'])
            pieces.append(form % n)
            if rnd.random() < 0.15:
                pieces.append(rnd.choice(['{}', '{0}', '{{', '}}', '{', '}', '{!r}', '{:>8}', '{merchant:>{}}', '{1}', '{:{}}']))
    t = ''.join(pieces)
    if good and not t:
        t = 't'
    return t


# --------------------------------------------------------------------------- the property, restated
def expectation(cols, tmpl):
    """What C18 says about this arrangement + template, independently of model and code:
    ('reject', reason) | ('accept', expected positions) | (None, why-no-claim)."""
    kinds = [c['k'] for c in cols]
    names = [c['name'] for c in cols if c['k'] == 'custom']
    if kinds.count('field') > 1:
        return None, 'reserved-field-twice'
    for k in ('date', 'desc', 'amount', 'loc'):
        if kinds.count(k) > 1:
            return 'reject', 'duplicate'
    if len(set(names)) < len(names):
        return 'reject', 'duplicate'
    if 'date' not in kinds or 'amount' not in kinds or ('desc' not in kinds and not names):
        return 'reject', 'missing'
    usable = [] if 'desc' in kinds else names
    if tmpl:
        tn = referenced_names(tmpl, usable)
        if tn is not None and any(n not in usable for n in tn):
            return 'reject', 'uncaptured'
    for c in cols:
        if c['k'] == 'date' and c.get('fmt') is not None and (c['fmt'] == '' or ',' in c['fmt'] or '}' in c['fmt']):
            return None, 'date-format-outside-syntax'
        if c['sp']['jspec'] is not None and (c['sp']['jspec'] == '' or ',' in c['sp']['jspec'] or '}' in c['sp']['jspec']):
            return None, 'spec-outside-syntax'
    if tmpl:
        allnames = formatter_names(tmpl)
        if allnames is None:
            return None, 'template-not-a-format-string'
        if any(n == '' or n.isdigit() for n in allnames):
            return None, 'template-with-positional-field'
        # (every keyword name is usable here, otherwise 'uncaptured' above)
    elif 'desc' not in kinds:
        return None, 'custom-captures-without-template'
    exp = {'date': kinds.index('date'), 'amount': kinds.index('amount'),
           'desc': kinds.index('desc') if 'desc' in kinds else None,
           'loc': kinds.index('loc') if 'loc' in kinds else None,
           'pairs': sorted([c['name'], i] for i, c in enumerate(cols) if c['k'] == 'custom'),
           'mode1': 'desc' in kinds}
    d = cols[exp['date']]
    exp['fmt'] = d.get('fmt')
    a = cols[exp['amount']]
    exp['neg'], exp['abs'] = a.get('sg') == '-', a.get('sg') == '+'
    return 'accept', exp


def oracle_parse(case, r):
    """Returns (tag, detail, signature) if the implementation's answer contradicts C18 on this case, else None."""
    if not r['ok'] and r['error'] != 'ValueError':
        return 'raises-other-than-ValueError', r, None
    if case.get('mut'):
        if case['mut']['must_reject'] and r['ok']:
            return 'accepts-malformed', {'token': case['mut'].get('token')}, None
        return None
    what, exp = expectation(case['cols'], case['tmpl'])
    if what == 'reject' and r['ok']:
        sig = None
        if exp == 'uncaptured':
            kinds = [c['k'] for c in case['cols']]
            usable = [] if 'desc' in kinds else [c['name'] for c in case['cols'] if c['k'] == 'custom']
            bad = [n for n in (keyword_names(case['tmpl']) or []) if n not in usable]
            anon = [n for n in (formatter_names(case['tmpl']) or []) if (n == '' or n.isdigit()) and n not in usable]
            plain = set(re.findall(r'\{(\w+)\}', case['tmpl']))
            if bad and not anon and not any(n in plain for n in bad):
                sig = KNOWN_NONPLAIN     # every uncaptured name occurs only as {name:spec} / {name!c} / {name.a} / {name[i]} / { name }
        return 'accepts-' + exp, {'reason': exp}, sig
    if what == 'accept':
        if not r['ok']:
            return 'rejects-valid-arrangement', {'expected': exp}, None
        got_pairs = sorted(r['custom'] + r['extra'])
        diffs = [k for k in ('date', 'amount', 'desc', 'loc', 'neg', 'abs') if r[k] != exp[k]]
        if exp['fmt'] is not None and r['fmt'] != exp['fmt']:
            diffs.append('fmt')
        if got_pairs != exp['pairs']:
            diffs.append('custom')
        if (exp['mode1'] and r['custom']) or (not exp['mode1'] and r['extra']):
            diffs.append('mode')
        if r['tmpl'] != case['tmpl']:
            diffs.append('template')
        if diffs:
            return 'column-index-differs-from-position', {'fields': diffs, 'expected': exp}, None
    return None


def oracle_inspect(case, r):
    """The generated file is a CSV file by construction (csv.writer). `direct` is what the public auto-detection
    entry point returns for that very file."""
    if r.get('crash') and r.get('detected'):
        return 'inspect-crashes-after-detection', {'crash': r['crash']}, None
    det = r.get('detected')
    direct = r.get('direct')
    # known finding: the file is reported as fixed_width AND >= 3 of its first 20 lines start with MM/DD/YYYY + two blanks
    # (the heuristic's documented trigger; a single blank, fewer lines or another pattern is a different violation)
    sig = None
    if r.get('file_type') == 'fixed_width' and sum(1 for l in (r.get('sample_lines') or [])[:20] if DATE2.match(l)) >= 3:
        sig = KNOWN_FIXED_WIDTH
    # a format string printed outside the auto-detection block is a suggestion for this CSV file too
    for of in r.get('other_formats') or []:
        rp = of['reparse']
        ref = det or direct
        if ref and (not rp['ok'] or any(rp[k] != ref[k] for k in ('date', 'desc', 'amount'))):
            return 'suggestion-selects-other-columns', {'suggested': of['format'], 'reparsed': rp, 'auto_detected': ref,
                                                        'file_type_reported': r.get('file_type')}, sig
    if direct and not det and not r.get('crash'):
        return 'inspect-does-not-report-auto-detected-columns', {'auto_detect_csv_format': direct,
                                                                 'file_type_reported': r.get('file_type'),
                                                                 'section_printed': bool(r.get('section'))}, sig
    if det and direct and any(det[k] != direct[k] for k in ('date', 'desc', 'amount', 'loc', 'fmt')):
        return 'inspect-reports-other-columns-than-auto-detect', {'reported': det, 'auto_detect_csv_format': direct}, None
    if not det:
        return None
    if any(det[k] is None for k in ('date', 'desc', 'amount')):
        return 'inspect-report-incomplete', det, None
    if r.get('suggested') is None:
        return 'no-suggestion-printed', det, None
    rp = r['reparse']
    if not rp['ok']:
        return 'suggestion-rejected', {'suggested': r['suggested'], 'error': rp['error']}, None
    diffs = [k for k in ('date', 'desc', 'amount', 'loc', 'fmt') if rp[k] != det[k]]
    if rp['neg'] or rp['abs']:
        diffs.append('sign')
    if diffs:
        return 'suggestion-selects-other-columns', {'fields': diffs, 'suggested': r['suggested'], 'reported': det,
                                                    'reparsed': rp}, None
    return None


# --------------------------------------------------------------------------- generators
ALPHABET = [('date', None), ('desc', None), ('amount', None), ('loc', None), ('custom', 'merchant'), ('custom', 'type'),
            ('skip', None)]


def pick_template(rnd, cols):
    kinds = [c['k'] for c in cols]
    names = [c['name'] for c in cols if c['k'] == 'custom']
    if 'desc' in kinds:
        r = rnd.random()
        if r < 0.8:
            return None
        if r < 0.86:
            return ''
        return rand_template(rnd, [], names, good=False if rnd.random() < 0.7 else True)
    if not names:
        return rnd.choice([None, None, '', 'x', '{merchant}'])
    r = rnd.random()
    if r < 0.06:
        return None
    if r < 0.09:
        return ''
    return rand_template(rnd, sorted(set(names)), names)


def mutate(rnd, cols):
    """String-level spellings outside the arrangement grammar. Returns (fmt, mut-info)."""
    toks = [render_tok(c) for c in cols]
    i = rnd.randrange(len(toks))
    t = toks[i]
    kind = rnd.choice(['garbage-after', 'inner-blank', 'no-open', 'no-close', 'empty-token', 'empty-spec', 'comma-in-fmt',
                       'rbrace-in-fmt', 'double-sign', 'trailing-comma', 'leading-comma', 'empty-braces', 'sign-only',
                       'two-in-one'])
    must = False
    core = t.strip()
    if kind == 'garbage-after':
        toks[i] = t.rstrip() + rnd.choice(['x', ' y', '}', '{', '{date}', ' {amount}', '!'])
    elif kind == 'inner-blank':
        toks[i] = core.replace('{', '{ ', 1) if rnd.random() < 0.5 else core.replace('}', ' }', 1)
    elif kind == 'no-open':
        toks[i], must = core.lstrip('{'), True
        if not toks[i] or toks[i].startswith('{'):
            toks[i] = 'date'
    elif kind == 'no-close':
        toks[i], must = core.replace('}', ''), True
    elif kind == 'empty-token':
        toks[i], must = rnd.choice(['', ' ', '\t']), True
    elif kind == 'empty-spec':
        toks[i] = core[:-1] + ':}' if ':' not in core else core
    elif kind == 'comma-in-fmt':
        toks[i] = '{date:%b %d, %Y}'
    elif kind == 'rbrace-in-fmt':
        toks[i] = '{date:%Y}x}'
    elif kind == 'double-sign':
        toks[i] = core.replace('{', '{' + rnd.choice(['--', '+-', '-+']), 1)
    elif kind == 'trailing-comma':
        toks.append('')
        must = True
    elif kind == 'leading-comma':
        toks.insert(0, '')
        must = True
    elif kind == 'empty-braces':
        toks[i] = rnd.choice(['{}', '{:x}', '{-}'])
    elif kind == 'sign-only':
        toks[i] = rnd.choice(['{-*}', '{+_}', '{-_:x}', '{+*:%Y}'])
    elif kind == 'two-in-one':
        toks[i] = core + core
    return ','.join(toks), {'kind': kind, 'must_reject': must, 'token': toks[i] if i < len(toks) else ''}


def gen_parse_cases(seed, tier):
    rnd = random.Random(seed * 7919 + 18)
    cases = []
    maxw = 4 if tier == 'quick' else 5
    # exhaustive: every arrangement over the 7-letter alphabet up to width maxw, one random spelling each
    for w in range(1, maxw + 1):
        for combo in itertools.product(ALPHABET, repeat=w):
            plainish = rnd.random() < 0.3
            cols = [mk_col(rnd, k, n, plainish) for k, n in combo]
            tmpl = pick_template(rnd, cols)
            cases.append({'cols': cols, 'tmpl': tmpl, 'fmt': render(cols), 'src': f'exhaustive-w{w}'})
    # random: widths up to 12, start from a valid arrangement, perturb some
    n_random = 900 if tier == 'quick' else 20000
    for _ in range(n_random):
        w = rnd.randint(2, 12)
        kinds = ['date', 'amount']
        mode1 = rnd.random() < 0.5
        if mode1:
            kinds.append('desc')
        ncust = rnd.randint(0, 3) if mode1 else rnd.randint(1, 4)
        names = rnd.sample(CUSTOM_NAMES, ncust)
        cols_k = [(k, None) for k in kinds] + [('custom', n) for n in names]
        if rnd.random() < 0.4:
            cols_k.append(('loc', None))
        if rnd.random() < 0.05:
            cols_k.append(('field', None))
        while len(cols_k) < w:
            cols_k.append(('skip', None))
        rnd.shuffle(cols_k)
        r = rnd.random()
        if r < 0.10 and cols_k:          # drop something (maybe required)
            del cols_k[rnd.randrange(len(cols_k))]
        elif r < 0.22:                   # duplicate something
            j = rnd.randrange(len(cols_k))
            cols_k.insert(rnd.randrange(len(cols_k) + 1), cols_k[j])
        if not cols_k:
            cols_k = [('skip', None)]
        cols = [mk_col(rnd, k, n) for k, n in cols_k]
        tmpl = pick_template(rnd, cols)
        case = {'cols': cols, 'tmpl': tmpl, 'fmt': render(cols), 'src': 'random'}
        if rnd.random() < 0.22:
            case['fmt'], case['mut'] = mutate(rnd, cols)
            case['src'] = 'mutated'
        cases.append(case)
    # systematic template corpus (always runs): every reference family x {mode 2, mode 2 + skipped column, mode 1}
    def plain_cols(spec):
        out = []
        for k in spec:
            if k in ('date', 'desc', 'amount', 'loc', 'skip'):
                c = {'k': k, 'sp': dict(PLAIN_SP)}
                if k == 'date':
                    c['fmt'] = '%Y-%m-%d'
                if k == 'amount':
                    c['sg'] = ''
            else:
                c = {'k': 'custom', 'name': k, 'sp': dict(PLAIN_SP)}
            out.append(c)
        return out
    corpus_templates = [
        # anonymous / auto-numbered / explicit positions, alone, beside and inside valid references
        '{}', '{} {merchant}', '{merchant} {}', '{!r}', '{!s} {merchant}', '{:>8}', '{:>8} {type}', '{merchant:>{}}', '{merchant:{}}',
        '{merchant:{}.{}}', '{merchant!r:>{}}', '{0}', '{0} {merchant}', '{merchant} {1}', '{merchant:>{0}}', '{merchant:{1}}',
        '{0.real}', '{0[0]}', '{.real}', '{[0]}', '{merchant} {} {type}', '{}{}', '{merchant:{type:{}}}',
        # named but uncaptured, every reference form, also nested
        '{nope}', '{merchant} {nope}', '{nope:>10}', '{nope!r}', '{nope.real}', '{nope[0]}', '{ nope}', '{nope }', '{merchant:>{nope}}',
        '{merchant:{type:{nope}}}', '{Merchant}', '{MERCHANT}', '{description}', '{date}', '{amount}', '{_}', '{merchant:{w}}',
        # valid (all names captured), every reference form
        '{merchant}', '{merchant} ({type})', '{merchant:>10}', '{merchant!r}', '{merchant.real}', '{merchant[0]}', '{merchant:>{type}}',
        '{merchant!s:^{type}}', '{{x}} {merchant}', 'literal only', '{{}}', '{{0}} {merchant}',
        # not format strings
        '{merchant', 'merchant}', '{merchant}}', '{', '}', '{merchant!}', '{merchant!rr}', '{merchant:{type}', '{mer{chant}']
    for arr in (['date', 'type', 'merchant', 'amount'], ['skip', 'merchant', 'date', 'loc', 'type', 'amount'],
                ['date', 'desc', 'merchant', 'type', 'amount']):
        for t in corpus_templates:
            cols = plain_cols(arr)
            cases.append({'cols': cols, 'tmpl': t, 'fmt': render(cols), 'src': 'template-corpus'})
    # fixed boundary strings
    for fmt, tmpl in [('', None), (',', None), ('{date},{description},{amount}', None),
                      ('{date:%m/%d/%Y}, {description}, {_}, {amount}', None),
                      ('{date},{amount},{merchant}', '{merchant} {nope:>10}'), ('{date},{amount},{0}', '{0}'),
                      ('{DATE},{Amount},{DESCRIPTION},{LOCATION},{FIELD}', None),
                      ('{date},{amount},{description},{field},{field}', None),
                      ('{date},{amount},{description},{_},{_},{*},{*}', None),
                      ('{date},{amount},{Merchant}', '{Merchant}'), ('{date},{amount},{merchant}', '{{merchant}}'),
                      ('{date},{amount},{merchant}', '{merchant:{w}}'), ('{date},{amount},{merchant},{w}', '{merchant:>{w}}'),
                      ('{date},{amount},{merchant}', '{merchant'), ('{date},{amount},{merchant}', '{merchant}}'),
                      ('{date},{amount},{merchant}', '{merchant.a[0]!r:>3}'), ('{date},{amount},{description}', '{x!r}')]:
        cases.append({'cols': None, 'tmpl': tmpl, 'fmt': fmt, 'src': 'fixed', 'mut': {'kind': 'fixed', 'must_reject': False}})
    return cases


# the 5th of January 2024 (and a second day) written in the layouts bank / card exports use
DATE_STYLES = [('01/05/2024', '01/17/2024'), ('2024-01-05', '2024-01-17'), ('01/05/24', '01/17/24'), ('05.01.2024', '17.01.2024'),
               ('Jan 5, 2024', 'Jan 17, 2024'), ('Jan 05, 2024', 'Jan 17, 2024'), ('January 5, 2024', 'January 17, 2024'),
               ('Friday, January 5, 2024', 'Wednesday, January 17, 2024'), ('Fri, 05 Jan 2024', 'Wed, 17 Jan 2024'),
               ('05 Jan 2024', '17 Jan 2024'), ('5-Jan-24', '17-Jan-24'), ('5 January 2024', '17 January 2024'),
               ('2024/01/05', '2024/01/17'), ('20240105', '20240117'), ('1/5/2024', '1/17/2024'), ('05/01/2024', '17/01/2024'),
               ('05-01-2024', '17-01-2024'), ('01/05/2024 14:30', '01/17/2024 09:05'), ('2024-01-05T14:30:00', '2024-01-17T09:05:00'),
               ('2024-01-05 14:30:00', '2024-01-17 09:05:00'), ('Jan 5, 2024 2:30 PM', 'Jan 17, 2024 9:05 AM'),
               ('01/05/2024  Fri', '01/17/2024  Wed'), ('2024-01-05}', '2024-01-17}'), ('{2024-01-05}', '{2024-01-17}'),
               ('5 janv. 2024', '17 janv. 2024'), ('2024年1月5日', '2024年1月17日'), ('', ''), ('Pending', '01/17/2024'), (' Jan 5, 2024 ', ' 01/17/2024 ')]


def data_rows(hs, style1, style2):
    """Two data rows under the header row: every cell whose header mentions a date carries the date in the given layout
    (first row: style1, second row: style2), amount-like headers carry amounts, the rest text."""
    rows = []
    for j, st in enumerate((style1, style2)):
        row = []
        for h in hs:
            hl = h.lower()
            if 'dat' in hl or 'post' in hl:
                row.append(st[j])
            elif any(w in hl for w in ('amount', 'debit', 'charge', 'payment', 'balance', 'amnt')):
                row.append(['12.50', '-1,234.00'][j])
            elif any(w in hl for w in ('city', 'state', 'location', 'region')):
                row.append(['Seattle, WA', 'Austin'][j])
            else:
                row.append(['ACME STORE #12', 'Bolt "Café"'][j])
        rows.append(row)
    return rows


def file_type_boundary_cases():
    """Genuine CSV files (always run) that sit just below the thresholds of inspect's fixed-width heuristic
    (date at line start followed by blanks: 2 points when >= 3 lines; amount at end of line after a blank: 1 point
    when >= 3 lines; long uniform lines: 1 point; 3 points = "fixed_width", no auto-detection). Each has an
    auto-detectable header, so inspect must report and suggest its columns."""
    cases = []
    pad = 'X' * 70

    def mk(name, headers, dates, amounts, desc='ACME STORE', extra=None, ragged=False):
        rows = []
        for j, (d, a) in enumerate(zip(dates, amounts)):
            row = []
            for h in headers:
                hl = h.lower()
                if 'date' in hl:
                    row.append(d)
                elif 'amount' in hl or 'debit' in hl:
                    row.append(a)
                elif 'desc' in hl or 'merchant' in hl:
                    row.append(desc if extra is None else desc + ' ' + extra)
                else:
                    row.append('R%d' % (j + 1))
            rows.append(row)
        if ragged and len(rows) > 1:
            rows[1] = rows[1] + [' 0.00']      # one row with an extra trailing cell: not a rectangular table
        cases.append({'headers': headers, 'rows': rows, 'src': 'file-type-boundary:' + name})
    H1 = ['Date', 'Ref', 'Description', 'Amount']
    H2 = ['Trans Date', 'Merchant', 'Card', 'Debit']
    days = ['01/0%d/2025' % k for k in range(2, 9)]
    amts_sp = [' %d.50' % (k + 10) for k in range(7)]        # right-aligned: blank before the amount at end of line
    amts = ['%d.50' % (k + 10) for k in range(7)]
    for H in (H1, H2):
        for n in (3, 5, 7):
            # date + ONE blank (time / weekday / tab) ...
            for nm, suffix in (('time', ' 08:15'), ('weekday', ' Fri'), ('tab-weekday', '\tFri'), ('time-seconds', ' 08:15:00'),
                               ('ampm', ' 8:15 PM')):
                ds = [d + suffix for d in days[:n]]
                mk(f'{nm}+amount-after-blank/{n}', H, ds, amts_sp[:n])               # ... + amount indicator
                mk(f'{nm}+long-lines/{n}', H, ds, amts[:n], extra=pad)                # ... + long uniform lines
                mk(f'{nm}+both/{n}', H, ds, amts_sp[:n], extra=pad)                   # ... + both
                if n >= 5:   # the same, ragged (the delimited-table guard does not apply; only the score decides)
                    mk(f'{nm}+amount-after-blank/ragged/{n}', H, ds, amts_sp[:n], ragged=True)
                    mk(f'{nm}+both/ragged/{n}', H, ds, amts_sp[:n], extra=pad, ragged=True)
            # date + TWO blanks on >= 3 lines + another indicator: the score fires, but the file is a delimited table
            # (C18.Props.c18_csv_is_reported; before the fix these were reported fixed-width)
            mk(f'two-blanks+amount-after-blank/{n}', H, [d + '  Fri' for d in days[:n]], amts_sp[:n])
            mk(f'two-blanks+long-lines/{n}', H, [d + '  Fri' for d in days[:n]], amts[:n], extra=pad)
            mk(f'two-blanks+amount-after-blank+quoted-comma/{n}', H, [d + '  Fri' for d in days[:n]], amts_sp[:n], desc='CAFE, INC "x"')
            mk(f'two-blanks+thousands-amount-after-blank/{n}', H, [d + '  Fri' for d in days[:n]],
               [' 1,234.50', ' -2,000,000.00', ' 12.50', ' 1,000.00', ' 3.00', ' 10,500.25', ' 7.00'][:n])
            # date + TWO blanks on >= 3 lines, no other indicator (2 points)
            mk(f'two-blanks-only/{n}', H, [d + '  Fri' for d in days[:n]], amts[:n])
            # no date-blank pattern, both other indicators (2 points)
            mk(f'long-lines+amount-after-blank/{n}', H, days[:n], amts_sp[:n], extra=pad)
            mk(f'iso-long-lines+amount-after-blank/{n}', H, ['2025-01-0%d 08:15' % k for k in range(2, 2 + n)], amts_sp[:n], extra=pad)
        # date + TWO blanks on only 2 lines (below the 3-line minimum) + both other indicators (2 points)
        mk('two-blanks-on-2-lines+both', H, [days[0] + '  Fri', days[1] + '  Sat', '2025-01-04', '2025-01-05'], amts_sp[:4], extra=pad)
        # amount after a blank on only 2 lines + two-blank dates on 3 (2 points)
        mk('two-blanks+amount-after-blank-on-2-lines', H, [d + '  Fri' for d in days[:3]], [' 1.50', ' 2.50', '3.50'])
    return cases


def gen_inspect_cases(seed, tier, tables):
    rnd = random.Random(seed * 104729 + 18)
    kw = {'date': tables['date_patterns'], 'desc': tables['desc_patterns'], 'amount': tables['amount_patterns'],
          'loc': tables['location_patterns']}
    allkw = [w for l in kw.values() for w in l]
    neutral = ['Balance', 'Reference', 'Card', 'Type', 'ID', '', ' ', 'Category', 'Check #', 'Betrag €', '日付', 'Notes', 'Status']
    near = ['dat', 'dat e', 'amnt', 'amoun', 'descr', 'merch', 'locatio', 'cit y', 'pay', 'mem o', 'nam', 'debi', 'charg',
            'sta te', 'regio', 'transdate', 'da-te']
    multi = ['Payment Date', 'Merchant City', 'state name', 'Charge Description', 'Date of Payment', 'Memo/Location',
             'Transaction Amount Date', 'City/State', 'Region Name', 'Updated', 'Candidate', 'Statement', 'Username']

    def dress(w):
        r = rnd.random()
        if r < 0.25:
            w = w.upper()
        elif r < 0.5:
            w = w.title()
        elif r < 0.6:
            w = ''.join(c.upper() if rnd.random() < 0.5 else c for c in w)
        r = rnd.random()
        if r < 0.15:
            w = rnd.choice(['Trans ', 'Post ', 'Orig. ', '  ', '\t']) + w
        elif r < 0.3:
            w = w + rnd.choice([' ', ' (USD)', ' 1', '  ', ', net', ' "x"'])
        return w

    def cell():
        r = rnd.random()
        if r < 0.45:
            return dress(rnd.choice(allkw))
        if r < 0.62:
            return rnd.choice(neutral)
        if r < 0.77:
            return dress(rnd.choice(near))
        return dress(rnd.choice(multi))
    cases = []
    n = 420 if tier == 'quick' else 8000
    for i in range(n):
        r = rnd.random()
        if r < 0.45:   # one keyword of each required list, shuffled with noise: mostly detectable
            hs = [dress(rnd.choice(kw['date'])), dress(rnd.choice(kw['desc'])), dress(rnd.choice(kw['amount']))]
            if rnd.random() < 0.5:
                hs.append(dress(rnd.choice(kw['loc'])))
            for _ in range(rnd.randint(0, 5)):
                hs.append(cell())
            rnd.shuffle(hs)
        else:
            hs = [cell() for _ in range(rnd.randint(0, 9))]
        if rnd.random() < 0.1 and hs:
            hs.insert(rnd.randrange(len(hs) + 1), rnd.choice(hs))   # duplicate header
        cases.append({'headers': hs, 'rows': data_rows(hs, rnd.choice(DATE_STYLES), rnd.choice(DATE_STYLES))})
    # systematic (always runs): every date layout in the first data row x header arrangements (plain, wide with skipped
    # columns and location, date last, date column named by a two-list header, two date columns)
    arrangements = [['Date', 'Description', 'Amount'],
                    ['Card', 'Posting Date', 'Trans Date', 'Merchant Name', 'City', 'Debit'],
                    ['Amount', 'Location', 'Name', 'Date'],
                    ['ID', 'Memo', 'Charge', 'State', 'Notes', 'Transaction Date'],
                    ['Payment Date', 'Payee', 'Amount'],
                    ['description', 'date', 'amount', 'region']]
    for hs in arrangements:
        for st in DATE_STYLES:
            cases.append({'headers': hs, 'rows': data_rows(hs, st, DATE_STYLES[0]), 'src': 'date-layout-corpus'})
    cases += file_type_boundary_cases()
    cases.append({'headers': ['Date', 'Description', 'Amount'], 'rows': [['01/02/2024', 'X', '1.00']]})
    cases.append({'headers': ['Amount', 'Location', 'Name', 'Date'], 'rows': []})
    cases.append({'headers': ['Date'], 'rows': []})
    return cases


# --------------------------------------------------------------------------- model side (Coq)
HEADER = '''From Coq Require Import String List Bool NArith Arith Ascii.
From Tally Require Import Lib.Str Gen.C18Keywords C18.Model.
Import ListNotations.
Open Scope string_scope.
Definition sbytes (l : list N) : string := fold_right (fun n s => String (ascii_of_N n) s) EmptyString l.
Inductive pexp := PErr | POk (date : nat) (fmt : string) (amount : nat) (desc loc : option nat)
                            (custom extra : list (string * nat)) (ng ab : bool) (tmpl : option string).
Definition onat_eqb (a b : option nat) : bool :=
  match a, b with Some x, Some y => Nat.eqb x y | None, None => true | _, _ => false end.
Definition ostr_eqb (a b : option string) : bool :=
  match a, b with Some x, Some y => String.eqb x y | None, None => true | _, _ => false end.
Definition pair_eqb (a b : string * nat) : bool := (String.eqb (fst a) (fst b) && Nat.eqb (snd a) (snd b))%bool.
Definition same_pairs (a b : list (string * nat)) : bool :=
  (Nat.eqb (length a) (length b) && forallb (fun x => existsb (pair_eqb x) b) a)%bool.
(* what CPython's string.Formatter().parse answered (template and nested specs of this case) *)
Definition ftab := list (string * option (list (string * string))).
Definition fp_of (tab : ftab) : string -> option (list (string * string)) :=
  fun s => match find (fun e => String.eqb s (fst e)) tab with Some e => snd e | None => None end.
Definition ok_parse (c : string * option string * ftab * pexp) : bool :=
  let '(f, t, tab, e) := c in
  match parse_format (fp_of tab) f t, e with
  | Err _, PErr => true
  | Ok s, POk d fm a de lo cu ex ng ab tm =>
      (Nat.eqb (f_date s) d && String.eqb (f_date_format s) fm && Nat.eqb (f_amount s) a && onat_eqb (f_desc s) de
       && onat_eqb (f_loc s) lo && same_pairs (f_custom s) cu && same_pairs (f_extra s) ex
       && Bool.eqb (f_neg s) ng && Bool.eqb (f_abs s) ab && ostr_eqb (f_template s) tm)%bool
  | _, _ => false
  end.
Inductive iexp := IFixed | INone | ISome (date : nat) (fmt : string) (desc amount : nat) (loc : option nat) (suggested : string).
Inductive dexp := DNone | DSome (date : nat) (fmt : string) (desc amount : nat) (loc : option nat).
Fixpoint strs_eqb (a b : list string) : bool :=
  match a, b with [], [] => true | x :: r, y :: s => (String.eqb x y && strs_eqb r s)%bool | _, _ => false end.
(* (lines of the file sample, header cells, [reference table lines, csv.reader's field counts for them],
    auto_detect_csv_format called directly, what `tally inspect` printed) *)
Definition ok_inspect (c : list string * list string * (list string * option (list nat)) * dexp * iexp) : bool :=
  let '(ls, hs, tk, dx, e) := c in
  let csvcount := fun x : list string => if strs_eqb x (fst tk) then snd tk else None in
  (strs_eqb (table_lines (firstn 20 ls)) (fst tk) &&
   match inspect_report csvcount ls hs, e with
   | RFixedWidth, IFixed => true
   | RNoDetect, INone => true
   | RDetected d s, ISome da fm de am lo sg =>
       (Nat.eqb (a_date d) da && String.eqb (a_date_format d) fm && Nat.eqb (a_desc d) de && Nat.eqb (a_amount d) am
        && onat_eqb (a_loc d) lo && String.eqb s sg)%bool
   | _, _ => false
   end
   && match auto_detect hs, dx with
      | None, DNone => true
      | Some d, DSome da fm de am lo =>
          (Nat.eqb (a_date d) da && String.eqb (a_date_format d) fm && Nat.eqb (a_desc d) de && Nat.eqb (a_amount d) am
           && onat_eqb (a_loc d) lo)%bool
      | _, _ => false
      end)%bool.
Fixpoint failing {A} (ok : A -> bool) (i : nat) (l : list A) : list nat :=
  match l with [] => [] | c :: r => if ok c then failing ok (S i) r else i :: failing ok (S i) r end.
'''


def onat(x):
    return 'None' if x is None else f'(Some {x})'


def ostr(x):
    return 'None' if x is None else f'(Some {coq_str(x)})'


def pairs(l):
    return '[' + '; '.join(f'({coq_str(k)}, {v})' for k, v in l) + ']'


def cb(b):
    return 'true' if b else 'false'


def isnat(x):
    return isinstance(x, int) and not isinstance(x, bool) and x >= 0


def canonical_parse(r):
    """None if the implementation's result cannot be expressed as a pexp (then it is a mismatch by itself)."""
    if not r['ok']:
        return 'PErr' if r['error'] == 'ValueError' else None
    if not (isnat(r['date']) and isnat(r['amount']) and isinstance(r['fmt'], str) and
            (r['desc'] is None or isnat(r['desc'])) and (r['loc'] is None or isnat(r['loc'])) and
            all(isnat(v) for _, v in r['custom'] + r['extra']) and (r['tmpl'] is None or isinstance(r['tmpl'], str))):
        return None
    return (f"POk {r['date']} {coq_str(r['fmt'])} {r['amount']} {onat(r['desc'])} {onat(r['loc'])} {pairs(r['custom'])} "
            f"{pairs(r['extra'])} {cb(r['neg'])} {cb(r['abs'])} {ostr(r['tmpl'])}")


def run_chunks(name, rows, okfn, chunk=400):
    """Evaluate rows in Coq (chunks in parallel, <= 4 coqc at a time). Returns (bad indices | None, error text)."""
    jobs = []
    for off in range(0, len(rows), chunk):
        body = 'Definition cases := [\n' + ';\n'.join(rows[off:off + chunk]) + f'\n].\nEval vm_compute in failing {okfn} 0 cases.\n'
        jobs.append((off, f'C18_{name}_{off // chunk}', body))

    def one(job):
        off, nm, body = job
        rc, out, err = run_cases(nm, HEADER, body)
        m = re.search(r'=\s*\[(.*?)\]\s*:\s*list nat', out, re.S)
        if rc != 0 or not m:
            return off, None, (out + err)[-800:]
        return off, [off + int(x) for x in m.group(1).replace('%nat', '').replace('\n', ' ').split(';') if x.strip()], ''
    bad = []
    with ThreadPoolExecutor(max_workers=4) as ex:
        for off, b, err in ex.map(one, jobs):
            if b is None:
                return None, err
            bad += b
    return sorted(bad), ''


def coq_ftab(tab):
    rows = []
    for k, v in tab:
        if v is None:
            rows.append(f'({coq_str(k)}, None)')
        else:
            rows.append(f"({coq_str(k)}, Some [{'; '.join(f'({coq_str(a)}, {coq_str(b)})' for a, b in v)}])")
    return '[' + '; '.join(rows) + ']'


def model_check(parse_cases, parse_res, insp_cases, insp_res):
    """Returns list of broken-correspondence records and counters."""
    broken, counts = [], {}
    rows, idx, direct = [], [], []
    for i, (c, r) in enumerate(zip(parse_cases, parse_res)):
        e = canonical_parse(r)
        if e is None:
            direct.append(i)
            continue
        rows.append(f"({coq_str(c['fmt'])}, {ostr(c['tmpl'])}, {coq_ftab(r.get('ftab') or [])}, {e})")
        idx.append(i)
    bad, err = run_chunks('parse', rows, 'ok_parse')
    counts['parse'] = len(rows)
    if bad is None:
        broken.append({'kind': 'broken-correspondence', 'obligation': 'model_vs_impl(C18.Model.parse_format, parse_format_string)',
                       'detail': 'cases.v did not evaluate: ' + err})
    else:
        bad_i = sorted([idx[b] for b in bad] + direct)
        if bad_i:
            j = min(bad_i, key=lambda k: len(parse_cases[k]['fmt']))
            broken.append({'kind': 'broken-correspondence', 'obligation': 'model_vs_impl(C18.Model.parse_format, parse_format_string)',
                           'detail': {'fmt': parse_cases[j]['fmt'], 'tmpl': parse_cases[j]['tmpl'], 'implementation': parse_res[j],
                                      'n_disagreeing': len(bad_i)}, 'indices': bad_i[:50]})
    rows, idx, disc = [], [], {'csv-roundtrip-differs': 0, 'no-autodetect-section': 0, 'report-unparsable': 0}
    for i, (c, r) in enumerate(zip(insp_cases, insp_res)):
        if r.get('cells') != c['headers'] and not (r.get('cells') is None and not c['headers']):
            disc['csv-roundtrip-differs'] += 1
            continue
        det = r.get('detected')
        if not r.get('section'):
            if r.get('file_type') == 'fixed_width':
                e = 'IFixed'
            else:
                disc['no-autodetect-section'] += 1
                continue
        elif det is None:
            e = 'INone'
        elif any(det[k] is None for k in ('date', 'desc', 'amount', 'fmt')) or r.get('suggested') is None:
            disc['report-unparsable'] += 1
            continue
        else:
            e = f"ISome {det['date']} {coq_str(det['fmt'])} {det['desc']} {det['amount']} {onat(det['loc'])} {coq_str(r['suggested'])}"
        dx = r.get('direct')
        dx = 'DNone' if not dx else f"(DSome {dx['date']} {coq_str(dx['fmt'])} {dx['desc']} {dx['amount']} {onat(dx['loc'])})"
        tc = r.get('table_counts')
        tk = '([' + '; '.join(coq_str(l) for l in r.get('table_lines') or []) + '], ' + \
             ('None' if tc is None else 'Some [' + '; '.join(str(n) for n in tc) + ']') + ')'
        rows.append('([' + '; '.join(coq_str(l) for l in r.get('sample_lines') or []) + '], [' +
                    '; '.join(coq_str(h) for h in c['headers']) + f'], {tk}, {dx}, {e})')
        idx.append(i)
    counts['inspect_reported_fixed_width'] = sum(1 for x in rows if x.endswith('IFixed)'))
    bad, err = run_chunks('inspect', rows, 'ok_inspect', chunk=200)
    counts['inspect'] = len(rows)
    counts['inspect_discards'] = disc
    if bad is None:
        broken.append({'kind': 'broken-correspondence', 'obligation': 'model_vs_impl(C18.Model.inspect_report (file kind + auto_detect + suggest), tally inspect + auto_detect_csv_format)',
                       'detail': 'cases.v did not evaluate: ' + err})
    elif bad:
        j = min((idx[b] for b in bad), key=lambda k: len(insp_cases[k]['headers']))
        broken.append({'kind': 'broken-correspondence', 'obligation': 'model_vs_impl(C18.Model.inspect_report (file kind + auto_detect + suggest), tally inspect + auto_detect_csv_format)',
                       'detail': {'headers': insp_cases[j]['headers'], 'implementation': insp_res[j], 'n_disagreeing': len(bad)},
                       'indices': [idx[b] for b in bad][:50]})
    return broken, counts


# --------------------------------------------------------------------------- shrinking
def impl_parse(cases):
    return run_impl(IMPL, {'parse': [{'fmt': c['fmt'], 'tmpl': c['tmpl']} for c in cases]})['parse']


def impl_inspect(cases):
    return run_impl(IMPL, {'inspect': cases, 'workdir': WORKDIR})['inspect']


def shrink_parse(case, tag):
    """Greedy: drop columns, plain spellings, simpler template; keeps the same oracle tag."""
    if case.get('cols') is None or case.get('mut'):
        # string-level: drop comma-separated tokens
        toks = case['fmt'].split(',')
        cur = dict(case)
        changed = True
        while changed and len(toks) > 1:
            changed = False
            cands = []
            for i in range(len(toks)):
                t2 = toks[:i] + toks[i + 1:]
                cands.append(dict(cur, fmt=','.join(t2)))
            rs = impl_parse(cands)
            for i, (c2, r2) in enumerate(zip(cands, rs)):
                o = oracle_parse(c2, r2)
                if o and o[0] == tag and (not c2.get('mut') or c2['mut'].get('token', '') in c2['fmt']):
                    toks = toks[:i] + toks[i + 1:]
                    cur, changed = c2, True
                    break
        return cur
    cur = dict(case)
    for _ in range(40):
        cols = cur['cols']
        cands = []
        for i in range(len(cols)):
            cands.append(dict(cur, cols=cols[:i] + cols[i + 1:]))
        for i, c in enumerate(cols):
            if c['sp'] != PLAIN_SP:
                cands.append(dict(cur, cols=cols[:i] + [dict(c, sp=dict(PLAIN_SP))] + cols[i + 1:]))
            if c['k'] == 'date' and c.get('fmt') not in (None, '%Y'):
                cands.append(dict(cur, cols=cols[:i] + [dict(c, fmt='%Y')] + cols[i + 1:]))
        if cur['tmpl']:
            for m in re.finditer(r'\{\{|\}\}|\{[^{}]*\}|[^{}]+', cur['tmpl']):
                cands.append(dict(cur, tmpl=cur['tmpl'][:m.start()] + cur['tmpl'][m.end():]))
        cands = [dict(c, fmt=render(c['cols'])) for c in cands if c['cols']]
        if not cands:
            break
        rs = impl_parse(cands)
        nxt = None
        for c2, r2 in zip(cands, rs):
            o = oracle_parse(c2, r2)
            if o and o[0] == tag:
                nxt = c2
                break
        if nxt is None:
            break
        cur = nxt
    return cur


def shrink_inspect(case, tag, sig=None):
    """Greedy: drop a column (header cell and its data cells together), drop a data row, plain header spelling."""
    cur = {'headers': list(case['headers']), 'rows': [list(r) for r in case.get('rows', [])]}
    for _ in range(30):
        hs, rows = cur['headers'], cur['rows']
        cands = [{'headers': hs[:i] + hs[i + 1:], 'rows': [r[:i] + r[i + 1:] for r in rows]} for i in range(len(hs))]
        cands += [{'headers': hs, 'rows': rows[:j] + rows[j + 1:]} for j in range(len(rows))]
        cands += [{'headers': hs[:i] + [hs[i].strip().lower()] + hs[i + 1:], 'rows': rows} for i in range(len(hs))
                  if hs[i] != hs[i].strip().lower()]
        cands += [{'headers': hs, 'rows': [r[:i] + ['x'] + r[i + 1:] for r in rows]} for i in range(len(hs))
                  if any(r[i] != 'x' for r in rows if i < len(r))]
        if not cands:
            break
        rs = impl_inspect(cands)
        nxt = None
        for c2, r2 in zip(cands, rs):
            o = oracle_inspect(c2, r2)
            if o and o[0] == tag and o[2] == sig:
                nxt = c2
                break
        if nxt is None:
            break
        cur = nxt
    return cur


# --------------------------------------------------------------------------- main
def regen_gen():
    try:
        regen('Gen/C18Keywords.v', c18_tables.translate(SRC))
    except (c18_tables.Untranslatable, SyntaxError, OSError) as e:
        return [{'translator': 'c18_tables', 'error': str(e)}]
    return []


def report_parse_failures(run, failing, broken):
    """failing: list of (case, result, (tag, detail, sig)). One report per (tag, signature)."""
    groups = {}
    for c, r, o in failing:
        groups.setdefault((o[0], o[2]), []).append((c, r, o))
    for (tag, sig), items in sorted(groups.items(), key=lambda kv: str(kv[0])):
        c, r, o = min(items, key=lambda x: len(x[0]['fmt']) + len(x[0]['tmpl'] or ''))
        known = sig and any(f.get('signature') == sig and f.get('status') == 'finding' for f in run.findings)
        small = c if known else shrink_parse(c, tag)
        r2 = impl_parse([small])[0]
        o2 = oracle_parse(small, r2) or o
        run.violation('parse', {'kind': 'counterexample', 'sub': 'parse', 'case': small, 'oracle': o2[0], 'detail': o2[1],
                                'observed': r2, 'format_string': small['fmt'], 'template': small['tmpl'],
                                'expected': 'C18: ' + {'accepts-uncaptured': 'a template naming an uncaptured column is rejected',
                                                       'accepts-missing': 'a string lacking a required field is rejected',
                                                       'accepts-duplicate': 'a string with a duplicate field is rejected',
                                                       'accepts-malformed': 'a malformed column token is rejected'}.get(
                                    o2[0], 'each column is found at exactly its position, with its date format and sign mode'),
                                'obligation': 'c18_positions / c18_reject_* on the implementation', 'broken': broken,
                                'n_failing_cases': len(items)}, signature=sig)


def main(tier):
    run = Run('C18', tier)
    run.assumptions = [
        'parse_format_string, auto_detect_csv_format (header matching) and the suggestion builder of cmd_inspect are modelled by '
        'hand at character level (C18/Model.v) and tied to the code by the correspondence check; RESERVED_NAMES, both default '
        'date formats and the four header keyword lists are translated from the source on every run; the field regular '
        'expression, the "," separator and the whole helper _template_field_names are pinned by the translator (a change is a '
        'translation failure)',
        'strings are bytes; str.lower, str.strip\'s blank set and the regex class \\w are modelled for ASCII (non-ASCII bytes are '
        'neither blank nor word characters and unchanged by lower): generated names, blanks and header keywords are ASCII, '
        'non-ASCII text only appears where it is passed through (date formats, template literals, header noise without case)',
        'c18_positions is stated for date formats without "," and "}" (the format syntax cannot express them) and custom names that '
        'are lower-case \\w+ words outside RESERVED_NAMES; a token followed by trailing text ({date}x) is accepted by the code '
        'and the model alike and is not covered by the property',
        'CPython\'s csv reader/writer round-trip, re and string.Formatter().parse are libraries: the header row is given to the '
        'model as the list of cells; Formatter().parse is a universally quantified parameter of every theorem (section variable) '
        'and, for execution, the table of its answers on the case\'s template and nested format specs (computed by the '
        'implementation\'s interpreter, no tally code involved)',
        '"a template names a column" is Spec.looks_up: the argument name (up to the first "." or "[") of a replacement field '
        'reported by the library parser, at any nesting depth; positional fields count as the names "" / digits (over-approximation)',
        'history: before the fix of ' + KNOWN_NONPLAIN + ' only plain {name} references were checked; that signature is '
        'now listed as fixed and a regression is reported as VIOLATION',
        'inspect\'s file-kind heuristic is in the model (fixed-width score + delimited-table guard); csv.reader, which the guard '
        'calls, is a universally quantified parameter of the theorems and its field counts are supplied per case; the model\'s '
        'thousands-separator removal is compared with re.sub on every case; history: before the fix of ' + KNOWN_FIXED_WIDTH +
        ' a CSV with "MM/DD/YYYY  Thu" dates was reported fixed-width; now listed as fixed, a regression is a VIOLATION']
    tfails = regen_gen()
    res = run.proof_step(COQ_FILES, extra_trusted=[
        'tools/c18_tables.py (table translator, fail closed)', 'harness/c18.py + harness/impl_c18.py (generators, correspondence, oracle)',
        'CPython csv / re / str.format (libraries)'])
    broken = []
    if tfails:
        broken.append({'kind': 'translation-failure', 'obligation': 'translate(format_parser.py, parsers.py)', 'detail': tfails})
    elif not res['ok']:
        broken.append({'kind': 'broken-obligation', 'detail': first_error(res['log']),
                       'obligation': first_error(res['log']).get('obligation')})
    if res['hygiene']:
        broken.append({'kind': 'hygiene', 'detail': res['hygiene']})
    try:
        tables = c18_tables.read_tables(os.path.join(SRC, 'format_parser.py'), os.path.join(SRC, 'parsers.py'))
    except Exception:  # noqa  (already reported as translation failure): generate from the last good keyword lists
        tables = {'date_patterns': ['date', 'trans date'], 'desc_patterns': ['description', 'merchant', 'payee', 'memo', 'name'],
                  'amount_patterns': ['amount', 'debit', 'charge', 'payment'], 'location_patterns': ['location', 'city', 'state', 'region']}

    pcases = gen_parse_cases(run.seed, tier)
    icases = gen_inspect_cases(run.seed, tier, tables)
    out = run_impl(IMPL, {'parse': [{'fmt': c['fmt'], 'tmpl': c['tmpl']} for c in pcases], 'inspect': icases,
                          'workdir': WORKDIR}, timeout=3000)
    pres, ires = out['parse'], out['inspect']

    pfail = [(c, r, o) for c, r in zip(pcases, pres) for o in [oracle_parse(c, r)] if o]
    ifail = [(c, r, o) for c, r in zip(icases, ires) for o in [oracle_inspect(c, r)] if o]

    counts = {}
    if not tfails and res['ok']:
        b, counts = model_check(pcases, pres, icases, ires)
        broken += b
    def is_known(x):
        return bool(x[2][2]) and any(f.get('signature') == x[2][2] and f.get('status') == 'finding' for f in run.findings)
    unknown_fail = [x for x in pfail if not is_known(x)]
    if broken and not unknown_fail and not [x for x in ifail if not is_known(x)]:
        # extra search on the implementation alone, other sub-seeds
        for extra in range(1, 4):
            pc2 = gen_parse_cases(run.seed + 1000 * extra, tier)[-1200:]
            ic2 = gen_inspect_cases(run.seed + 1000 * extra, tier, tables)
            o2 = run_impl(IMPL, {'parse': [{'fmt': c['fmt'], 'tmpl': c['tmpl']} for c in pc2], 'inspect': ic2, 'workdir': WORKDIR},
                          timeout=3000)
            pf2 = [(c, r, o) for c, r in zip(pc2, o2['parse']) for o in [oracle_parse(c, r)] if o]
            if2 = [(c, r, o) for c, r in zip(ic2, o2['inspect']) for o in [oracle_inspect(c, r)] if o]
            pfail += pf2
            ifail += if2
            if any(not is_known(x) for x in pf2 + if2):
                break
    report_parse_failures(run, pfail, broken)
    if ifail:
        groups = {}
        for c, r, o in ifail:
            groups.setdefault((o[0], o[2]), []).append((c, r, o))
        for (tag, sig), items in sorted(groups.items(), key=lambda kv: str(kv[0])):
            c, r, o = min(items, key=lambda x: len(x[0]['headers']) + len(x[0].get('rows') or []))
            small = c if is_known((c, r, o)) else shrink_inspect(c, tag, sig)
            r2 = impl_inspect([small])[0]
            o2 = oracle_inspect(small, r2) or o
            for k in ('sample_lines',):
                r2.pop(k, None)
            run.violation('inspect', {'kind': 'counterexample', 'sub': 'inspect', 'case': small, 'oracle': o2[0], 'detail': o2[1],
                                      'observed': r2, 'expected': 'C18: the format string inspect suggests is accepted and selects '
                                      'the date/description/amount columns inspect reported', 'obligation': 'c18_inspect_roundtrip on '
                                      'the implementation', 'broken': broken, 'n_failing_cases': len(items)}, signature=sig)
    still_unknown = [x for x in pfail + ifail if not is_known(x)]
    if broken and not still_unknown:
        b0 = broken[0]
        run.violation('broken', {'kind': b0['kind'], 'obligation': b0.get('obligation'), 'broken': broken,
                                 'searched': f'{len(pcases)} format strings and {len(icases)} header rows (plus 3 further seeds) against '
                                             'the direct C18 oracle on the implementation; none fails'}, found_input=False)

    # ---- coverage ----
    hist_w, classes, srcs, spell = {}, {}, {}, {'star': 0, 'underscore': 0, 'upper': 0, 'lead-blank': 0, 'trail-blank': 0, 'sign-': 0,
                                                'sign+': 0, 'date-format': 0, 'ignored-sign': 0, 'ignored-spec': 0}
    nontrivial = set()
    no_claim = {}
    for c, r in zip(pcases, pres):
        srcs[c['src']] = srcs.get(c['src'], 0) + 1
        if c.get('cols') is not None:
            hist_w[len(c['cols'])] = hist_w.get(len(c['cols']), 0) + 1
            for col in c['cols']:
                sp = col['sp']
                if col['k'] == 'skip':
                    spell['star' if sp['star'] else 'underscore'] += 1
                spell['upper'] += any(sp['mask'][:len(base_name(col))])
                spell['lead-blank'] += bool(sp['lead'])
                spell['trail-blank'] += bool(sp['trail'])
                spell['sign-'] += col.get('sg') == '-'
                spell['sign+'] += col.get('sg') == '+'
                spell['date-format'] += col['k'] == 'date' and col.get('fmt') is not None
                spell['ignored-sign'] += col['k'] != 'amount' and bool(sp['jsign'])
                spell['ignored-spec'] += col['k'] != 'date' and sp['jspec'] is not None
        if c.get('mut'):
            cl = 'mutated:' + c['mut']['kind']
        else:
            what, exp = expectation(c['cols'], c['tmpl'])
            cl = 'accept' if what == 'accept' else (f'reject:{exp}' if what == 'reject' else f'no-claim:{exp}')
            if what is None:
                no_claim[exp] = no_claim.get(exp, 0) + 1
        cl += '/impl-ok' if r['ok'] else '/impl-error'
        classes[cl] = classes.get(cl, 0) + 1
        if (r['ok'] and 2 + (r['desc'] is not None) + (r['loc'] is not None) + len(r['custom']) + len(r['extra']) >= 3) or \
                (not r['ok'] and c['fmt'].count(',') >= 1):
            nontrivial.add((c['fmt'], c['tmpl']))
    idet = sum(1 for r in ires if r.get('detected'))
    iloc = sum(1 for r in ires if r.get('detected') and r['detected']['loc'] is not None)
    run.cov.update({
        'evaluations': len(pcases) + len(icases) + sum(counts.get(k, 0) for k in ('parse', 'inspect')),
        'distinct_nontrivial': len(nontrivial) + len({tuple(c['headers']) for c, r in zip(icases, ires) if r.get('detected')}),
        'rule': f'every arrangement over {{date, description, amount, location, custom merchant, custom type, skip}} of width <= '
                f'{4 if tier == "quick" else 5} (one random spelling each) + random arrangements of width 2-12 (valid core, then dropped / '
                'duplicated columns, {field}) with random blanks (9 ASCII blank characters), letter case, {_}/{*}, +/- prefixes, 18 date '
                'formats, ignored signs/specs, templates (plain, uncaptured, {n:spec} {n!r} {n.a} {n[0]} {{n}} {} {0} nested {a:{n}}, malformed), + 14 kinds of '
                'string-level malformations; header rows of 0-10 cells from the translated keyword lists (random case, prefixes/suffixes, '
                'near misses, cells matching several lists, duplicates, non-ASCII noise, quoted cells) with two data rows whose date cells use one of '
                f'{len(DATE_STYLES)} layouts (US, ISO, dotted, long month names with commas, 2-digit years, time suffixes, braces, non-ASCII, empty), plus every '
                'layout x 6 fixed header arrangements, run through `tally inspect`; a systematic template corpus (anonymous / auto-numbered / positional '
                'fields, every reference form, nested specs, non-format-strings) x 3 arrangements; '
                'non-trivial = distinct (format, template) accepted with >= 3 registered columns or rejected with >= 2 columns, plus '
                'distinct header rows on which auto-detection succeeded',
        'samples': [{'fmt': pcases[2000 % len(pcases)]['fmt'], 'tmpl': pcases[2000 % len(pcases)]['tmpl']},
                    {'fmt': pcases[-40]['fmt'], 'tmpl': pcases[-40]['tmpl']}, {'headers': icases[0]['headers']}],
        'parse_cases': len(pcases), 'parse_sources': srcs, 'width_histogram': hist_w, 'outcome_classes': classes,
        'spelling_features': spell, 'oracle_no_claim': no_claim,
        'inspect_cases': len(icases), 'inspect_date_layouts_in_first_row': len(DATE_STYLES), 'inspect_detected': idet, 'inspect_detected_with_location': iloc,
        'inspect_crashes': sum(1 for r in ires if r.get('crash')),
        'templates_in_parse_cases': len({c['tmpl'] for c in pcases if c['tmpl']}), 'model_vs_impl_in_coq': counts,
        'oracle_failures': {'parse': len(pfail), 'inspect': len(ifail)}, 'translation_failures': tfails})
    run.finish()


def replay(path):
    obj = json.load(open(path))
    if obj.get('kind') != 'counterexample':
        main('quick')
        return 0
    case = obj['case']
    if obj.get('sub') == 'inspect':
        r = impl_inspect([case])[0]
        o = oracle_inspect(case, r)
    else:
        r = impl_parse([case])[0]
        o = oracle_parse(case, r)
    print(json.dumps({'oracle': o[0] if o else None, 'detail': o[1] if o else None, 'observed': r}, indent=1, default=str))
    if o:
        sig = o[2]
        if sig and any(f.get('signature') == sig and f.get('status') == 'finding' for f in load_known_findings('C18')):
            print(f'KNOWN-FINDING: property=C18 {sig}')
            return 0
        print(f'VIOLATION property=C18 replay={path}')
        return 1
    return 0
