"""Runs tally's analysis and all four output formats on generated transaction sets (executed by
/venv/bin/python with PYTHONPATH=$VERIF_REPO/src). Amounts arrive in integer ticks (1/64); every
figure is returned as the float the implementation produced plus, where exact, integer ticks.
Modes: 'cases' (full render), 'strings' (json.dumps / json.loads on strings)."""
import contextlib
import io
import json
import os
import shutil
import sys
import tempfile
from datetime import datetime
from pathlib import Path

sys.path.insert(0, os.path.dirname(os.path.abspath(__file__)))
import c12_html  # noqa: E402

import tally.report as report  # noqa: E402
import tally.analyzer as analyzer  # noqa: E402
from tally import section_engine  # noqa: E402

TICK = 64.0
REAL_DIR = report.get_template_dir()


def mk(t, shared=None):
    """A transaction as tally's parsers build it: 'tags' IS the list object of match_info['tags'] (parsers.py:
    'tags': match_info.get('tags', [])); with `shared`, transactions of one merchant with equal tags share one
    match_info (and so one list), as when a cached rule result is reused."""
    tags = list(t['tags'])
    mi = {'pattern': 'contains("' + t['m'][:8].upper().replace('"', '') + '")', 'source': 'user', 'tags': tags, 'tag_sources': {}}
    if shared is not None:
        mi = shared.setdefault((t['m'], tuple(t['tags'])), mi)
    if t.get('mi') is False:
        mi = None
    d = {'amount': t['a'] / TICK, 'merchant': t['m'], 'category': t['c'], 'subcategory': t['s'],
         'date': datetime.strptime(t['date'], '%Y-%m-%d'), 'source': t['src'], 'description': t['d'],
         'tags': (mi['tags'] if mi else tags)}
    if mi:
        d['match_info'] = mi
    if t.get('raw') is not None:
        d['raw_description'] = t['raw']
    if t.get('extra'):
        d['extra_fields'] = dict(t['extra'])
    if t.get('loc') is not None:
        d['location'] = t['loc']
    return d


def ticks(x):
    v = x * TICK
    if v != v or v in (float('inf'), float('-inf')) or not float(v).is_integer():
        return None
    return int(v)


def err(e):
    return {'error': type(e).__name__, 'msg': str(e)[:200]}


def stats_view(st):
    """The analysed data, reduced to what C12 names as observable."""
    out = {k: st[k] for k in ['income_total', 'spending_total', 'credits_total', 'cash_flow', 'transfers_in',
                              'transfers_out', 'transfers_net', 'investment_total', 'total', 'total_transactions',
                              'monthly_avg', 'num_months']}
    out['ticks'] = {k: ticks(st[k]) for k in ['income_total', 'spending_total', 'credits_total', 'cash_flow',
                                              'transfers_in', 'transfers_out', 'transfers_net', 'total',
                                              'total_transactions']}
    bm = []
    for name, d in st['by_merchant'].items():
        bm.append({'name': name, 'category': d['category'], 'subcategory': d['subcategory'], 'total': d['total'],
                   'total_ticks': ticks(d['total']), 'count': d['count'], 'tags': sorted(d['tags']),
                   'transactions': [{'description': x['description'], 'amount': x['amount'], 'amount_ticks': ticks(x['amount']),
                                     'month': x['month'], 'tags': list(x['tags']), 'source': x['source'],
                                     'extra_fields': x.get('extra_fields')} for x in d['transactions']]})
    out['by_merchant'] = bm
    out['by_month'] = sorted(st['by_month'].items())
    out['by_category_pos'] = sum(1 for v in st['by_category'].values() if v['total'] > 0)
    if st.get('sections') is not None:
        out['sections'] = [{'name': n, 'merchants': [m for m, _ in s['merchants']], 'total': s['total']}
                           for n, s in st['sections'].items()]
        out['section_order'] = [s.name for s in st['_sections_config'].sections]
    else:
        out['sections'] = None
    return out


def capture(fn, *a, **kw):
    buf = io.StringIO()
    try:
        with contextlib.redirect_stdout(buf):
            fn(*a, **kw)
    except Exception as e:  # noqa
        return err(e)
    return {'out': buf.getvalue()}


def run_case(case, work):
    res = {}
    try:
        shared = {} if case.get('alias') == 'shared' else None
        txns = [mk(t, shared) for t in case['txns']]
        st = analyzer.analyze_transactions(txns)
        if case.get('views') is not None:
            # the glue of commands/run.py lines 146-160
            cfg = section_engine.parse_sections(case['views'])
            vr = analyzer.classify_by_sections(st['by_merchant'], cfg, st['num_months'])
            st['sections'] = {n: analyzer.compute_section_totals(ms) for n, ms in vr.items()}
            st['_sections_config'] = cfg
    except Exception as e:  # noqa
        return {'analyze_error': err(e)}
    res['stats'] = stats_view(st)
    cur = case.get('currency', '${amount}')
    res['json'] = {}
    res['markdown'] = {}
    for v in (0, 1, 2):
        try:
            res['json'][str(v)] = {'text': analyzer.export_json(st, verbose=v)}
        except Exception as e:  # noqa
            res['json'][str(v)] = err(e)
        try:
            res['markdown'][str(v)] = {'text': analyzer.export_markdown(st, verbose=v, currency_format=cur)}
        except Exception as e:  # noqa
            res['markdown'][str(v)] = err(e)
    res['text'] = {g: capture(analyzer.print_summary, st, year=2025, currency_format=cur, group_by=g)
                   for g in ('merchant', 'subcategory')}
    if st.get('sections'):
        res['sections_text'] = capture(analyzer.print_sections_summary, st, year=2025, currency_format=cur)
    # ---- HTML, embedded and with separate files ------------------------------------------
    tpl = case.get('tpl')
    d = tempfile.mkdtemp(dir=work)
    try:
        if tpl is None:
            report.get_template_dir = lambda: REAL_DIR
            tdir = REAL_DIR
        else:
            tdir = Path(d) / 'tpl'
            tdir.mkdir()
            for fn, key in (('spending_report.html', 'html'), ('spending_report.css', 'css'), ('spending_report.js', 'js')):
                (tdir / fn).write_text(tpl[key], encoding='utf-8')
            report.get_template_dir = lambda: tdir
        h = {}
        out = os.path.join(d, 'out.html')
        try:
            analyzer.write_summary_file_vue(st, out, year=2025, currency_format=cur, sources=case.get('sources'),
                                            embedded_html=True)
            doc = Path(out).read_text(encoding='utf-8')
            hp = c12_html.scripts_htmlparser(doc)
            br = c12_html.scripts_browser(doc)
            h['data_hp'] = c12_html.data_text(hp)
            h['data_br'] = c12_html.data_text(br)
            h['n_scripts'] = [len(hp), len(br)]
            h['scripts_equal'] = hp == br
            if tpl is not None:
                h['doc'] = doc
                h['scripts_hp'] = hp
            else:
                css = (tdir / 'spending_report.css').read_text(encoding='utf-8')
                js = (tdir / 'spending_report.js').read_text(encoding='utf-8')
                h['css_once'] = doc.count(css)
                h['js_once'] = doc.count(js)
                h['doc_len'] = len(doc)
        except Exception as e:  # noqa
            h = err(e)
        res['html'] = h
        sep = os.path.join(d, 'sep')
        os.mkdir(sep)
        try:
            analyzer.write_summary_file_vue(st, os.path.join(sep, 'out.html'), year=2025, currency_format=cur,
                                            sources=case.get('sources'), embedded_html=False)
            res['data_js'] = Path(sep, 'spending_data.js').read_text(encoding='utf-8')
            sdoc = Path(sep, 'out.html').read_text(encoding='utf-8')
            res['sep_ok'] = ('PLACEHOLDER' not in sdoc)
        except Exception as e:  # noqa
            res['data_js'] = err(e)
    finally:
        shutil.rmtree(d, ignore_errors=True)
    return res


def main():
    payload = json.load(sys.stdin)
    mode = payload.get('mode', 'cases')
    if mode == 'strings':
        dumps = [json.dumps(s) for s in payload['strings']]
        loads = []
        for t in payload['tokens']:
            try:
                v = json.loads(t)
                loads.append(v if isinstance(v, str) else None)
            except ValueError:
                loads.append(None)
        json.dump({'dumps': dumps, 'loads': loads}, sys.stdout)
        return
    work = payload['work']
    os.makedirs(work, exist_ok=True)
    out = [run_case(c, work) for c in payload['cases']]
    facts = {}
    if payload.get('template_facts'):
        html = (REAL_DIR / 'spending_report.html').read_text(encoding='utf-8')
        css = (REAL_DIR / 'spending_report.css').read_text(encoding='utf-8')
        js = (REAL_DIR / 'spending_report.js').read_text(encoding='utf-8')
        facts = {'html': html, 'css_len': len(css), 'js_len': len(js),
                 'css_has_lt': '<' in css, 'css_ph': [css.count(p) for p in payload['template_facts']],
                 'js_ph': [js.count(p) for p in payload['template_facts']],
                 'js_close': bool(c12_html.ANY_CLOSE_RE.search(js)), 'css_close': bool(c12_html.ANY_CLOSE_RE.search(css)),
                 'css_head': css[:60], 'js_head': js[:60]}
    json.dump({'results': out, 'facts': facts}, sys.stdout)


main()
