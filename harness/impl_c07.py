"""C07 implementation runner: executes ONE operation history in THIS interpreter process against tally
(get_all_rules + get_transforms, normalize_merchant, parse_generic_csv, MerchantEngine.parse/match,
evaluate_transaction/matches_transaction/evaluate_filter) and reports for every operation
  out      canonical observable result
  frame    names of things that an operation changed although it must not (deep snapshots before/after)
  ek, rk   keys that appeared in expr_parser._expression_cache / _regex_cache during the operation (read only)
  origin   index of the load operation that created the engine now in merchant_utils._cached_engine
A "fresh process" comparison is simply another invocation of this script with a short history.
Nothing in tally is patched or hooked."""
import copy
import datetime
import json
import os
import shutil
import sys
import tempfile

from tally import expr_parser, merchant_utils
from tally.merchant_engine import MerchantEngine
from tally.merchant_utils import get_all_rules, get_transforms, normalize_merchant, get_cached_engine

WORK = os.environ.get('C07_WORK') or tempfile.gettempdir()


def jsonable(v, depth=0):
    if isinstance(v, (bool, int, str)) or v is None:
        return v
    if isinstance(v, float):
        return v if v == v and v not in (float('inf'), float('-inf')) else repr(v)
    if isinstance(v, (list, tuple)) and depth < 6:
        return [jsonable(x, depth + 1) for x in v]
    if isinstance(v, (set, frozenset)) and depth < 6:
        return {'set': sorted((jsonable(x, depth + 1) for x in v), key=lambda x: json.dumps(x, sort_keys=True, default=str))}
    if isinstance(v, dict) and depth < 6:
        return {'dict': sorted(([jsonable(k, depth + 1), jsonable(x, depth + 1)] for k, x in v.items()),
                               key=lambda kv: json.dumps(kv[0], sort_keys=True, default=str))}
    if isinstance(v, (datetime.date, datetime.datetime)):
        return {'date': v.isoformat()}
    return {'object': type(v).__name__}     # never the repr: it may carry an address


def canon_rules(rules):
    out = []
    for r in rules:
        row = []
        for x in r:
            if isinstance(x, (str, int, float, bool)) or x is None:
                row.append(x)
            elif isinstance(x, (list, tuple, set)):
                row.append(jsonable(x))
            else:
                row.append(repr(x))      # ParsedPattern dataclass: value repr
        out.append(row)
    return out


def engine_snapshot(e):
    if e is None:
        return None
    return {'rules': [[r.name, r.match_expr, r.category, r.subcategory, r.merchant, sorted(r.tags), r.priority,
                       [list(b) for b in r.let_bindings], sorted(r.fields.items()), r.line_number] for r in e.rules],
            'variables': sorted(e.variables.items()), 'transforms': [list(t) for t in e.transforms],
            'match_mode': e.match_mode}


def canon_match_info(mi):
    if mi is None:
        return None
    d = dict(mi)
    if 'tags' in d:
        d['tags'] = sorted(d['tags'])           # built from a set: order is not an observable
    return jsonable(d)


def canon_match_result(r):
    return {'matched': r.matched, 'merchant': r.merchant, 'category': r.category, 'subcategory': r.subcategory,
            'tags': sorted(r.tags), 'rule': r.matched_rule.name if r.matched_rule else None,
            'merchant_rule': r.merchant_rule.name if getattr(r, 'merchant_rule', None) else None,
            'subcategory_rule': r.subcategory_rule.name if getattr(r, 'subcategory_rule', None) else None,
            'all': [x.name for x in r.all_matching_rules], 'tag_rules': [x.name for x in r.tag_rules],
            'tag_sources': jsonable(r.tag_sources), 'extra_fields': jsonable(r.extra_fields)}


def decode_rows(v):
    """supplemental rows arrive as JSON; {'__date__': 'YYYY-MM-DD'} stands for a cell that parsed as a date (cells that
    did not parse stay raw strings, as load_supplemental_sources leaves them)"""
    if isinstance(v, dict):
        if set(v) == {'__date__'}:
            return datetime.datetime.strptime(v['__date__'], '%Y-%m-%d').date()
        return {k: decode_rows(x) for k, x in v.items()}
    if isinstance(v, list):
        return [decode_rows(x) for x in v]
    return v


_FRESH = {}


def fresh_dump(src):
    """ast.dump of a NEW parse of the key: what the entry must equal for as long as it lives"""
    import ast as _ast
    import warnings
    if src not in _FRESH:
        try:
            with warnings.catch_warnings():
                warnings.simplefilter('ignore')
                _FRESH[src] = _ast.dump(_ast.parse(src, mode='eval'))
        except Exception as e:  # noqa
            _FRESH[src] = 'unparsable:' + type(e).__name__
    return _FRESH[src]


def mutated_entries():
    """cache entries that no longer equal recomputation from their key (the invariant of c07_cache_invariant, observed)"""
    import ast as _ast
    import re as _re
    bad = []
    for k, t in list(expr_parser._expression_cache.items()):
        try:
            d = _ast.dump(t)
        except Exception as e:  # noqa
            d = 'undumpable:' + type(e).__name__
        if not isinstance(k, str) or d != fresh_dump(k):
            bad.append(k if isinstance(k, str) else repr(k))
    for k, v in list(expr_parser._regex_cache.items()):
        if not isinstance(k, str) or getattr(v, 'pattern', None) != k or getattr(v, 'flags', None) != _re.compile(k, _re.IGNORECASE).flags:
            bad.append('re:' + (k if isinstance(k, str) else repr(k)))
    return sorted(bad)


def mk_date(s):
    return datetime.datetime.strptime(s, '%Y-%m-%d').date() if s else None


def txn_dict(t):
    d = {'description': t['description'], 'amount': t['amount'], 'field': copy.deepcopy(t.get('field')),
         'source': t.get('source'), 'location': t.get('location')}
    if t.get('date'):
        d['date'] = mk_date(t['date'])
    return d


class Proc:
    def __init__(self, uni):
        self.uni = uni
        self.dir = tempfile.mkdtemp(prefix='run-', dir=WORK)
        self.rules = []          # what the last get_all_rules returned (the caller's variable)
        self.transforms = []
        self.engine = MerchantEngine()     # long-lived engine object that is re-parsed
        self.ds = decode_rows(copy.deepcopy(uni.get('data_sources') or {}))
        self.ds_alt = decode_rows(copy.deepcopy(uni.get('data_sources_alt') or {}))
        self.seen_e, self.seen_r = set(), set()
        self.engines = []        # keep every cached engine alive so that identities are never reused
        self.origin = {}

    def ds_for(self, t):
        """supplemental rows handed over with this transaction: the universe's rows (default), other rows, or None
        (callers such as the legacy amex/boa parsers pass no data_sources at all)"""
        if isinstance(t, dict) and t.get('ds') == 'none':
            return None
        if isinstance(t, dict) and t.get('ds') == 'alt':
            return self.ds_alt
        return self.ds

    def path_for(self, f):
        return os.path.join(self.dir, 'merchants.rules' if f['suffix'] == '.rules' else 'merchant_categories.csv')

    def snapshot(self):
        return {'rules': canon_rules(self.rules), 'transforms': jsonable(self.transforms),
                'cached_engine': engine_snapshot(get_cached_engine()), 'engine': engine_snapshot(self.engine),
                'data_sources': jsonable([self.ds, self.ds_alt]),
                'cached_engine_identity': id(get_cached_engine()) if get_cached_engine() is not None else None}

    def diff(self, a, b):
        return [k for k in a if a[k] != b[k]]

    def op(self, i, o):
        kind = o['op']
        res = {}
        if kind == 'load':
            before = {'engine': engine_snapshot(self.engine), 'data_sources': jsonable(self.ds)}
            name = o.get('file')
            try:
                if name is None:
                    rules = get_all_rules(None)
                    transforms = get_transforms(None)
                    tag_only = merchant_utils.get_tag_only_rules(None)
                else:
                    f = self.uni['files'][name]
                    p = self.path_for(f)
                    mode = f.get('mode', 'first_match')
                    if f['text'] is None:                          # the file has been deleted
                        if os.path.exists(p):
                            os.remove(p)
                    else:
                        with open(p, 'w', encoding='utf-8') as fh:     # SAME path, new content: a rewrite + reload
                            fh.write(f['text'])
                    if o.get('order') == 'cli':
                        # the order of `tally up` / explain / discover / diag: transforms (and tag-only rules) are
                        # asked for BEFORE get_all_rules re-reads the file
                        transforms = get_transforms(p, match_mode=mode)
                        tag_only = merchant_utils.get_tag_only_rules(p, match_mode=mode)
                        rules = get_all_rules(p, match_mode=mode)
                    else:
                        rules = get_all_rules(p, match_mode=mode)
                        transforms = get_transforms(p, match_mode=mode)
                        tag_only = merchant_utils.get_tag_only_rules(p, match_mode=mode)
                self.rules, self.transforms = rules, transforms
                res['out'] = {'rules': canon_rules(rules), 'transforms': jsonable(transforms),
                              'tag_only': [[r.name, r.match_expr, sorted(r.tags)] for r in tag_only]}
            except Exception as e:  # noqa
                res['out'] = {'raise': type(e).__name__}
            after = {'engine': engine_snapshot(self.engine), 'data_sources': jsonable(self.ds)}
            res['frame'] = self.diff(before, after)
            ce = get_cached_engine()
            if ce is not None and id(ce) not in self.origin:
                self.origin[id(ce)] = i
                self.engines.append(ce)
            res['engine_built'] = ce is not None and self.origin.get(id(ce)) == i
        elif kind == 'classify':
            t = self.uni['txns'][o['txn']]
            field = copy.deepcopy(t.get('field'))
            field0 = copy.deepcopy(field)
            before = self.snapshot()
            try:
                if t.get('via') == 'csv':
                    res['out'] = self.classify_csv(t)
                else:
                    m, c, s, mi = normalize_merchant(
                        t['description'], self.rules, amount=t['amount'], txn_date=mk_date(t.get('date')), field=field,
                        data_source=t.get('source'), transforms=self.transforms, location=t.get('location'),
                        data_sources=self.ds_for(t))
                    res['out'] = {'merchant': m, 'category': c, 'subcategory': s, 'match_info': canon_match_info(mi)}
            except Exception as e:  # noqa
                res['out'] = {'raise': type(e).__name__}
            after = self.snapshot()
            res['frame'] = self.diff(before, after)
            # the caller's field dict: only keys the user's own transforms assign may change
            targets = {fp[6:] for fp, _ in (self.transforms or []) if fp.startswith('field.')}
            if (field is None) != (field0 is None) or (field is not None and any(
                    field.get(k) != field0.get(k) for k in set(field) | set(field0) if k not in targets)):
                res['frame'].append('field')
        elif kind == 'eval':
            before = self.snapshot()
            src = o['src']
            try:
                if o['txn'] == 'filter':
                    txns = [{'amount': 20.0, 'tags': ['x'], 'date': datetime.datetime(2025, 1, 1), 'merchant': 'M',
                             'category': 'Food', 'subcategory': 'S'},
                            {'amount': 7.5, 'tags': [], 'date': datetime.datetime(2025, 2, 1), 'merchant': 'M',
                             'category': 'Food', 'subcategory': 'S'}]
                    t0 = copy.deepcopy(txns)
                    v = expr_parser.evaluate_filter(src, txns)
                    res['out'] = {'value': jsonable(v)}
                    same = txns == t0
                else:
                    tq = self.uni['txns'][o['txn']]
                    td = txn_dict(tq)
                    t0 = copy.deepcopy(td)
                    v = expr_parser.evaluate_transaction(src, td, data_sources=self.ds_for(tq))
                    res['out'] = {'value': jsonable(v)}
                    try:
                        res['out']['matches'] = expr_parser.matches_transaction(src, td, data_sources=self.ds_for(tq))
                    except Exception as e:  # noqa
                        res['out']['matches'] = {'raise': type(e).__name__}
                    same = td == t0
            except Exception as e:  # noqa
                res['out'] = {'raise': type(e).__name__}
                same = True
            after = self.snapshot()
            res['frame'] = self.diff(before, after) + ([] if same else ['transaction'])
            res['parse_ok'] = src in expr_parser._expression_cache
        elif kind == 'engparse':
            f = self.uni['files'][o['file']]
            before = {'rules': canon_rules(self.rules), 'cached_engine': engine_snapshot(get_cached_engine()),
                      'data_sources': jsonable(self.ds)}
            try:
                self.engine.match_mode = f.get('mode', 'first_match')      # public attribute of the engine
                self.engine.parse(f['text'])
                raised = None
            except Exception as e:  # noqa
                raised = type(e).__name__
            after = {'rules': canon_rules(self.rules), 'cached_engine': engine_snapshot(get_cached_engine()),
                     'data_sources': jsonable(self.ds)}
            res['out'] = {'raised': raised, 'engine': engine_snapshot(self.engine)}
            res['frame'] = self.diff(before, after)
        elif kind == 'engmatch':
            tq = self.uni['txns'][o['txn']]
            td = txn_dict(tq)
            t0 = copy.deepcopy(td)
            before = self.snapshot()
            try:
                res['out'] = canon_match_result(self.engine.match(td, data_sources=self.ds_for(tq)))
            except Exception as e:  # noqa
                res['out'] = {'raise': type(e).__name__}
            after = self.snapshot()
            res['frame'] = self.diff(before, after) + ([] if td == t0 else ['transaction'])
        else:
            raise ValueError(kind)
        res['mutated'] = mutated_entries()
        ek, rk = set(expr_parser._expression_cache), set(expr_parser._regex_cache)
        res['ek'] = sorted(k if isinstance(k, str) else repr(k) for k in ek - self.seen_e)
        res['rk'] = sorted(k if isinstance(k, str) else repr(k) for k in rk - self.seen_r)
        res['lost'] = sorted(map(str, (self.seen_e - ek) | (self.seen_r - rk)))     # entries never disappear
        self.seen_e, self.seen_r = ek, rk
        ce = get_cached_engine()
        res['origin'] = self.origin.get(id(ce)) if ce is not None else None
        if ce is not None and id(ce) not in self.origin:
            res['origin'] = 'unknown'
        return res

    def classify_csv(self, t):
        """The same classification through parsers.parse_generic_csv on a one-row statement."""
        from tally.parsers import parse_generic_csv
        from tally.format_parser import parse_format_string
        import csv
        p = os.path.join(self.dir, 'statement.csv')
        kind = (t.get('field') or {}).get('kind', '')
        with open(p, 'w', encoding='utf-8', newline='') as fh:
            w = csv.writer(fh)
            w.writerow(['Date', 'Description', 'Amount', 'Kind'])
            w.writerow([t['date'], t['description'], repr(t['amount']), kind])
        spec = parse_format_string('{date:%Y-%m-%d},{description},{amount},{kind}')
        txns = parse_generic_csv(p, spec, self.rules, source_name=t.get('source') or 'CSV', transforms=self.transforms,
                                 data_sources=self.ds_for(t))
        out = []
        for x in txns:
            d = dict(x)
            d['match_info'] = canon_match_info(d.get('match_info'))
            d['tags'] = sorted(d.get('tags') or [])
            out.append(jsonable(d))
        return {'transactions': out}

    def close(self):
        shutil.rmtree(self.dir, ignore_errors=True)


def main():
    payload = json.load(sys.stdin)
    p = Proc(payload['universe'])
    try:
        hist = payload['history']
        results = [p.op(i, o) for i, o in enumerate(hist)]
        if payload.get('last_only'):
            results = results[-1:]
        json.dump({'results': results}, sys.stdout)
    finally:
        p.close()


main()
