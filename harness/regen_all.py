"""Regenerate every Gen/*.v from /repo's working tree (used by setup.sh). A translation failure
is not fatal here: the affected check reports it."""
import glob
import importlib
import os
import re
import sys
HERE = os.path.dirname(os.path.abspath(__file__))
sys.path.insert(0, HERE)
sys.path.insert(0, os.path.join(os.path.dirname(HERE), 'tools'))
for p in sorted(glob.glob(os.path.join(HERE, 'c[0-9][0-9].py'))):
    name = os.path.basename(p)[:-3]
    mod = importlib.import_module(name)
    if hasattr(mod, 'regen_gen'):
        try:
            fails = mod.regen_gen()
        except Exception as e:  # noqa
            fails = [repr(e)]
        for f in fails or []:
            print(f'[regen] {name}: translation failure: {f}')
