"""Regenerate every Gen/*.v from /repo's working tree (used by setup.sh). A translation failure
is not fatal here: the affected check reports it."""
import os
import sys
sys.path.insert(0, os.path.dirname(os.path.abspath(__file__)))
from common import *  # noqa
import c13

fails = c13.translate_classification(None)
for f in fails:
    print('[regen] translation failure:', f)
