"""C14 implementation runner (executed by /venv/bin/python with PYTHONPATH=$VERIF_REPO/src).

For every generated merchant_categories.csv text and its transactions, in a *fresh forked process per file*
(the parent never loads a rules file, so merchant_utils._cached_engine is None in every child — the C07
cache cannot leak between files):

  legacy   = normalize_merchant(desc, get_all_rules(csv), amount, txn_date)
  migrated = parse_merchants(csv_to_merchants_content(load_merchant_rules(csv))).match(txn)

both for the whole file and for every rule alone (a one-rule CSV), plus what the model needs to be compared
inside Coq: the loaded tuples, the generated text, the parsed engine rules (match expression as a mini AST),
per-rule match outcomes, and the answers of the library oracles (`re`, ast.literal_eval, legacy expression
evaluation) on exactly the queries the model makes."""
import ast
import datetime
import json
import multiprocessing
import os
import re
import sys
import tempfile
import warnings

warnings.simplefilter('ignore')

from tally import expr_parser, merchant_utils  # noqa: E402
from tally.merchant_engine import csv_to_merchants_content, parse_merchants  # noqa: E402
from tally.merchant_utils import get_all_rules, load_merchant_rules, normalize_merchant  # noqa: E402

WORKDIR = None


def err(e):
    return {'error': type(e).__name__, 'msg': str(e)[:200]}


def txn_dict(t):
    """The transaction dict normalize_merchant itself builds (amount/date always present here)."""
    d = {'description': t['d'], 'amount': float(t['a']), 'field': None, 'source': None, 'location': None}
    d['date'] = datetime.date.fromisoformat(t['dt'])
    return d


def legacy_one(rules, t):
    try:
        m, c, s, info = normalize_merchant(t['d'], rules, amount=float(t['a']),
                                           txn_date=datetime.date.fromisoformat(t['dt']))
    except Exception as e:  # noqa
        return err(e)
    if info is None or info.get('source') == 'auto':
        return {'matched': False, 'tags': sorted(set((info or {}).get('tags', [])))}
    return {'matched': True, 'm': m, 'c': c, 's': s, 'tags': sorted(set(info.get('tags', [])))}


def migrated_one(engine, t):
    try:
        r = engine.match(txn_dict(t))
    except Exception as e:  # noqa
        return err(e)
    if not r.matched:
        return {'matched': False, 'tags': sorted(r.tags)}
    return {'matched': True, 'm': r.merchant, 'c': r.category, 's': r.subcategory, 'tags': sorted(r.tags)}


def mini_ast(expr):
    """The match expression as the fragment the converter is meant to emit; None when outside it."""
    try:
        tree = expr_parser.parse_expression(expr)
    except Exception as e:  # noqa
        return {'error': type(e).__name__}
    body = tree.body
    vals = body.values if isinstance(body, ast.BoolOp) and isinstance(body.op, ast.And) else [body]
    ops = {ast.Gt: '>', ast.GtE: '>=', ast.Lt: '<', ast.LtE: '<=', ast.Eq: '=='}
    out = []
    for v in vals:
        if isinstance(v, ast.Name) and v.id.lower() == 'true' and len(vals) == 1:
            continue
        if (isinstance(v, ast.Call) and isinstance(v.func, ast.Name) and v.func.id == 'regex' and len(v.args) == 1
                and not v.keywords and isinstance(v.args[0], ast.Constant) and isinstance(v.args[0].value, str)):
            out.append(['re', v.args[0].value])
            continue
        if (isinstance(v, ast.Compare) and len(v.ops) == 1 and isinstance(v.ops[0], ast.Lt)
                and isinstance(v.comparators[0], ast.Constant) and v.comparators[0].value == 0.01
                and type(v.comparators[0].value) is float
                and isinstance(v.left, ast.Call) and isinstance(v.left.func, ast.Name) and v.left.func.id == 'abs'
                and len(v.left.args) == 1 and not v.left.keywords and isinstance(v.left.args[0], ast.BinOp)
                and isinstance(v.left.args[0].op, ast.Sub) and isinstance(v.left.args[0].left, ast.Name)
                and v.left.args[0].left.id == 'amount' and isinstance(v.left.args[0].right, ast.Constant)
                and type(v.left.args[0].right.value) in (int, float)):
            out.append(['near', repr(float(v.left.args[0].right.value))])      # abs(amount - v) < 0.01
            continue
        if (isinstance(v, ast.Compare) and len(v.ops) == 1 and isinstance(v.left, ast.Name)
                and type(v.ops[0]) in ops and isinstance(v.comparators[0], ast.Constant)):
            name, op, k = v.left.id, ops[type(v.ops[0])], v.comparators[0].value
            if name == 'amount' and type(k) in (int, float):
                out.append(['amt', op, repr(float(k))])
                continue
            if name == 'date' and isinstance(k, str):
                try:
                    out.append(['date', op, datetime.date.fromisoformat(k).toordinal()])
                    continue
                except ValueError:
                    return None
            if name == 'month' and type(k) is int and op == '==':
                out.append(['month', k])
                continue
        return None
    return out


def loaded_json(rule):
    pattern, merchant, category, subcategory, parsed, tags = rule
    ac = [{'op': c.operator, 'v': None if c.value is None else repr(c.value),
           'lo': None if c.min_value is None else repr(c.min_value),
           'hi': None if c.max_value is None else repr(c.max_value)} for c in parsed.amount_conditions]
    dc = []
    for c in parsed.date_conditions:
        dc.append({'op': c.operator, 'value': c.value.toordinal() if c.value else None,
                   'start': c.start_date.toordinal() if c.start_date else None,
                   'end': c.end_date.toordinal() if c.end_date else None, 'month': c.month, 'days': c.relative_days})
    return {'p': pattern, 'm': merchant, 'c': category, 's': subcategory, 'tags': tags, 'ac': ac, 'dc': dc}


def re_query(p, text):
    try:
        return bool(re.search(p, text, re.IGNORECASE))
    except re.error:
        return None
    except Exception as e:  # noqa  (RecursionError, OverflowError ...)
        return 'crash:' + type(e).__name__


def lit_eval(p):
    """What CPython reads when the pattern is written between double quotes (None: not a literal)."""
    try:
        tree = ast.parse('("' + p + '")', mode='eval')
    except (SyntaxError, ValueError):
        return None
    if isinstance(tree.body, ast.Constant) and isinstance(tree.body.value, str):
        return tree.body.value
    return None


def run_pair(csv_text, txns, tag):
    """Both paths on one CSV text."""
    path = os.path.join(WORKDIR, f'{tag}_merchant_categories.csv')
    with open(path, 'w', encoding='utf-8', newline='') as f:
        f.write(csv_text)
    out = {}
    try:
        rules = get_all_rules(path)
        loaded = load_merchant_rules(path)
    except Exception as e:  # noqa
        return {'loader': err(e)}
    out['legacy'] = [legacy_one(rules, t) for t in txns]
    try:
        content = csv_to_merchants_content(loaded)
    except Exception as e:  # noqa
        out['convert'] = err(e)
        return out
    out['content'] = content
    try:
        engine = parse_merchants(content)
        out['load'] = 'ok'
    except Exception as e:  # noqa
        out['load'] = err(e)
        engine = None
    if engine is not None:
        out['migrated'] = [migrated_one(engine, t) for t in txns]
        out['engine_rules'] = [{'name': r.name, 'm': r.merchant, 'c': r.category, 's': r.subcategory,
                                'tags': sorted(r.tags), 'expr': r.match_expr, 'ast': mini_ast(r.match_expr)}
                               for r in engine.rules]
    try:
        out['loaded'] = [loaded_json(r) for r in loaded]
    except Exception as e:  # noqa
        out['loaded_error'] = err(e)
    return out, loaded, engine


def one_file(arg):
    idx, case = arg
    assert getattr(merchant_utils, '_cached_engine', None) is None, 'engine cache not fresh'
    txns = case['txns']
    res = run_pair(case['csv'], txns, f'f{idx}')
    if isinstance(res, dict):
        return res
    out, loaded, engine = res
    out['pid'] = os.getpid()
    # every rule alone (one-rule CSV, rendered from the file's own header + that rule's own line)
    alone = []
    for j, line in enumerate(case.get('rule_lines') or []):
        r = run_pair(case['header'] + line, txns, f'f{idx}r{j}')
        if isinstance(r, dict):
            alone.append(r)
        else:
            a = r[0]
            alone.append({k: a.get(k) for k in ('legacy', 'migrated', 'load', 'content', 'engine_rules')} | {'n_loaded': len(r[1])})
    out['alone'] = alone
    # library oracles on the queries the model makes
    if case.get('want_oracles', True) and 'loaded' in out:
        req, lit, lx = [], [], []
        pats = []
        for r in loaded:
            p = r[0]
            if not isinstance(p, str):
                continue
            u = lit_eval(p) if ('"' not in p) else None
            lit.append([p, u])
            for q in {p, u} - {None}:
                if q not in pats:
                    pats.append(q)
        for t in txns:
            for text in {t['d'], t['d'].upper()}:
                for q in pats:
                    req.append([q, text, re_query(q, text)])
        for r in loaded:
            p = r[0]
            if isinstance(p, str) and p not in [q for q, _ in lx]:
                row = []
                for t in txns:
                    try:
                        row.append(bool(expr_parser.matches_transaction(p, txn_dict(t))))
                    except expr_parser.ExpressionError:
                        row.append(None)
                    except re.error:
                        row.append(None)
                    except Exception as e:  # noqa
                        row.append('crash:' + type(e).__name__)
                lx.append([p, row])
        out['re'], out['lit'], out['lx'] = req, lit, lx
    assert getattr(merchant_utils, '_cached_engine', None) is None, 'engine cache written during the case'
    return out


def lit_sweep(strings):
    """ast.literal_eval of '"' + s + '"' for the un-escaping correspondence: value | None (not a str literal)."""
    out = []
    for s in strings:
        out.append(lit_eval(s))
    return out


def main():
    global WORKDIR
    payload = json.load(sys.stdin)
    WORKDIR = tempfile.mkdtemp(prefix='c14_', dir=payload['workdir'])
    res = {'today': datetime.date.today().toordinal(), 'python': sys.version.split()[0]}
    files = payload.get('files', [])
    if files:
        ctx = multiprocessing.get_context('fork')
        with ctx.Pool(processes=min(4, max(1, len(files))), maxtasksperchild=1) as pool:
            res['files'] = pool.map(one_file, list(enumerate(files)), chunksize=1)
    if 'lit' in payload:
        res['lit'] = lit_sweep(payload['lit'])
    if 'probe' in payload:
        # one extra line appended to a complete rule block: what does MerchantEngine.parse make of it?
        obs = []
        for line in payload['probe']:
            content = '[Probe]\nmatch: true\ncategory: Z0\nsubcategory: Z1\ntags: z2\n' + line + '\n'
            try:
                eng = parse_merchants(content)
                obs.append([[r.name, r.merchant, r.category, r.subcategory, sorted(r.tags)] for r in eng.rules])
            except Exception as e:  # noqa
                obs.append(None)
        res['probe'] = obs
    if 'upper' in payload:
        res['upper'] = [s.upper() for s in payload['upper']]
    import shutil
    shutil.rmtree(WORKDIR, ignore_errors=True)
    json.dump(res, sys.stdout)


main()
