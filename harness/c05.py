"""C05 — every well-formed statement row becomes exactly one transaction, faithfully.

Proof: coq/theories/C05/Props.v over the executable model C05/Model.v (tokenised rows; float(text)
modelled exactly; strptime / csv / re / string.Formatter are library oracles) and Gen/C05Amount.v
(the literals of parse_amount, regenerated from /repo on every run by tools/c05_amount2coq.py).
Tie: parse_generic_csv (through resolve_source_format, called as commands/run.py calls it) vs the
model evaluated inside Coq (vm_compute) on generated statement files.
Search: the property restated on implementation outputs only (row independence = concatenation of
single-row runs, no non-finite / zero amounts, generator ground truth, sign-mode relations)."""
import csv
import io
import json
import math
import os
import random
import struct
from datetime import datetime, timedelta
from fractions import Fraction

from common import *
import c05_amount2coq

COQ_FILES = ['Gen/C05Amount.v', 'C05/Model.v', 'C05/Amount.v', 'C05/Proofs.v', 'C05/AmountProofs.v', 'C05/Csv.v', 'C05/CsvProofs.v',
             'C05/Cases.v', 'C05/Props.v']
IMPL = os.path.join(os.path.dirname(os.path.abspath(__file__)), 'impl_c05.py')
# the model variant compared with the implementation is C05/Model.v tree_variant (as_code for the unchanged tree)

SIG_NONFINITE = 'C05/non-finite-amount-accepted'
SIG_NONE_GROUP = 'C05/regex-unmatched-group-crash'


def regen_gen():
    try:
        regen('Gen/C05Amount.v', c05_amount2coq.translate(os.path.join(SRC, 'parsers.py')))
    except (c05_amount2coq.Untranslatable, SyntaxError, OSError) as e:
        return [{'translator': 'c05_amount2coq', 'error': str(e)}]
    return []


# =====================================================================================================
# generators
# =====================================================================================================
DATE_FORMATS = [None, '%Y-%m-%d', '%m/%d/%Y', '%d.%m.%Y', '%Y%m%d', '%m/%d/%y', '%d %b %y', '%Y-%m-%d %H:%M',
                '%d-%b-%Y']
CAP_NAMES = ['merchant', 'type', 'memo', 'cardholder', 'ref', 'a1', '_x', 'Kind']
DESCS = ['COFFEE SHOP', 'Café Zoë', 'ACME, Inc.', 'He said "hi"', 'multi\nline', ' padded ', ' nbsp　',
         'a;b', 'a|b', 'tab\there', 'SHOP CA', 'SHOP  NY ', 'x', '日本語 店', "O'Brien", 'emoji 🍕 TX', 'ends"',
         '"', 'a""b', '=1+1', '\x1cFS\x1f', 'UBER *TRIP WA', 'X\tTX\n', 'AB', 'lower ca', 'A:B', '{x}', '{0}',
         'NETFLIX.COM', '#', 'x CA', 'em\u2003sp']
CR_DESCS = ['cr\rhere', 'crlf\r\nx', '\r']      # universal-newline translation changes these cells: discarded

BLANKS = ['', ' ', '   ', '\t', ' ', '　 ']
BAD_DATES = ['notadate', '2024-13-45', '31/02/2024', '13/13/2013', '2024/01/02x', '0', '--', 'Jan', '99999999', 'nan']
PADS = ['', '', '', ' ', '  ', '\t', ' \t']
# amount cells with no ground truth attached (the model decides); some are defects' witnesses
ODD_AMOUNTS = ['1e3', '1E-2', '1_0', '1__0', '_1', '1_', '1_000.5_0', '1e999', '-1e999', '1e-400', '.5', '5.', '.', '+.5e-3',
               '1e', '1e+', '--5', '+-5', '- 5', '(5', '5)', '((5))', '()', '$', '( 5 )', '-$5', '$-5', '(-5)', '12,5', '1.5.2',
               '1,2,3', '1 000', '1.000', '1,000', '0x10', '1e5.0', '5 USD', 'USD 5', '5-', '£5', '¥500', '€ 5', '5 €',
               '1.797693134862315807e308', '1.797693134862315808e308', '2.4703282292062327e-324', '2.4703282292062328e-324',
               ' 5', '5　', '1 000', '\x1c5', '5\t', '+5', '005', '1e+05', '1E5', '($1,234.56)', '(1.234,56 €)',
               '١٢', '１２.５', '5²', 'five', '-', '+', 'e5', '.e5', '1.e5', '0e5', '1e0', '-0e0', '(0)', '$0.00']
FUZZ_TOKENS = ['0', '1', '5', '12', '007', '.', ',', '_', 'e', 'E', '+', '-', ' ', '(', ')', '$', '€', '£', 'inf', 'nan', 'Infinity',
               '\t', 'e5', 'e-3', '.5', '1,000', '1.000', '\xa0', '\x1c', 'INF', 'x']
NONFINITE = ['nan', 'NaN', 'inf', '-inf', 'Infinity', '+INF', '-nan', '(inf)', '$nan', 'iNfInItY']
ZEROS = ['0', '-0.00', '0.0', '+0', '0e9', '(0.00)', '$0', '.0', '0.', '00']
BAD_AMOUNTS = ['abc', '', ' ', 'N/A', '--', '1__0', '12abc']


def render_amount(rnd, val, conv):
    """A standard way of writing the non-zero rational `val` (finite decimal) under the decimal convention."""
    neg = val < 0
    a = abs(val)
    # decimal expansion
    nd = rnd.choice([0, 0, 0, 1, 2, 2, 3]) if a.denominator == 1 else None
    if nd is None:
        nd = 0
        while (a * 10 ** nd).denominator != 1:
            nd += 1
        nd = max(nd, rnd.choice([0, 2]))
    n = int(a * 10 ** nd)
    s = str(n).rjust(nd + 1, '0')
    ip, fp = (s[:-nd], s[-nd:]) if nd else (s, '')
    style = rnd.choice(['plain', 'plain', 'group', 'cur', 'curgroup', 'paren', 'cursuffix', 'plus', 'sp'])
    th = ',' if conv == '.' else rnd.choice(['.', ' '])
    if style in ('group', 'curgroup', 'cursuffix') or (style == 'paren' and rnd.random() < .5):
        g = ''
        for i, ch in enumerate(reversed(ip)):
            if i and i % 3 == 0:
                g = th + g
            g = ch + g
        ip = g
    body = ip + ((',' if conv == ',' else '.') + fp if fp else '')
    cur = rnd.choice(['$', '€', '£', '¥'])
    sign = '-' if neg else ''
    if style == 'paren' and neg:
        out = '(' + rnd.choice(['', cur]) + body + ')'
    elif style in ('cur', 'curgroup'):
        out = rnd.choice([sign + cur + body, cur + sign + body, cur + ' ' + body if not sign else sign + cur + body])
    elif style == 'cursuffix':
        out = sign + body + rnd.choice([' ', '']) + cur
    elif style == 'plus' and not neg:
        out = '+' + body
    else:
        out = sign + body
    return rnd.choice(PADS) + out + rnd.choice(PADS)


def gen_value(rnd):
    k = rnd.random()
    if k < .5:
        c = rnd.randint(1, 10 ** rnd.choice([2, 4, 6, 9]))
        v = Fraction(c, 100)
    elif k < .7:
        v = Fraction(rnd.randint(1, 10 ** rnd.choice([1, 3, 7])))
    elif k < .85:
        v = Fraction(rnd.randint(1, 2 ** 20), 64)
    else:
        v = Fraction(rnd.randint(1, 10 ** 6), 1000)
    return -v if rnd.random() < .45 else v


def gen_layout(rnd):
    mode = rnd.choice(['desc', 'desc', 'extra', 'template', 'template'])
    roles = ['date', 'amount']
    names = rnd.sample(CAP_NAMES, rnd.randint(1, 3))
    if mode == 'desc':
        roles.append('description')
    elif mode == 'extra':
        roles += ['description'] + names
    else:
        roles += names
    if rnd.random() < .4:
        roles.append('location')
    roles += [rnd.choice(['_', '*']) for _ in range(rnd.choice([0, 0, 1, 2]))]
    rnd.shuffle(roles)
    if mode != 'desc' and rnd.random() < .3:           # a capture in the last column (column-guard boundary)
        i = max(i for i, r in enumerate(roles) if r in names)
        roles[i], roles[-1] = roles[-1], roles[i]
    return mode, roles, names


def gen_source(rnd, corpus_override=None):
    mode, roles, names = gen_layout(rnd)
    fmt = rnd.choice(DATE_FORMATS)
    sign = rnd.choice(['', '', '', '-', '+'])
    parts = []
    for r in roles:
        if r == 'date':
            parts.append('{date}' if fmt is None else '{%s:%s}' % (rnd.choice(['date', 'date', 'Date']), fmt))
        elif r == 'amount':
            parts.append('{%samount}' % sign)
        else:
            parts.append('{%s}' % r)
    src = {'name': rnd.choice(['Bank', 'AMEX', 'Ünï-Kredit', 'my card', 'S']), 'file': 'statement.csv',
           'format': rnd.choice([', ', ',', ' , ']).join(parts)}
    tmpl_pieces = None
    if mode == 'template':
        tmpl_pieces = []
        for _ in range(rnd.randint(1, 4)):
            if rnd.random() < .6:
                tmpl_pieces.append(('ref', rnd.choice(names).lower()))
            else:
                tmpl_pieces.append(('lit', rnd.choice([' ', ' - ', ' (', ')', '{{', '}}', 'é', ' CA', '/', ''])))
        if not any(k == 'ref' for k, _ in tmpl_pieces):
            tmpl_pieces.insert(rnd.randint(0, len(tmpl_pieces)), ('ref', names[0].lower()))
        src['columns'] = {'description': ''.join('{' + v + '}' if k == 'ref' else v for k, v in tmpl_pieces)}
    kind = rnd.choice(['comma', 'comma', 'char', 'tab', 'regex'])
    delim_char, regex, opt_last = ',', None, False
    if kind == 'comma':
        if rnd.random() < .15:
            src['delimiter'] = ','
    elif kind == 'char':
        delim_char = rnd.choice([';', '|', ' ', ':', '\t'])
        src['delimiter'] = delim_char
    elif kind == 'tab':
        delim_char = '\t'
        src['delimiter'] = 'tab'
    else:
        n = len(roles)
        opt_last = rnd.random() < .35
        anch = rnd.choice(['$', '', r'\s*$'])
        if opt_last and n >= 2:
            regex = r'\|'.join([r'([^|]*)'] * (n - 1)) + r'(?:\|([^|]*))?' + anch
        else:
            opt_last = False
            regex = r'\|'.join([r'([^|]*)'] * n) + anch
        src['delimiter'] = 'regex:' + regex
    h = rnd.random()
    if h < .3:
        src['has_header'] = False
    elif h < .5:
        src['has_header'] = True
    if rnd.random() < .15:
        src['negate_amount'] = rnd.random() < .7
    d = rnd.random()
    conv = '.'
    if d < .3:
        src['decimal_separator'] = conv = ','
    elif d < .4:
        src['decimal_separator'] = '.'
    has_header = src.get('has_header', True)
    lay = {'mode': mode, 'roles': roles, 'names': [x.lower() for x in names], 'date_format': fmt or '%m/%d/%Y',
           'conv': conv, 'kind': 'regex' if regex else 'csv', 'delim_char': delim_char, 'regex': regex,
           'opt_last': opt_last, 'tmpl_pieces': tmpl_pieces, 'has_header': has_header}
    return src, lay


def gen_date(rnd, fmt):
    dt = datetime(1990, 1, 1) + timedelta(days=rnd.randint(0, 16000), hours=rnd.randint(0, 23), minutes=rnd.randint(0, 59))
    s = dt.strftime(fmt)
    exp = datetime.strptime(s, fmt)          # the generator's own statement of which date it wrote
    return s, exp.isoformat()


def gen_row(rnd, lay):
    """One table row: cells + ground truth (None when the generator makes no claim)."""
    roles, fmt, conv = lay['roles'], lay['date_format'], lay['conv']
    regexk = lay['kind'] == 'regex'
    n = len(roles)
    kind = rnd.choices(['good', 'short', 'long', 'blankline', 'baddate', 'blankdesc', 'odd', 'nonfinite', 'zero', 'badamount',
                        'blankdate', 'fuzz', 'widthdate'], [44, 8, 5, 4, 6, 5, 10, 4, 4, 4, 2, 8, 5])[0]
    if kind == 'blankline':
        return {'blank': True, 'kind': kind, 'truth': 'reject'}
    cells, caps = [], {}
    ds, diso = gen_date(rnd, fmt)
    val = gen_value(rnd)
    truth = 'accept'
    desc_txt = None
    for r in roles:
        if r == 'date':
            c = ds
            if kind == 'baddate':
                c, truth = rnd.choice(BAD_DATES), 'reject'
            elif kind == 'blankdate':
                c, truth = rnd.choice(BLANKS), 'reject'
            elif kind == 'widthdate':      # right separators, all digits, other digit counts: strptime is the reference
                c = rnd.choice(date_width_variants(fmt, rnd.randint(2001, 2031), rnd.randint(1, 12), rnd.randint(1, 28)) or [ds])
                ref = strptime_ref(c, fmt)
                if ref is None:
                    truth = 'reject'
                else:
                    diso = ref
            elif ' ' not in fmt and rnd.random() < .12:
                c = ds + rnd.choice(['  Mon', ' Tue', '\tx', ' Wed extra'])      # day suffix is dropped by the reader
            c = rnd.choice(PADS) + c + rnd.choice(PADS)
        elif r == 'amount':
            if kind == 'odd':
                c, truth = rnd.choice(ODD_AMOUNTS), None
            elif kind == 'fuzz':       # random strings over the alphabet of float() / parse_amount
                c, truth = ''.join(rnd.choice(FUZZ_TOKENS) for _ in range(rnd.randint(1, 6))), None
            elif kind == 'nonfinite':
                c, truth = rnd.choice(NONFINITE), 'reject'
            elif kind == 'zero':
                c, truth = rnd.choice(ZEROS), 'reject'
            elif kind == 'badamount':
                c, truth = rnd.choice(BAD_AMOUNTS), 'reject'
            else:
                c = render_amount(rnd, val, conv)
        elif r == 'description':
            c = rnd.choice(DESCS) if rnd.random() > .01 else rnd.choice(CR_DESCS)
            if kind == 'blankdesc':
                c, truth = rnd.choice(BLANKS), 'reject'
            desc_txt = c.strip()
        elif r == 'location':
            c = rnd.choice(['', '', 'CA', ' NY ', 'Berlin', ' ', 'tx'])
        elif r in ('_', '*'):
            c = rnd.choice(['', 'junk', '12.00', '"', 'a,b'])
        else:
            c = rnd.choice(DESCS + ['', ' '])
            if kind == 'blankdesc' and lay['mode'] == 'template':
                c = rnd.choice(BLANKS)
            caps[r.lower()] = c.strip()
        cells.append(c)
    if lay['mode'] == 'template':
        desc_txt = ''.join(caps[v] if k == 'ref' else v.replace('{{', '{').replace('}}', '}') for k, v in lay['tmpl_pieces'])
        if desc_txt == '':
            truth = 'reject'
        elif kind == 'blankdesc' and truth == 'accept':
            truth = None
    if regexk:
        cells = [c.replace('|', '/').replace('\n', ' ').replace('\r', ' ') for c in cells]
        caps = {k: v.replace('|', '/').replace('\n', ' ').replace('\r', ' ').strip() for k, v in caps.items()}
        if desc_txt is not None:
            desc_txt = desc_txt.replace('|', '/').replace('\n', ' ').replace('\r', ' ').strip() if lay['mode'] != 'template' else \
                ''.join(caps[v] if k == 'ref' else v.replace('{{', '{').replace('}}', '}') for k, v in lay['tmpl_pieces'])
    if desc_txt == '' and truth == 'accept':
        truth = 'reject'           # a cell that is blank once tokenised
    req = [i for i, r in enumerate(roles) if r not in ('_', '*')]
    max_col = max(req)
    if kind == 'short':
        keep = rnd.choice([max_col, max_col, max_col, rnd.randint(0, max_col)])
        cells = cells[:keep]
        truth = 'reject'
        if regexk and lay['opt_last'] and keep == n - 1:
            truth = None           # the optional last group does not take part: the tokeniser still yields n cells
    elif kind == 'long':
        cells = cells + [rnd.choice(['', 'extra', '9.99'])] * rnd.randint(1, 3)
        if regexk:
            truth = None           # whether the line still matches depends on the pattern's anchor
    elif len(cells) <= max_col:
        truth = 'reject'
    row = {'cells': cells, 'kind': kind, 'truth': truth}
    if regexk:
        row['pad'] = rnd.choice(['', '', ' ', '\t'])
    if truth == 'accept':
        row['expect'] = {'date': diso, 'desc': desc_txt, 'value': [val.numerator, val.denominator],
                         'field': sorted(caps.items()) if caps else None}
    return row


def gen_case(rnd, nrows=None):
    src, lay = gen_source(rnd)
    k = nrows if nrows is not None else rnd.choice([1, 2, 3, 4, 6, 8, 12])
    rows = [gen_row(rnd, lay) for _ in range(k)]
    if rows and rnd.random() < .3:         # the same row again, right after itself or later (no state may leak between rows)
        i = rnd.randrange(len(rows))
        rows.insert(rnd.choice([i + 1, i + 1, len(rows)]), json.loads(json.dumps(rows[i])))
    header = [r.upper() if r not in ('_', '*') else 'X' for r in lay['roles']]
    if rnd.random() < .1:
        header = rnd.choice([[], ['only'], header + ['more'], ['2024-01-02', 'looks like data', '5.00']])
    elif rnd.random() < .3:        # the header is one csv RECORD: cells with line breaks, quotes, delimiters
        header = [mangle_header_cell(rnd, h) if rnd.random() < .5 else h for h in header]
    if lay['kind'] == 'regex':     # ... but one physical line for a regex delimiter
        header = [h.replace('\n', ' ').replace('|', '/') for h in header]
    case = {'source': src, 'lay': lay, 'rows': rows, 'header': header,
            'quoting': rnd.choice([csv.QUOTE_MINIMAL, csv.QUOTE_MINIMAL, csv.QUOTE_ALL]), 'lt': rnd.choice(['\n', '\r\n', '\n'])}
    return case


def strptime_ref(text, fmt):
    """What datetime.strptime makes of the text the reader hands it (strip; first token when the format has no blank)."""
    t = text.strip()
    if ' ' not in fmt and t:
        t = t.split()[0]
    try:
        return datetime.strptime(t, fmt).isoformat()
    except ValueError:
        return None


def date_width_variants(fmt, y, m, d):
    """The date y-m-d written under a numeric format with every combination of field widths (2/3/4/5-digit years,
    unpadded / padded / over-padded months and days)."""
    if not re.fullmatch(r'(%[dmYy][/.\- ]?){3}', fmt):
        return []
    ys = [str(y), '%02d' % (y % 100), '0' + str(y), '%03d' % (y % 1000), str(y % 10), str(y) + '0']
    ms = ['%02d' % m, str(m), '%03d' % m]
    ds_ = ['%02d' % d, str(d), '%03d' % d]
    out = []
    for yy in ys:
        for mm in ms:
            for dd in ds_:
                out.append(fmt.replace('%Y', yy).replace('%y', yy).replace('%m', mm).replace('%d', dd))
    return out


NUMERIC_DATE_FORMATS = ['%m/%d/%Y', '%d/%m/%Y', '%Y/%m/%d', '%d.%m.%Y', '%Y.%m.%d', '%Y-%m-%d', '%m-%d-%Y', '%d-%m-%Y', '%Y%m%d',
                        '%m/%d/%y', '%d.%m.%y']


def date_corpus():
    """Every numeric date layout x every field-width combination of three dates (+ the seeds' literal cells); the row is
    well-formed exactly when datetime.strptime accepts the cell."""
    out = []
    for k, fmt in enumerate(NUMERIC_DATE_FORMATS):
        cells = []
        for (y, m, d) in [(2024, 3, 15), (2005, 4, 3), (2012, 12, 31)]:
            cells += date_width_variants(fmt, y, m, d)
        cells += ['03/15/24', '3/4/5', '003/015/2024', '12/31/02024', '24-03-15', '024-01-09', '2024-1-9', '15.3.24', '1.1.1',
                  '2024/03/15/', '/03/15/2024', '03//15/2024', '03/15/2024/1', '+3/15/2024', '3/ 15/2024', '٣/15/2024']
        cells = list(dict.fromkeys(cells))
        for off in range(0, len(cells), 12):
            src = {'name': 'Bank', 'format': '{date:%s}, {description}, {amount}' % fmt, 'has_header': False}
            if fmt == '%m/%d/%Y' and (off // 12) % 2:
                src['format'] = '{date}, {description}, {amount}'        # the default date format
            rows = []
            for j, c in enumerate(cells[off:off + 12]):
                ref = strptime_ref(c, fmt)
                row = {'cells': [c, 'DATED %d' % j, '%d.25' % (j + 1)], 'kind': 'widthdate', 'truth': 'accept' if ref else 'reject'}
                if ref:
                    row['expect'] = {'date': ref, 'desc': 'DATED %d' % j, 'value': [4 * (j + 1) + 1, 4], 'field': None}
                rows.append(row)
            lay = {'mode': 'desc', 'roles': ['date', 'description', 'amount'], 'names': [], 'date_format': fmt, 'conv': '.',
                   'kind': 'csv', 'delim_char': ',', 'regex': None, 'opt_last': False, 'tmpl_pieces': None, 'has_header': False}
            out.append({'source': src, 'lay': lay, 'rows': rows, 'header': [], 'quoting': csv.QUOTE_MINIMAL, 'lt': '\n'})
    return out


def settings_corpus():
    """amount token {amount, -amount, +amount} x negate_amount {absent, true, false} x has_header {absent, true, false}
    x delimiter {absent, ',', ';', 'tab'}: explicit settings override what the format string / defaults say."""
    out = []
    vals = [('COFFEE', '4.50', Fraction(9, 2)), ('REFUND', '-12.00', Fraction(-12)), ('PAREN', '(3.25)', Fraction(-13, 4))]
    n = 0
    for tok in ['', '-', '+']:
        for neg in [None, True, False]:
            for hh in [None, True, False]:
                dl = [None, ',', ';', 'tab'][n % 4]
                n += 1
                src = {'name': 'Bank', 'format': '{date:%%Y-%%m-%%d}, {description}, {%samount}' % tok}
                if neg is not None:
                    src['negate_amount'] = neg
                if hh is not None:
                    src['has_header'] = hh
                if dl is not None:
                    src['delimiter'] = dl
                rows = []
                for j, (de, am, v) in enumerate(vals):
                    rows.append({'cells': ['2024-05-%02d' % (1 + j), de, am], 'kind': 'good', 'truth': 'accept',
                                 'expect': {'date': '2024-05-%02dT00:00:00' % (1 + j), 'desc': de, 'value': [v.numerator, v.denominator],
                                            'field': None}})
                lay = {'mode': 'desc', 'roles': ['date', 'description', 'amount'], 'names': [], 'date_format': '%Y-%m-%d', 'conv': '.',
                       'kind': 'csv', 'delim_char': {None: ',', ',': ',', ';': ';', 'tab': '\t'}[dl], 'regex': None, 'opt_last': False,
                       'tmpl_pieces': None, 'has_header': True if hh is None else hh}
                out.append({'source': src, 'lay': lay, 'rows': rows, 'header': ['2024-05-09', 'LOOKS LIKE DATA', '1.00'],
                            'quoting': csv.QUOTE_MINIMAL, 'lt': '\n'})
    return out


def memo_corpus():
    """State must not leak from one row (or one file) to the next: the SAME malformed date / amount / description cell
    repeated after a good row (adjacent, non-adjacent, at the start of the file, at the start of the next file)."""
    out = []

    def good(j, de='SHOP'):
        return {'cells': ['2024-06-%02d' % j, '%s %d' % (de, j), '%d.50' % j], 'kind': 'good', 'truth': 'accept',
                'expect': {'date': '2024-06-%02dT00:00:00' % j, 'desc': '%s %d' % (de, j), 'value': [2 * j + 1, 2], 'field': None}}

    def bad(cells):
        return {'cells': cells, 'kind': 'repeated-bad', 'truth': 'reject'}
    for bd in ['Pending', '2024-13-45', '06/05/2024', '2024-06-5x', 'n/a']:
        patterns = [
            [good(5), bad([bd, 'GAS', '40.00']), bad([bd, 'GAS AGAIN', '41.00']), good(7)],                      # adjacent
            [good(5), bad([bd, 'GAS', '40.00']), bad([bd, 'GAS', '40.00']), bad([bd, 'THIRD', '1.00']), good(7)],
            [good(5), bad([bd, 'GAS', '40.00']), good(6), bad([bd, 'GAS AGAIN', '41.00']), good(7)],             # non-adjacent
            [bad([bd, 'FIRST', '40.00']), bad([bd, 'SECOND', '41.00']), good(7)],                                # nothing parsed yet
            [bad([' ' + bd + ' ', 'PADDED', '40.00']), bad([bd, 'SECOND', '41.00'])],                            # next file starts with it
        ]
        for k, rows in enumerate(patterns):
            src = {'name': 'Bank', 'format': '{date:%Y-%m-%d}, {description}, {amount}', 'has_header': bool(k % 2)}
            lay = {'mode': 'desc', 'roles': ['date', 'description', 'amount'], 'names': [], 'date_format': '%Y-%m-%d', 'conv': '.',
                   'kind': 'csv', 'delim_char': ',', 'regex': None, 'opt_last': False, 'tmpl_pieces': None, 'has_header': bool(k % 2)}
            out.append({'source': src, 'lay': lay, 'rows': rows, 'header': ['D', 'T', 'A'], 'quoting': csv.QUOTE_MINIMAL, 'lt': '\n'})
    # the same for a repeated malformed amount and a repeated blank description
    for cells in [['2024-06-09', 'BAD AMOUNT', 'abc'], ['2024-06-09', 'BAD AMOUNT', '0.00'], ['2024-06-09', ' ', '3.00'],
                  ['2024-06-09', 'SHORT']]:
        rows = [good(5), bad(list(cells)), bad(list(cells)), good(7), bad(list(cells))]
        src = {'name': 'Bank', 'format': '{date:%Y-%m-%d}, {description}, {amount}', 'has_header': False}
        lay = {'mode': 'desc', 'roles': ['date', 'description', 'amount'], 'names': [], 'date_format': '%Y-%m-%d', 'conv': '.',
               'kind': 'csv', 'delim_char': ',', 'regex': None, 'opt_last': False, 'tmpl_pieces': None, 'has_header': False}
        out.append({'source': src, 'lay': lay, 'rows': rows, 'header': [], 'quoting': csv.QUOTE_MINIMAL, 'lt': '\n'})
    return out


def mangle_header_cell(rnd, h):
    return rnd.choice([h + '\n', '\n' + h, h[:2] + '\n' + h[2:], h + '\n(USD)', '\n', h + '\n\n', '"' + h, h + '"', h + ',;\t|', 'a""b\n',
                       ' ' + h + ' \n'])


HEADER_VARIANTS = [['Date', 'Description', 'Amount\n'], ['Date\n', 'Description', 'Amount'], ['Date', 'Description\n', 'Amount'],
                   ['Posting\nDate', 'Description', 'Amount\n(USD)'], ['\nDate', '\n', 'Amount\n\n'], ['\n', '', ''], ['\n'],
                   ['"', 'a""b\n', 'x"'], ['Date', 'Desc,ription;x\ty', 'Amount'], ['Date', 'Description', 'Amount', 'Extra\n'], []]


def header_corpus():
    """Every header shape x comma / ';' / tab / '|' delimiter, three well-formed rows (one with a quoted cell) + ground truth."""
    out = []
    for hv in HEADER_VARIANTS:
        for dl in [',', ';', '\t', '|']:
            src = {'name': 'Bank', 'format': '{date:%Y-%m-%d}, {description}, {amount}'}
            if dl != ',':
                src['delimiter'] = 'tab' if dl == '\t' and len(out) % 2 else dl
            if len(out) % 3 == 0:
                src['has_header'] = True
            rows = []
            for j, (de, am, v) in enumerate([('COFFEE', '4.50', Fraction(9, 2)), ('TEA HOUSE', '-12.00', Fraction(-12)),
                                             ('He said "hi"' + dl + ' x', '7', Fraction(7)), ('LAST', '1.25', Fraction(5, 4))]):
                rows.append({'cells': ['2024-04-%02d' % (1 + j), de, am], 'kind': 'good', 'truth': 'accept',
                             'expect': {'date': '2024-04-%02dT00:00:00' % (1 + j), 'desc': de.strip(), 'value': [v.numerator, v.denominator],
                                        'field': None}})
            lay = {'mode': 'desc', 'roles': ['date', 'description', 'amount'], 'names': [], 'date_format': '%Y-%m-%d', 'conv': '.',
                   'kind': 'csv', 'delim_char': dl, 'regex': None, 'opt_last': False, 'tmpl_pieces': None, 'has_header': True}
            out.append({'source': src, 'lay': lay, 'rows': rows, 'header': hv, 'quoting': csv.QUOTE_MINIMAL,
                        'lt': '\r\n' if len(out) % 4 == 1 else '\n'})
    return out


def written_amounts(conv):
    """Systematic family of ways of WRITING a number under a decimal convention, with the number written
    (the direct, implementation-side form of c05_amount_value): digit groups joined by the convention's thousands
    separator (any group sizes; also a leading / trailing separator), with and without a decimal part, signs,
    parentheses, currency symbols.  The value is computed from the digits, never by float()."""
    point = ',' if conv == ',' else '.'
    seps = [','] if conv == '.' else ['.', ' ']
    ints = [['1', '250'], ['12', '500'], ['1', '2'], ['1', '5'], ['7'], ['100'], ['1', '234', '567'], ['0', '5'], ['1', '000']]
    fracs = [None, '', '5', '50', '056', '00']
    out = []

    def add(cell, groups, fr, neg):
        digits = ''.join(groups)
        f = fr or ''
        v = Fraction(int((digits + f) or '0'), 10 ** len(f))
        if v != 0:
            out.append((cell, -v if neg else v))
    for th in seps:
        for groups in ints:
            for fr in fracs:
                body = th.join(groups) + ('' if fr is None else point + fr)
                add(body, groups, fr, False)
                add('-' + body, groups, fr, True)
            joined = th.join(groups)
            if th != ' ':                       # a blank at the edge of the cell is stripped anyway
                add(th + joined, groups, None, False)            # leading thousands separator
                add(joined + th, groups, None, False)            # trailing thousands separator
                add('-' + th + joined, groups, None, True)
                add(joined + th + point + '5', groups, '5', False)
            add('+' + joined, groups, None, False)
            add('(' + joined + ')', groups, None, True)
            add('$' + joined, groups, None, False)
            add('-€' + joined, groups, None, True)
            add(joined + ' €', groups, None, False)
            add('  ' + joined + '\t', groups, None, False)
    # decimal part only
    for fr in ['5', '05', '125']:
        add(point + fr, [], fr, False)
        add('-' + point + fr, [], fr, True)
    seen, uniq = set(), []
    for c, v in out:
        if c not in seen:
            seen.add(c)
            uniq.append((c, v))
    return uniq


def amount_corpus():
    """Files whose rows are the written_amounts of each convention (ground truth attached), as plain / negated / absolute."""
    out = []
    for conv in ('.', ','):
        forms = written_amounts(conv)
        for k, off in enumerate(range(0, len(forms), 12)):
            sign = ['', '', '-', '+'][k % 4]
            src = {'name': 'Bank', 'format': '{date:%%Y-%%m-%%d}, {description}, {%samount}' % sign, 'has_header': False}
            if conv == ',' or k % 2:
                src['decimal_separator'] = conv
            rows = []
            for j, (cell, v) in enumerate(forms[off:off + 12]):
                rows.append({'cells': ['2024-03-%02d' % (1 + j), 'WRITTEN %d' % j, cell], 'kind': 'written', 'truth': 'accept',
                             'expect': {'date': '2024-03-%02dT00:00:00' % (1 + j), 'desc': 'WRITTEN %d' % j,
                                        'value': [v.numerator, v.denominator], 'field': None}})
            lay = {'mode': 'desc', 'roles': ['date', 'description', 'amount'], 'names': [], 'date_format': '%Y-%m-%d', 'conv': conv,
                   'kind': 'csv', 'delim_char': ',', 'regex': None, 'opt_last': False, 'tmpl_pieces': None, 'has_header': False}
            out.append({'source': src, 'lay': lay, 'rows': rows, 'header': [], 'quoting': csv.QUOTE_MINIMAL, 'lt': '\n'})
    return out


def corpus_cases():
    """Hand-written cases that always run first (defect witnesses and boundary layouts)."""
    out = []

    def mk(src, lay_extra, rows, header=None):
        lay = {'mode': 'desc', 'roles': ['date', 'description', 'amount'], 'names': [], 'date_format': '%Y-%m-%d', 'conv': '.',
               'kind': 'csv', 'delim_char': ',', 'regex': None, 'opt_last': False, 'tmpl_pieces': None,
               'has_header': src.get('has_header', True)}
        lay.update(lay_extra)
        out.append({'source': src, 'lay': lay, 'rows': rows, 'header': header if header is not None else ['D', 'T', 'A'],
                    'quoting': csv.QUOTE_MINIMAL, 'lt': '\n'})
    good = {'cells': ['2024-01-05', 'TEA HOUSE', '4.50'], 'kind': 'good', 'truth': 'accept',
            'expect': {'date': '2024-01-05T00:00:00', 'desc': 'TEA HOUSE', 'value': [9, 2], 'field': None}}
    for a in ['nan', 'inf', '-inf', 'Infinity', '1e999']:
        mk({'name': 'Bank', 'format': '{date:%Y-%m-%d}, {description}, {amount}'}, {},
           [dict(good), {'cells': ['2024-01-02', 'COFFEE', a], 'kind': 'nonfinite', 'truth': 'reject'}])
    rx = r'([^|]*)\|([^|]*)\|([^|]*)(?:\|([^|]*))?$'
    mk({'name': 'Bank', 'format': '{date:%Y-%m-%d}, {description}, {amount}, {location}', 'delimiter': 'regex:' + rx},
       {'roles': ['date', 'description', 'amount', 'location'], 'kind': 'regex', 'regex': rx, 'opt_last': True},
       [{'cells': ['2024-01-05', 'TEA HOUSE', '4.50', 'CA'], 'kind': 'good', 'truth': 'accept', 'pad': '',
         'expect': {'date': '2024-01-05T00:00:00', 'desc': 'TEA HOUSE', 'value': [9, 2], 'field': None}},
        {'cells': ['2024-01-06', 'NO LOCATION', '5.00'], 'kind': 'short', 'truth': None, 'pad': ''}],
       header=['D', 'T', 'A', 'L'])
    # both sign settings at once: {+amount} with negate_amount: true -> absolute value wins
    mk({'name': 'Bank', 'format': '{date:%Y-%m-%d}, {description}, {+amount}', 'negate_amount': True}, {},
       [{'cells': ['2024-01-05', 'REFUND', '-4.50'], 'kind': 'good', 'truth': 'accept',
         'expect': {'date': '2024-01-05T00:00:00', 'desc': 'REFUND', 'value': [-9, 2], 'field': None}}])
    # capture in the last column, row exactly one cell short
    mk({'name': 'Bank', 'format': '{date:%Y-%m-%d}, {amount}, {merchant}', 'columns': {'description': 'x{merchant}'}},
       {'mode': 'template', 'roles': ['date', 'amount', 'merchant'], 'names': ['merchant'],
        'tmpl_pieces': [('lit', 'x'), ('ref', 'merchant')]},
       [{'cells': ['2024-01-05', '4.50'], 'kind': 'short', 'truth': 'reject'},
        {'cells': ['2024-01-06', '5.50', 'SHOP'], 'kind': 'good', 'truth': 'accept',
         'expect': {'date': '2024-01-06T00:00:00', 'desc': 'xSHOP', 'value': [11, 2], 'field': [('merchant', 'SHOP')]}}])
    return out + amount_corpus() + header_corpus() + date_corpus() + settings_corpus() + memo_corpus()


# =====================================================================================================
# file text
# =====================================================================================================
def record_text(case, row):
    lay = case['lay']
    if lay['kind'] == 'regex':
        if row.get('blank'):
            return row.get('pad', '') + '\n'
        return row.get('pad', '') + '|'.join(row['cells']) + row.get('pad', '') + '\n'
    if row.get('blank'):
        return case['lt']
    buf = io.StringIO()
    csv.writer(buf, delimiter=lay['delim_char'], quoting=case['quoting'], lineterminator=case['lt']).writerow(row['cells'])
    return buf.getvalue()


def header_text(case):
    if not case['lay']['has_header']:
        return ''
    return record_text(case, {'cells': case['header'], 'pad': ''})


def file_text(case, rows):
    return header_text(case) + ''.join(record_text(case, r) for r in rows)


def intended_records(case):
    recs = [list(case['header'])] if case['lay']['has_header'] else []
    for r in case['rows']:
        recs.append([] if r.get('blank') else list(r['cells']))
    return recs


def payload_of(case, singles=True, variants=True):
    p = {'source': case['source'], 'kind': case['lay']['kind'], 'delim_char': case['lay']['delim_char'],
         'regex': case['lay']['regex'], 'text': file_text(case, case['rows'])}
    if singles:
        p['singles'] = [file_text(case, [r]) for r in case['rows']]
    if variants:
        p['variants'] = sign_variants(case['source'])
    return p


def sign_variants(src):
    out = []
    for s in ('', '-', '+'):
        v = {k: x for k, x in src.items() if k != 'negate_amount'}
        v['format'] = re.sub(r'\{[-+]?amount\}', '{%samount}' % s, src['format'])
        out.append(v)
    return out


# =====================================================================================================
# direct oracle: the property restated on implementation outputs only
# =====================================================================================================
def amt_fraction(h):
    """implementation amount ('nan' | 'inf' | '-inf' | float.hex()) -> Fraction or the string"""
    if h in ('nan', 'inf', '-inf'):
        return h
    if h.startswith('nonfloat'):
        return h
    return Fraction(float.fromhex(h))


def correctly_rounded(val):
    """the binary64 nearest to the exact rational (int/int true division is correctly rounded)"""
    return Fraction(val.numerator / val.denominator)


def mode_of(spec):
    return 'abs' if spec['abs_amount'] else ('neg' if spec['negate_amount'] else 'plain')


def expected_mode(src):
    """The sign mode the SOURCE asks for: {+amount} = absolute value; otherwise the negate_amount setting when it is
    given (true or false), else the {-amount} prefix.  Computed from the settings, never from the implementation."""
    m = re.search(r'\{([-+]?)amount\}', src['format'], re.I)
    tok = m.group(1) if m else ''
    if tok == '+':
        return 'abs'
    neg = bool(src['negate_amount']) if 'negate_amount' in src else (tok == '-')
    return 'neg' if neg else 'plain'


def apply_mode_q(mode, v):
    return abs(v) if mode == 'abs' else (-v if mode == 'neg' else v)


def strip_amount(t):
    return {k: v for k, v in t.items() if k not in ('amount', 'is_credit')}


def oracle(case, r):
    """-> list of (law, detail) that fail on the implementation's outputs for this case."""
    bad = []
    full = r['full']
    if 'error' in full:
        return [('parse-raises:' + full['error'], full.get('message', ''))]
    txns = full['txns']
    # (1) non-finite / zero amounts never appear; is_credit is the sign
    for t in txns:
        a = amt_fraction(t['amount'])
        if isinstance(a, str):
            bad.append(('non-finite-amount', t))
        elif a == 0:
            bad.append(('zero-amount', t))
        elif t['is_credit'] != (a < 0):
            bad.append(('is-credit-not-sign', t))
    # (2) rows are read independently: output = concatenation of the single-row runs, each of <= 1 transaction
    if 'singles' in r:
        cat = []
        for i, s in enumerate(r['singles']):
            if 'error' in s:
                bad.append(('single-row-raises:' + s['error'], {'row': i}))
                continue
            if len(s['txns']) > 1:
                bad.append(('row-yields-several-transactions', {'row': i}))
            cat += s['txns']
        if not any(l.startswith('single-row-raises') for l, _ in bad) and cat != txns:
            bad.append(('not-concatenation-of-single-row-runs', {'full': len(txns), 'concatenated': len(cat)}))
    # (3) generator ground truth: rows written well-formed appear, faithfully, in order; malformed ones do not
    #     (only when CPython's csv.reader gives back the cells that were written)
    tokens_ok = 'lib' in r and (case['lay']['kind'] != 'csv' or r['lib'].get('records') == intended_records(case))
    if 'singles' in r and 'spec' in r and tokens_ok:
        mode = expected_mode(case['source'])
        for i, (row, s) in enumerate(zip(case['rows'], r['singles'])):
            if 'error' in s or row['truth'] is None:
                continue
            if row['truth'] == 'reject' and s['txns']:
                a = amt_fraction(s['txns'][0]['amount'])
                bad.append(('malformed-row-accepted' + (':non-finite' if isinstance(a, str) else ''), {'row': i, 'got': s['txns'][0]}))
            if row['truth'] == 'accept':
                if len(s['txns']) != 1:
                    bad.append(('well-formed-row-dropped', {'row': i}))
                    continue
                t, e = s['txns'][0], row['expect']
                want = correctly_rounded(apply_mode_q(mode, Fraction(*e['value'])))
                got = amt_fraction(t['amount'])
                if got != want:
                    bad.append(('amount-not-the-number-written', {'row': i, 'got': str(got), 'want': str(want)}))
                if t['date'] != e['date']:
                    bad.append(('date-not-the-rows', {'row': i, 'got': t['date'], 'want': e['date']}))
                if t['desc'] != e['desc']:
                    bad.append(('description-not-the-rows', {'row': i, 'got': t['desc'], 'want': e['desc']}))
                if t['source'] != case['source'].get('name', 'CSV'):
                    bad.append(('source-name', {'row': i, 'got': t['source']}))
                gf = None if t['field'] is None else sorted(tuple(x) for x in t['field'])
                wf = None if e['field'] is None else sorted(tuple(x) for x in e['field'])
                if gf != wf:
                    bad.append(('custom-fields', {'row': i, 'got': gf, 'want': wf}))
    # (4) sign modes: {-amount} negates, {+amount} takes the absolute value, nothing else changes
    if 'variants' in r and all('txns' in v for v in r['variants']):
        p, n, a = [v['txns'] for v in r['variants']]
        if not (len(p) == len(n) == len(a)):
            bad.append(('sign-mode-changes-which-rows-are-read', {'plain': len(p), 'neg': len(n), 'abs': len(a)}))
        else:
            for tp, tn, ta in zip(p, n, a):
                fp, fn, fa = amt_fraction(tp['amount']), amt_fraction(tn['amount']), amt_fraction(ta['amount'])
                if isinstance(fp, str):
                    continue
                if strip_amount(tp) != strip_amount(tn) or strip_amount(tp) != strip_amount(ta) or fn != -fp or fa != abs(fp):
                    bad.append(('sign-mode-relation', {'plain': tp, 'neg': tn, 'abs': ta}))
                    break
        cur = expected_mode(case['source'])
        same = {'plain': p, 'neg': n, 'abs': a}[cur]
        if same != txns:
            bad.append(('sign-setting-not-equivalent-to-format-prefix', {'mode': cur}))
    return bad


def signature_of(case, r, laws):
    """A specific name for the known defects; anything else gets its own law name (never listed)."""
    names = {l for l, _ in laws}
    if names and names <= {'non-finite-amount', 'malformed-row-accepted:non-finite'}:
        return SIG_NONFINITE
    if names == {'parse-raises:AttributeError'} and case['lay']['kind'] == 'regex':
        groups = (r.get('lib') or {}).get('groups') or []
        if any(g is not None and any(c is None for c in g) for g in groups):
            return SIG_NONE_GROUP
    return 'C05/' + sorted(names)[0] if names else None


def run_cases_impl(cases, **kw):
    return run_impl(IMPL, {'cases': [payload_of(c, **kw) for c in cases]}, timeout=3000)['results']


def shrink(case, sig):
    """Delete rows (then the header) while the same signature still fails."""
    def fails(c):
        r = run_cases_impl([c])[0]
        if 'spec_error' in r:
            return False
        laws = oracle(c, r)
        return bool(laws) and signature_of(c, r, laws) == sig
    cur = dict(case)
    rows = list(case['rows'])
    changed = True
    while changed and len(rows) > 1:
        changed = False
        for i in range(len(rows)):
            cand = dict(cur, rows=rows[:i] + rows[i + 1:])
            if fails(cand):
                rows, cur, changed = cand['rows'], cand, True
                break
    return cur


# =====================================================================================================
# model side (evaluated inside Coq)
# =====================================================================================================
HEADER = """From Coq Require Import List Uint63.
From Tally Require Import C05.Model C05.Cases.
Import ListNotations.
"""
# Case encoding (decoded by coq/theories/C05/Cases.v): tree ::= '(' tree* ')' | escaped-bytes ';'   ('~hh' escapes);
# the bytes travel packed 7 per primitive integer.
_ESC = set(b'();~')


def leaf(s):
    b = s.encode('utf-8') if isinstance(s, str) else str(s).encode()
    return b''.join(b'~%02x' % c if c in _ESC else bytes([c]) for c in b) + b';'


def node(*xs):
    return b'(' + b''.join(xs) + b')'


def lst(xs):
    return b'(' + b''.join(xs) + b')'


def opt(x, f=leaf):
    return b'()' if x is None else b'(' + f(x) + b')'


def tbool(x):
    return b'1;' if x else b'0;'


def packed(b):
    n = len(b)
    b = b + b'\0' * (-n % 7)
    ints = ';'.join(str(int.from_bytes(b[i:i + 7], 'big')) for i in range(0, len(b), 7))
    return f'({n}%nat, [{ints}]%uint63)'


def pow2_repr(fr):
    """Fraction with a power-of-two denominator -> (n, k) with fr = n * 2^k, n small"""
    n, d = fr.numerator, fr.denominator
    k = -(d.bit_length() - 1)
    assert d == 1 << (-k)
    while n and n % 2 == 0:
        n //= 2
        k += 1
    return n, k


def float_interval(x):
    """ends of the set of reals that round to the finite non-zero double x (exact), and whether ties belong to it"""
    f = Fraction(x)
    lo_nb, hi_nb = math.nextafter(x, -math.inf), math.nextafter(x, math.inf)
    big = Fraction(2) ** 1024
    lo = (f + (Fraction(lo_nb) if not math.isinf(lo_nb) else -big)) / 2
    hi = (f + (Fraction(hi_nb) if not math.isinf(hi_nb) else big)) / 2
    even = (struct.unpack('>Q', struct.pack('>d', x))[0] & 1) == 0
    return lo, hi, even


def t_eamount(h):
    if h == 'nan':
        return node(leaf('N'))
    if h in ('inf', '-inf'):
        return node(leaf('I'), tbool(h[0] == '-'))
    lo, hi, even = float_interval(float.fromhex(h))
    (ln, le), (hn, he) = pow2_repr(lo), pow2_repr(hi)
    return node(leaf('F'), leaf(ln), leaf(le), leaf(hn), leaf(he), tbool(even))


def t_spec(case, r):
    sp, src = r['spec'], case['source']
    pieces = r['lib'].get('pieces')
    pr = lambda kv: node(leaf(kv[0]), leaf(kv[1]))  # noqa
    if sp['description_column'] is not None:
        d = node(leaf('D'), leaf(sp['description_column']), lst(pr(x) for x in sorted(map(tuple, sp['extra_fields'] or []))))
    else:
        ps = []
        for lit, fld, fs, conv in pieces:
            if lit:
                ps.append(node(leaf('L'), leaf(lit)))
            if fld is not None:
                ps.append(node(leaf('R'), leaf(fld)))
        d = node(leaf('T'), lst(pr(x) for x in sorted(map(tuple, sp['custom_captures'] or []))), lst(ps))
    return node(leaf(sp['date_column']), leaf(sp['date_format']), leaf(sp['amount_column']), d,
                opt(sp['location_column']), tbool(sp['has_header']), tbool(sp['negate_amount']), tbool(sp['abs_amount']),
                opt(sp['source_name']), leaf(src.get('name', 'CSV')), leaf(src.get('decimal_separator', '.')))


def t_input(case, r):
    lib = r['lib']
    if case['lay']['kind'] == 'csv':
        # the model reads the file TEXT with its own csv reader (C05/Csv.v) and must reproduce CPython's records
        return node(leaf('F'), opt(r['spec']['delimiter']), leaf(file_text(case, case['rows'])),
                    lst(lst(leaf(c) for c in rec) for rec in lib['records']))
    ls = []
    for line, g in zip(lib['lines'], lib['groups']):
        ls.append(node(leaf(line), b'()' if g is None else node(lst(opt(c) for c in g))))
    return node(leaf('R'), lst(ls))


def t_expected(r):
    full = r['full']
    if 'error' in full:
        return node(leaf('X')) if full['error'] in ('AttributeError', 'KeyError') else None
    es = []
    for t in full['txns']:
        fld = b'()' if t['field'] is None else node(lst(node(leaf(k), leaf(v)) for k, v in sorted(map(tuple, t['field']))))
        es.append(node(leaf(t['date']), leaf(t['desc']), t_eamount(t['amount']), leaf(t['source']), fld, opt(t['location']),
                       tbool(t['is_credit'])))
    return node(leaf('E'), lst(es))


def coq_case(case, r):
    ex = t_expected(r)
    if ex is None:
        return None
    tbl = lst(node(leaf(k), opt(v)) for k, v in r['lib']['dates'])
    return node(t_spec(case, r), tbl, t_input(case, r), ex)


def outside_fragment(case, r):
    """Reasons why the model is not exact on this case (counted, never compared)."""
    why = []
    lib = r['lib']
    if 'token_error' in lib:
        why.append('csv-error')
        return why
    if case['lay']['kind'] == 'csv':
        rows = lib['records']      # (cells changed by universal newlines are no longer outside: the model reads the text)
    else:
        rows = [g for g in lib['groups'] if g is not None]
    ac = r['spec']['amount_column']
    for row in rows:
        if ac < len(row) and isinstance(row[ac], str) and any(ord(ch) > 127 and ch.isdecimal() for ch in row[ac]):
            why.append('non-ascii-decimal-digit-in-amount')
            break
    for row in rows:
        if ac < len(row) and isinstance(row[ac], str) and re.search(r'[eE][-+]?\d{5,}', row[ac]):
            why.append('huge-exponent')
            break
    if 'pieces_error' in lib:
        why.append('template-syntax')
    for p in lib.get('pieces') or []:
        lit, fld, fs, conv = p
        if fld is not None and (fs or conv or not re.fullmatch(r'[A-Za-z_][A-Za-z0-9_]*', fld)):
            why.append('template-outside-fragment')
            break
    if any(isinstance(v, str) and v.startswith('EXC:') for _, v in lib['dates']):
        why.append('strptime-raises-non-valueerror')
    if 'error' in r['full'] and r['full']['error'] not in ('AttributeError', 'KeyError'):
        why.append('implementation-raises-' + r['full']['error'])
    return why


def model_check(items, name='C05'):
    """items: list of (index, case, result). Returns (bad indices | None, error text)."""
    rows, idx = [], []
    for i, c, r in items:
        t = coq_case(c, r)
        if t is None:
            continue
        rows.append(t)
        idx.append(i)
    bad = []
    CH = max(50, min(400, (len(rows) + 3) // 4))

    def one(off):
        body = 'Definition cases : list (nat * list int) := [\n' + ';\n'.join(packed(x) for x in rows[off:off + CH]) + \
               '\n].\nEval vm_compute in check cases.\n'
        return off, run_cases(f'{name}_{off // CH}', HEADER, body)
    from concurrent.futures import ThreadPoolExecutor
    with ThreadPoolExecutor(max_workers=4) as ex:          # <= 4 coqc at a time
        outs = list(ex.map(one, range(0, len(rows), CH)))
    for off, (rc, out, err) in outs:
        m = re.search(r'=\s*\[(.*?)\]\s*:\s*list nat', out, re.S)
        if rc != 0 or not m:
            return None, idx, (out + err)[-1500:]
        bad += [idx[off + int(x)] for x in m.group(1).replace('%nat', '').replace('\n', ' ').split(';') if x.strip()]
    return bad, idx, ''


# =====================================================================================================
def slim(case):
    return {k: case[k] for k in ('source', 'lay', 'rows', 'header', 'quoting', 'lt')}


def main(tier):
    run = Run('C05', tier)
    run.assumptions = [
        'comma / one-ASCII-character / tab delimited files: the model reads the file TEXT itself (C05/Csv.v: delimiter dispatch, universal '
        'newlines, hand model of CPython\'s csv state machine for the excel dialect, header as one record) and must reproduce both '
        'csv.reader\'s records and parse_generic_csv\'s transactions; regex-delimited files: text-mode line iteration and '
        're.match(...).groups() are libraries outside the model (the harness feeds the model the lines and groups)',
        'datetime.strptime is an oracle: a Section variable in every theorem; at run time the table CPython returned for the date '
        'texts of the case (the model computes the text itself: strip, then split()[0] when the format has no space)',
        'string.Formatter().parse splits the description template; templates are literal text and {name} only (others discarded, counted)',
        'float(text) is modelled exactly for ASCII text, returning the exact decimal m*10^e plus the binary64 overflow/underflow '
        'classification; rounding is outside the model: the implementation amount is required (inside Coq, exact rational '
        'arithmetic) to be the double whose rounding interval contains the model value; amounts written with non-ASCII decimal '
        'digits are outside the model (discarded, counted)',
        'text is UTF-8 bytes; Python\'s 29 whitespace code points are matched on their encodings (exact on valid UTF-8)',
        'parse_amount\'s literals are regenerated from parsers.py (tools/c05_amount2coq.py, fail closed); parse_generic_csv, '
        '_iter_rows_with_delimiter and extract_location are modelled by hand and tied by correspondence',
        'FormatSpec is taken as resolve_source_format built it (format-string parsing is property C18)',
        'C05/Model.v tree_variant = as_code: the unchanged tree keeps non-finite amounts and crashes on an unmatched regex group; '
        'the full theorems hold for variant fixed (= proposed_fixes/C05-*.diff)']
    import time as _t
    phases, _t0 = {}, _t.time()
    tfails = regen_gen()
    res = run.proof_step(COQ_FILES, extra_trusted=[
        'tools/c05_amount2coq.py (translator of parse_amount literals, fail closed)',
        'harness/c05.py + harness/impl_c05.py (generators, tokenisation by CPython csv/re, strptime oracle table, comparison)'])
    broken = []
    if tfails:
        broken.append({'kind': 'translation-failure', 'obligation': 'translate(parsers.parse_amount)', 'detail': tfails})
    elif not res['ok']:
        broken.append({'kind': 'broken-obligation', 'obligation': first_error(res['log']).get('obligation'), 'detail': first_error(res['log'])})
    if res['hygiene']:
        broken.append({'kind': 'hygiene', 'obligation': 'no Admitted/Axiom', 'detail': res['hygiene']})

    phases['proofs'] = round(_t.time() - _t0, 1)
    _t0 = _t.time()
    rnd = random.Random(run.seed * 7919 + 5)
    n = 2400 if tier == 'quick' else 30000
    cases = corpus_cases() + [gen_case(rnd) for _ in range(n)]
    from concurrent.futures import ThreadPoolExecutor
    B = max(1, min(2000, (len(cases) + 3) // 4))
    with ThreadPoolExecutor(max_workers=4) as ex:          # <= 4 implementation processes at a time
        results = [r for part in ex.map(run_cases_impl, [cases[off:off + B] for off in range(0, len(cases), B)]) for r in part]

    phases['implementation'] = round(_t.time() - _t0, 1)
    _t0 = _t.time()
    discards, failing, comparable = {}, [], []
    reasons_hist, kinds_hist = {}, {}
    n_rows = n_accepted = 0
    nontrivial = set()
    for i, (c, r) in enumerate(zip(cases, results)):
        if 'spec_error' in r:
            discards['format-rejected-by-parse_format_string'] = discards.get('format-rejected-by-parse_format_string', 0) + 1
            continue
        laws = oracle(c, r)
        if laws:
            failing.append((i, laws))
        why = outside_fragment(c, r)
        for w in why:
            discards[w] = discards.get(w, 0) + 1
        if not why:
            comparable.append((i, c, r))
        n_rows += len(c['rows'])
        for row in c['rows']:
            kinds_hist[row['kind']] = kinds_hist.get(row['kind'], 0) + 1
        k = c['lay']['kind'] + ('/' + repr(c['lay']['delim_char']) if c['lay']['kind'] == 'csv' else '')
        reasons_hist[k] = reasons_hist.get(k, 0) + 1
        if 'txns' in r['full']:
            acc = len(r['full']['txns'])
            n_accepted += acc
            if acc >= 2 and acc < len(c['rows']):
                nontrivial.add(json.dumps([c['source'], [row.get('cells') for row in c['rows']]], sort_keys=True, default=str))

    # ---- model vs implementation inside Coq ---------------------------------------------------------------
    model_idx = []
    if res['ok']:        # after a translation failure the model still carries the literals last translated: a disagreement locates the change
        mc = comparable if tier == 'thorough' else comparable[:3000]
        bad, model_idx, err = model_check(mc)
        ob = 'model_vs_impl(C05.Model.parse, parsers.parse_generic_csv)'
        if bad is None:
            broken.append({'kind': 'broken-correspondence', 'obligation': ob, 'detail': 'cases.v did not evaluate: ' + err})
        elif bad:
            j = min(bad, key=lambda k: len(cases[k]['rows']))
            broken.append({'kind': 'broken-correspondence', 'obligation': ob,
                           'detail': {'case': slim(cases[j]), 'file_text': file_text(cases[j], cases[j]['rows']),
                                      'implementation': results[j]['full'], 'spec': results[j]['spec'], 'n': len(bad)}})
    phases['model_in_coq'] = round(_t.time() - _t0, 1)
    _t0 = _t.time()
    # ---- report failing laws (shrunk, one per signature) ------------------------------------------------
    by_sig = {}
    for i, laws in failing:
        sig = signature_of(cases[i], results[i], laws)
        by_sig.setdefault(sig, []).append(i)
    for sig, idxs in sorted(by_sig.items(), key=lambda kv: str(kv[0])):
        i = min(idxs, key=lambda j: len(cases[j]['rows']))
        listed = any(f.get('status') == 'finding' and f.get('signature') == sig for f in run.findings)
        small = shrink(cases[i], sig) if (len(by_sig) <= 6 and not listed) else cases[i]    # known findings: no need to shrink
        r = run_cases_impl([small])[0]
        laws = oracle(small, r)
        run.violation('law', {'kind': 'counterexample', 'case': slim(small), 'file_text': file_text(small, small['rows']),
                              'laws_failing': [[l, d] for l, d in laws][:6], 'observed': r.get('full'),
                              'expected': 'C05: one transaction per well-formed row, in file order, faithful fields; malformed rows '
                                          'skipped on their own; finite non-zero amounts only',
                              'obligation': 'c05_* on the implementation', 'broken': broken, 'n_failing_cases': len(idxs)},
                      signature=sig)

    unknown = [s for s in by_sig if s not in (SIG_NONFINITE, SIG_NONE_GROUP)]
    if broken and not unknown:
        run.violation('broken', {'kind': broken[0]['kind'], 'obligation': broken[0].get('obligation'), 'broken': broken,
                                 'searched': f'{len(cases)} generated statement files against the C05 laws; '
                                             f'failing signatures: {sorted(map(str, by_sig))}'}, found_input=False)

    run.cov.update({
        'evaluations': len(cases) + sum(len(c['rows']) for c in cases) + len(model_idx),
        'distinct_nontrivial': len(nontrivial),
        'rule': 'statement files of 1-12 rows (well-formed, short, long, blank lines, bad/blank dates, blank descriptions, odd / '
                'non-finite / zero / unparsable amounts) x random column layouts (description / extra fields / template captures, '
                'location, skip columns) x comma / one-char / tab / regex delimiters x header / no header x both decimal conventions '
                'x three sign modes (+ negate_amount setting); each file is also run row by row and under the three sign formats; '
                'non-trivial = distinct files with >= 2 accepted and >= 1 rejected rows',
        'samples': [slim(cases[len(corpus_cases()) + 1]), slim(cases[-1])],
        'files': len(cases), 'rows': n_rows, 'transactions_read': n_accepted, 'row_kind_histogram': kinds_hist,
        'delimiter_histogram': reasons_hist, 'impl_law_cases': len(cases), 'model_vs_impl_cases_in_coq': len(model_idx),
        'discarded': discards, 'failing_by_signature': {str(k): len(v) for k, v in by_sig.items()},
        'translation_failures': tfails, 'phase_seconds': phases})
    run.finish()


def replay(path):
    obj = json.load(open(path))
    if obj.get('kind') != 'counterexample':
        main('quick')
        return 0
    case = obj['case']
    r = run_cases_impl([case])[0]
    if 'spec_error' in r:
        print(json.dumps({'spec_error': r['spec_error']}))
        return 0
    laws = oracle(case, r)
    print(json.dumps({'file_text': file_text(case, case['rows']), 'laws_failing': [[l, d] for l, d in laws][:6],
                      'observed': r['full']}, indent=1, default=str))
    if laws:
        print(f'VIOLATION property=C05 replay={path}')
        return 1
    return 0
