"""C11 direct oracle, implementation side: "the model instantiated with the real stages".
Reads {root, spec, fmts} on stdin; WITHOUT going through cmd_run / load_config / resolve_source_format /
load_supplemental_sources it calls the stage functions on each non-supplemental readable source in configuration
order — parse_format_string (+ the source's own settings), get_all_rules / get_transforms (rule mode),
parse_generic_csv (→ normalize_merchant), analyze_transactions, classify_by_sections, export_json,
write_summary_file_vue — and prints what `tally up` has to print if it is that composition.
One budget per process (the rule engine is cached in a module global)."""
import json
import os
import re
import sys
from datetime import date

from tally.format_parser import parse_format_string
from tally.merchant_utils import get_all_rules, get_transforms
from tally.analyzer import (parse_generic_csv, analyze_transactions, classify_by_sections, compute_section_totals,
                            export_json, write_summary_file_vue)
from tally.classification import normalize_amount


def spec_for(s, fmt):
    fs = parse_format_string(fmt, s.get('template'))
    if s.get('_delimiter') is not None:
        fs.delimiter = s['_delimiter']
    if s['has_header'] is not None:
        fs.has_header = s['has_header']
    if s.get('negate_amount') is not None:
        fs.negate_amount = s['negate_amount']
    return fs


def supp_rows(s):
    """Typed rows of a supplemental source, built from the spec (not from the loader)."""
    rows = []
    for r in s['rows']:
        y, m, d = (int(x) for x in r['d'].split('-'))
        rows.append({'date': date(y, m, d), 'item': r['desc'], 'amount': r['q'] / 4.0})
    return rows


def main():
    p = json.load(sys.stdin)
    root, spec, fmts = p['root'], p['spec'], p['fmts']
    for s_, d_ in zip(spec['sources'], p['delims']):
        s_['_delimiter'] = d_      # the delimiter setting as written in settings.yaml
    mode = spec.get('rule_mode') or 'first_match'
    kind = 'none' if spec['rules'].get('configured_missing') else spec['rules']['kind']
    path = {'rules': os.path.join(root, 'config', 'merchants.rules'),
            'csv': os.path.join(root, 'config', 'merchant_categories.csv'), 'none': None}[kind]
    rules = get_all_rules(path, match_mode=mode) if path else get_all_rules(match_mode=mode)
    transforms = get_transforms(path, match_mode=mode)
    supp = {}
    for s in spec['sources']:
        if s['supplemental'] and s['state'] == 'present' and s['rows']:
            supp[s['name'].lower()] = supp_rows(s)
    all_txns, per_source = [], []
    for s, fmt in zip(spec['sources'], fmts):
        if s['supplemental']:
            per_source.append({'skipped': 'supplemental'})
            continue
        fp = os.path.normpath(os.path.join(root, s['file']))
        if not os.path.exists(fp):
            per_source.append({'skipped': 'missing'})
            continue
        try:
            txns = parse_generic_csv(fp, spec_for(s, fmt), rules, source_name=s['name'],
                                     decimal_separator=s['decimal_separator'] or '.', transforms=transforms,
                                     data_sources=supp)
        except Exception as e:  # noqa
            per_source.append({'skipped': 'error', 'error': type(e).__name__})
            continue
        all_txns.extend(txns)
        per_source.append({'txns': [[t['date'].strftime('%Y-%m/%d'), t['raw_description'],
                                     normalize_amount(t['amount'], t.get('tags', [])), t['merchant'], t['category'],
                                     t['subcategory'], sorted(t.get('tags', []))] for t in txns]})
    out = {'per_source': per_source, 'n': len(all_txns)}
    if all_txns:
        stats = analyze_transactions(all_txns)
        if spec.get('views') is not None and not spec.get('views_file'):
            from tally.section_engine import load_sections
            try:
                vc = load_sections(os.path.join(root, 'config', 'views.rules'))
            except Exception as e:  # noqa
                vc = None
                out['views_error'] = type(e).__name__
            if vc:
                vr = classify_by_sections(stats['by_merchant'], vc, stats['num_months'])
                stats['sections'] = {n: compute_section_totals(m) for n, m in vr.items()}
                stats['_sections_config'] = vc
        out['json'] = json.loads(export_json(stats, verbose=1))
        hp = os.path.join(root, 'direct.html')
        write_summary_file_vue(stats, hp, year=spec.get('year', 2025), currency_format=spec.get('currency_format') or '${amount}',
                               sources=[s['name'] for s in spec['sources'] if not s['supplemental']])
        m = re.search(r'<script>window\.spendingData = (.*?);</script>', open(hp, encoding='utf-8').read(), re.S)
        out['spending'] = json.loads(m.group(1)) if m else None
    json.dump(out, sys.stdout)


main()
