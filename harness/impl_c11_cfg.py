"""C11, settings-resolution table: runs config_loader.load_config and cli._check_merchant_migration on every row of the
finite table of C11/Config.v (what settings.yaml says for rule_mode / merchants_file / views_file x which files exist) and
reports what was resolved: rule mode, which rule file `tally up` reads, whether views are set, the warnings raised."""
import json
import os
import shutil
import sys

from tally.config_loader import load_config
from tally.cli import _check_merchant_migration

RULES = '[FromRules]\nmatch: contains("X")\ncategory: A\n'
CSV = 'Pattern,Merchant,Category,Subcategory\nX,FromCsv,A,B\n'
VIEWS = {'VGood': '[Subs]\nfilter: category == "A"\n', 'VBroken': 'this is not a views file\n'}
KINDS = [('Invalid rule_mode', 'InvalidRuleMode'), ('Merchants file not found', 'MerchantsFileNotFound'),
         ('Views file not found', 'ViewsFileNotFound'), ('Error loading views', 'ViewsError')]


def run_row(base, row):
    d = os.path.join(base, 'b')
    shutil.rmtree(d, ignore_errors=True)
    os.makedirs(os.path.join(d, 'config'))
    L = ['data_sources:', '  - name: Card', '    file: data/card.csv', '    format: "{date:%Y-%m-%d}, {description}, {amount}"']
    if row['mode_raw'] is not None:
        L.append('rule_mode: ' + row['mode_raw'])
    if row['merchants_key']:
        L.append('merchants_file: config/merchants.rules')
    if row['merchants_exists']:
        open(os.path.join(d, 'config', 'merchants.rules'), 'w').write(RULES)
    if row['legacy_csv']:
        open(os.path.join(d, 'config', 'merchant_categories.csv'), 'w').write(CSV)
    if row['views_key']:
        L.append('views_file: config/my-views.rules')
    if row['views'] != 'VMissing':
        open(os.path.join(d, 'config', 'my-views.rules'), 'w').write(VIEWS[row['views']])
    if row['stray_views']:
        open(os.path.join(d, 'config', 'views.rules'), 'w').write(VIEWS['VGood'])
    open(os.path.join(d, 'config', 'settings.yaml'), 'w').write('\n'.join(L) + '\n')
    try:
        cfg = load_config(os.path.join(d, 'config'))
        rules = _check_merchant_migration(cfg, os.path.join(d, 'config'), True, False)
    except Exception as e:  # noqa
        return {'error': f'{type(e).__name__}: {e}'}
    names = {r[1] for r in rules}
    warns = []
    for w in cfg.get('_warnings', []):
        for prefix, kind in KINDS:
            if str(w.get('message', '')).startswith(prefix):
                warns.append(kind)
    return {'mode': cfg.get('rule_mode'), 'merchants': 'NewRules' if names == {'FromRules'} else 'LegacyCsv' if names == {'FromCsv'}
            else 'NoRules' if not names else 'other:' + ','.join(sorted(names)), 'views': cfg.get('sections') is not None, 'warnings': warns,
            'format': cfg.get('_merchants_format')}


def main():
    p = json.load(sys.stdin)
    json.dump({'results': [run_row(p['base'], r) for r in p['rows']]}, sys.stdout)


main()
