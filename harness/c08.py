"""C08 — a rule that fails to evaluate is skipped; it never aborts classification.
Proof: exception-flow theorems over Gen/C08CatchSites.v (regenerated: every evaluation call site with
what its try catches; the evaluators' own Exception->ExpressionError conversion).
Tie/search: ill-typed expression stream through MerchantEngine.match, parse_generic_csv,
classify_by_sections; oracle = no exception escapes AND the result equals the result with exactly the
failing rules/views removed (failing decided by the implementation's own evaluator)."""
import json
import os
import random

from common import *
import c08_catch_sites

COQ_FILES = ['Lib/Str.v', 'Gen/C08CatchSites.v', 'C08/Model.v', 'C08/Proofs.v', 'C08/Props.v']
# over the evaluator model (coq/theories/Expr): no node outcome is ever a raw Python exception; exists() turns failures into False
COQ_FILES_EVAL = ['Lib/Str.v', 'Expr/StrOps.v', 'Expr/Date.v', 'Expr/Syntax.v', 'Expr/Funcs.v', 'Expr/Eval.v', 'C08/EvalProps.v']
IMPL = os.path.join(os.path.dirname(os.path.abspath(__file__)), 'impl_c08.py')


def regen_gen():
    try:
        regen('Gen/C08CatchSites.v', c08_catch_sites.render(SRC))
        return []
    except (SyntaxError, OSError, ValueError, KeyError, AttributeError, IndexError) as e:
        return [{'translator': 'c08_catch_sites', 'error': repr(e)}]


GOOD = ['contains("NETFLIX")', 'contains("UBER")', 'amount > 10', 'amount < 0', 'startswith("AMZN")', 'month == 2',
        'anyof("NETFLIX", "HULU")', 'regex("UBER\\\\s*EATS")', '"COFFEE" in description', 'normalized("WHOLEFOODS")',
        'not contains("LYFT")', 'contains("NETFLIX") or amount > 1000', 'weekday < 5', 'source == "Amex"', 'true']
ILL = ['contains(5)', 'amount > "x"', 'next(r for r in rows)', 'len(amount) > 1', 'description + 1 == 2', 'field.nope == "a"',
       'regex("(")', 'sum(rows) > 0', 'min(rows) > 0', 'max(empty) > 1', 'rows[5].item == "x"', 'unknown_var > 1',
       'startswith(amount)', 'abs(description) > 1', 'amount.upper() == "X"', 'description < 3', 'extract("(") == ""',
       'date > "not-a-date"', 'split(description, "-", "x") == ""', 'substring("a", "b") == ""', '-description == 1',
       'not_a_function(1)', 'contains("A", "B", "C")', 'any(r.amount > "s" for r in rows)', 'round("x") == 1',
       'description % 2 == 0', 'fuzzy(5)', 'normalized(None)', 'txn.nope == 1', '[r.item for r in rows][9] == 1',
       'next(r.item for r in rows if r.amount > 999)', 'anyof(1, 2)', 'regex_replace(1) == ""', 'trim(1, 2) == ""',
       'sum(r.item for r in rows) > 0', 'all(x.y for x in description)', 'exists(amount > "x")', 'month.lower() == "x"']
LAZY_VALUE = ['(x for x in amount)', '(c for c in 5)', '(r.nope for r in rows)', '(r.item for r in w0)', '(x.y for x in description)',
              '(r for r in rows if r.amount > "s")', '(1 / x for x in amount)']
BIG = '1' + '0' * 320
OVERFLOW = [f'amount / {BIG} > 0', 'round(amount * 1e308 * 1e308) > 0', f'amount * {BIG} > 1', f'amount + {BIG} > 1.5',
            'round(1e308 * 10) == 1', f'abs(amount) % {BIG} == 0.5']
ILL_VALUE = ['field.nope', 'extract("(")', 'description + 1', 'next(r for r in rows)', 'unknown_var', 'amount.upper()',
             'rows[9].item', 'split(description, 1, 2)', 'regex_replace(description, "(", "")', 'len(5)']
# expressions the loader does not look at (dynamic tag texts are parsed when the rule first matches): syntax errors and every
# node kind / operator outside the language must surface as an expression error for that tag only
TAG_ONLY_ILL = ['amount // 10', 'amount ** 2', 'amount | 1', 'amount & 1', 'amount ^ 1', 'amount << 1', 'amount >> 1', '~1', '+amount',
                'amount is None', 'amount is not None', 'lambda: 1', '{1: 2}', '{1}', "f'{amount}'", '*rows', 'rows[0:1]',
                'amount @ 1', '(1, 2)', '...', "b'x'", '1j', 'amount +', ')(', 'a b', '1 +* 2', 'import os', 'x = 1', '',
                ' ', '"unterminated', 'description.', '.upper()', 'field..memo', 'amount >', 'not', '[r for r in]',
                '__import__("os")', 'amount if', 'a.b.c.d.e', '0x', '1e999', '1_0', 'rows[', '{{amount}}',
                # lexical errors next to words a pre-processor might look for (SQL-style keywords, quotes, comments, continuations)
                'extract("BED BATH AND BEYOND (\\d+)"', 'contains("A") AND contains("B"', 'amount > 1 OR (', 'NOT (amount', 'x IN [1, 2',
                '"AND', "'OR", 'amount AND', 'AND', 'amount > 1 # comment (', 'amount \\', '(amount', 'amount)', '[amount', 'amount]',
                '"a" "b', 'contains("x"))', '((((((((((1', 'amount > 1;', 'amount\t>\t(', '\x00', '\ufeffamount', 'amount >> ', '1 if', 'else 1',
                'AND OR NOT IN', 'a AND b OR c NOT d IN (', 'IS NULL', 'amount BETWEEN 1 AND (', 'LIKE "%x"', "description LIKE 'A%' AND ("]
GOOD_VALUE = ['extract("#(\\\\d+)")', 'source', 'uppercase(source)', 'split(description, " ", 0)', '"static"', 'field.memo']
DESCS = ['NETFLIX.COM #1234', 'UBER EATS 7781', 'AMZN MKTP US', 'COFFEE SHOP - SEATTLE', 'WHOLE FOODS #22', 'LYFT RIDE', 'HULU']

VGOOD = ['total > 100', 'months >= 2', 'category == "Food"', '"coffee" in tags', 'sum(payments) > 50', 'cv < 0.5',
         'count(payments) >= 2', 'avg(payments) > 10', 'subcategory == "Cafe"', 'max(payments) > 40', 'true']
VILL = ['total > "x"', 'unknown_var > 1', 'sum(category) > 1', 'nope(payments) > 1', 'category + 1 == 2', 'max(tags) > 1',
        'months.lower() == "a"', 'avg("abc") > 1', 'stddev(category) > 0', 'payments > 1', 'by("nope") == 1', '-category == 1',
        'total % "a" == 0', 'min(payments, payments) > payments']


def gen_engine_case(rnd):
    rules = []
    n = rnd.randint(2, 6)
    for i in range(n):
        ill = rnd.random() < 0.4
        r = {'name': f'R{i}', 'match': rnd.choice(ILL if ill else GOOD)}
        if rnd.random() < 0.7:
            r['category'] = rnd.choice(['Food', 'Subs', 'Ride', 'Shop'])
            if rnd.random() < 0.5:
                r['subcategory'] = rnd.choice(['a', 'b'])
        tags = []
        for _ in range(rnd.randint(0 if r.get('category') else 1, 2)):
            tags.append(rnd.choice(['t1', 'T2', 'weekly']) if rnd.random() < .6 else
                        '{' + rnd.choice(ILL_VALUE + LAZY_VALUE if rnd.random() < .5 else GOOD_VALUE) + '}')
        r['tags'] = list(dict.fromkeys(tags))
        if rnd.random() < 0.4:
            r['lets'] = [(f'v{i}', rnd.choice(ILL_VALUE + GOOD_VALUE + LAZY_VALUE + ['amount * 2', 'rows', 'empty']))]
            if rnd.random() < 0.5:
                # chained let: the second binding consumes the first (which may have failed -> None, or be lazy)
                r['lets'].append((f'u{i}', rnd.choice([f'(o.item for o in v{i})', f'[o.item for o in v{i}]', f'next(v{i})', f'len(v{i})',
                                                       f'sum(v{i})', f'v{i} + 1', f'list_of(v{i})'])))
            if rnd.random() < 0.5:
                r['match'] = rnd.choice([f'v{i} == "x"', f'v{i} > 5', f'contains("NETFLIX") or v{i} == 1', f'contains(v{i})',
                                         f'any(x == "Book" for x in v{i})', f'contains("NETFLIX") and len([x for x in v{i}]) >= 0'])
        if rnd.random() < 0.3:
            r['fields'] = [(f'f{i}', rnd.choice(ILL_VALUE + GOOD_VALUE + LAZY_VALUE))]
        if rnd.random() < 0.2:
            r['priority'] = rnd.randint(0, 3)
        rules.append(r)
    case = {'kind': 'engine', 'rules': rules, 'modes': ['first_match', 'most_specific'],
            'variables': [('big', rnd.choice(['amount > 100', 'amount > "x"', 'nope + 1', 'field.memo == "REF 9"', 'len(field.memo) > 2']
                                             + LAZY_VALUE)),
                          ('w0', rnd.choice(['rows', 'field.nope', '5', '(r for r in rows)']))][:rnd.randint(1, 2)] if rnd.random() < .5 else [],
            'transforms': [('field.description', rnd.choice(['regex_replace(field.description, "^SQ \\\\*", "")',
                                                             'field.description + 1', 'uppercase(field.nope)']))] if rnd.random() < .3 else [],
            'data_sources': {'rows': [{'item': 'Book', 'amount': 12.5}, {'item': 'Pen', 'amount': 3.0}], 'empty': []},
            'txns': []}
    if rnd.random() < 0.35 and len(rules) >= 2:
        # a rule that binds a name with := and then fails, followed by a rule reading that name (a primitive, a variable or a fresh
        # name): the failing rule must leave nothing behind
        nm = rnd.choice(['amount', 'big', 'seen', 'month', 'description'])
        i = rnd.randrange(len(rules) - 1)
        rules[i]['match'] = rnd.choice([f'({nm} := 0) == 0 and contains(5)', f'({nm} := "ZZZ") and amount > "x"',
                                        f'(({nm} := 99999) > 1) and field.nope == 1'])
        rules[i].pop('lets', None)
        rules[i + 1]['match'] = rnd.choice([f'{nm} > 50', f'contains("NETFLIX") or {nm} == 0', f'{nm} == "ZZZ" or contains("UBER")'])
    if case['variables']:
        # rules that read the top-level variables (which may be unevaluable for SOME transactions only, e.g. field.memo)
        for r in rnd.sample(rules, k=min(len(rules), rnd.randint(1, 2))):
            r['match'] = rnd.choice(['big', 'big or contains("NETFLIX")', 'not big', 'big and amount > 0', 'len(w0) >= 0 or big'])
    for _ in range(3):
        case['txns'].append({'description': rnd.choice(DESCS), 'amount': rnd.choice([-5.0, 12.5, 150.0, 0.0, 2500.0]),
                             'date': rnd.choice(['2025-02-28', '2025-12-31', None]), 'source': rnd.choice(['Amex', 'Chase']),
                             'field': rnd.choice([None, {'memo': 'REF 9'}])})
    return case


def gen_views_case(rnd):
    views = []
    for i in range(rnd.randint(2, 5)):
        v = {'name': f'V{i}', 'filter': rnd.choice(VILL if rnd.random() < .4 else VGOOD)}
        if rnd.random() < .45:
            # local names are drawn from a small pool shared with the global variables and the primitives,
            # so that a (failing) local of one view shadows something another view reads
            ln = rnd.choice(['g', 'monthly', 'total', 'months', f'l{i}', 'lim'])
            v['locals'] = [(ln, rnd.choice(['total / 2', 'total > "x"', 'nope', 'sum(by("month")) / months', 'category + 1', '50']))]
            if rnd.random() < .6:
                v['filter'] = rnd.choice([f'{ln} > 10', f'{ln} >= 0 and total > 1', f'total > 1 or {ln} > 5'])
        elif rnd.random() < .5:
            v['filter'] = rnd.choice(['g > 10', 'monthly > 5', 'lim > 1 or total > 20', 'g >= 0', 'monthly >= 0 and months >= 1'])
        views.append(v)
    merchants = []
    for j in range(rnd.randint(1, 4)):
        merchants.append({'name': f'M{j}', 'category': rnd.choice(['Food', 'Fun']), 'subcategory': rnd.choice(['Cafe', 'x']),
                          'tags': rnd.choice([[], ['coffee'], ['Income'], ['weekly', 'coffee']]),
                          'payments': [{'amount': rnd.choice([8.0, 25.5, 64.0, 120.0]),
                                        'date': f'2025-{rnd.randint(1, 6):02d}-{rnd.randint(1, 28):02d}'}
                                       for _ in range(rnd.randint(1, 5))]})
    return {'kind': 'views', 'views': views, 'merchants': merchants,
            'variables': [('g', rnd.choice(['total * 2', 'total > "x"', 'nope'])), ('monthly', 'total / months'),
                          ('lim', rnd.choice(['10', 'nope']))][:rnd.randint(1, 3)] if rnd.random() < .7 else []}


def oracle(case, r):
    """List of (signature, detail) C08 violations visible in one implementation result."""
    bad = []
    if 'harness_error' in r:
        return [('C08/harness-error', r['harness_error'])]
    if case['kind'] == 'engine':
        if 'load' in r:
            return []   # the loader rejected the file: nothing to classify (C17's business)
        for it in r['items']:
            f = it['full']
            if 'raises' in f:
                bad.append((f'C08/match-raises:{f["raises"]}', {'txn': it['txn'], 'mode': it['mode'], 'msg': f.get('msg')}))
                continue
            if 'raises' in it.get('failing', {}):
                bad.append((f'C08/evaluator-raises-non-expression-error:{it["failing"]["raises"]}', it['txn']))
                continue
            # a rule whose own condition is true (bindings that fail count as None) must take part: in first_match mode
            # the first such categorizing rule decides the category
            if it['mode'] == 'first_match' and 'indep_matching' in it:
                cat = [i for i in it['indep_matching'] if case['rules'][i].get('category')]
                want = case['rules'][cat[0]]['name'] if cat else None
                if f['ok'].get('rule') != want:
                    bad.append(('C08/rule-with-evaluable-condition-skipped-or-wrong-winner',
                                {'txn': it['txn'], 'expected_rule': want, 'got_rule': f['ok'].get('rule'),
                                 'rules_whose_condition_is_true': it['indep_matching']}))
            exp = case.get('expect')
            if exp and (f['ok'].get('rule') != exp.get('rule', f['ok'].get('rule')) or
                        not set(exp.get('tags', [])) <= set(f['ok'].get('tags', [])) or
                        set(exp.get('not_tags', [])) & set(f['ok'].get('tags', []))):
                bad.append(('C08/failing-rule-changes-what-a-later-rule-does', {'txn': it['txn'], 'mode': it['mode'], 'expected': exp, 'got': f['ok']}))
            fr = it.get('fresh_reduced')
            if fr is not None and 'ok' in fr and fr['ok'] != f['ok']:
                bad.append(('C08/failing-rule-influences-result-fresh-process',
                            {'txn': it['txn'], 'mode': it['mode'], 'failing_rules': it['failing']['ok'], 'with': f['ok'],
                             'without_in_a_process_that_never_evaluated_them': fr['ok']}))
            red = it.get('reduced')
            if red is None:
                continue
            if 'raises' in red:
                bad.append((f'C08/reduced-file-raises:{red["raises"]}', it['txn']))
            elif red['ok'] != f['ok']:
                bad.append(('C08/failing-rule-influences-result', {'txn': it['txn'], 'mode': it['mode'], 'failing_rules': it['failing']['ok'],
                                                                     'with': f['ok'], 'without': red['ok']}))
    elif case['kind'] == 'legacy':
        for k in ('full', 'reduced'):
            if 'raises' in r[k]:
                bad.append((f'C08/legacy-rules-classification-raises:{r[k]["raises"]}', r[k].get('msg')))
        if not bad and r.get('all_fail') and r['full']['ok'] != r['reduced']['ok']:
            bad.append(('C08/failing-tag-influences-result-legacy', {'with': r['full']['ok'], 'without': r['reduced']['ok']}))
        if not bad and len(r['full']['ok']['rows']) != len(case['txns']):
            bad.append(('C08/rows-lost', {'got': len(r['full']['ok']['rows']), 'want': len(case['txns'])}))
    elif case['kind'] == 'rows':
        for k in ('full', 'reduced'):
            if 'raises' in r[k]:
                bad.append((f'C08/source-lost:{r[k]["raises"]}', r[k].get('msg')))
        if not bad and r['full']['ok'] != r['reduced']['ok']:
            bad.append(('C08/rows-differ-with-failing-rules', {'with': r['full']['ok'][:3], 'without': r['reduced']['ok'][:3]}))
        if not bad and len(r['full']['ok']) != len(case['txns']):
            bad.append(('C08/rows-lost', {'got': len(r['full']['ok']), 'want': len(case['txns'])}))
    elif case['kind'] == 'views':
        f = r['full']
        if 'raises' in f:
            return [(f'C08/classify-by-sections-raises:{f["raises"]}', f.get('msg'))]
        if 'raises' in r.get('failing', {}):
            return [(f'C08/view-evaluator-raises:{r["failing"]["raises"]}', r['failing'].get('msg'))]
        names = [v['name'] for v in case['views']]
        for i, m in r['failing']['ok']:
            if 0 <= i < len(names) and m in f['ok'].get(names[i], []):
                bad.append(('C08/failing-filter-includes-merchant', {'view': names[i], 'merchant': m}))
        red = r.get('reduced')
        if red and 'ok' in red:
            for vn, ms in red['ok'].items():
                if f['ok'].get(vn) != ms:
                    bad.append(('C08/failing-view-changes-other-view', {'view': vn, 'with': f['ok'].get(vn), 'without': ms}))
        elif red:
            bad.append((f'C08/reduced-views-raise:{red["raises"]}', red.get('msg')))
    return bad


def evaluate_cases(cases, workers=4, chunk=150):
    """Pass A: every case in (chunked) implementation processes. Pass B: for engine cases in which some rule failed, the file
    without those rules in OTHER processes that never evaluate the failing rules (a failing evaluation that damages shared
    state - a cache entry, a class attribute - cannot hide there)."""
    from concurrent.futures import ThreadPoolExecutor
    results = []
    chunks = [cases[i:i + chunk] for i in range(0, len(cases), chunk)]
    with ThreadPoolExecutor(max_workers=workers) as ex:
        for out in ex.map(lambda ch: run_impl(IMPL, {'cases': ch}, timeout=1800)['results'], chunks):
            results += out
    second, where = [], []
    for ci, (c, r) in enumerate(zip(cases, results)):
        if c['kind'] != 'engine' or 'items' not in r:
            continue
        red = []
        for ii, it in enumerate(r['items']):
            if it.get('failing', {}).get('ok'):
                red.append((ii, [it['mode'], c['txns'].index(it['txn']), it['failing']['ok']]))
        if red:
            second.append(dict(c, kind='engine_reduced', reduce=[x for _, x in red]))
            where.append((ci, [ii for ii, _ in red]))
    chunks = [second[i:i + chunk] for i in range(0, len(second), chunk)]
    res2 = []
    with ThreadPoolExecutor(max_workers=workers) as ex:
        for out in ex.map(lambda ch: run_impl(IMPL, {'cases': ch}, timeout=1800)['results'], chunks):
            res2 += out
    for (ci, iis), r2 in zip(where, res2):
        if 'fresh_reduced' not in r2:
            continue
        for ii, fr in zip(iis, r2['fresh_reduced']):
            results[ci]['items'][ii]['fresh_reduced'] = fr
    return results


def shrink_engine(case, sig):
    def fails(c):
        r = evaluate_cases([c], workers=1)[0]
        return any(s == sig for s, _ in oracle(c, r))
    cur = json.loads(json.dumps(case))
    changed = True
    while changed:
        changed = False
        for i in range(len(cur['rules'])):
            if len(cur['rules']) <= 1:
                break
            c2 = json.loads(json.dumps(cur))
            del c2['rules'][i]
            if fails(c2):
                cur, changed = c2, True
                break
        for key in ('variables', 'transforms'):
            if cur.get(key):
                c2 = json.loads(json.dumps(cur))
                c2[key] = []
                if fails(c2):
                    cur, changed = c2, True
        if len(cur['txns']) > 1:
            for i in range(len(cur['txns'])):
                c2 = json.loads(json.dumps(cur))
                c2['txns'] = [cur['txns'][i]]
                if fails(c2):
                    cur, changed = c2, True
                    break
    return cur


def main(tier):
    run = Run('C08', tier)
    run.assumptions = [
        'every exception class raised while evaluating a whitelisted expression is a subclass of Exception (SystemExit, '
        'KeyboardInterrupt, GeneratorExit are not reachable from the expression language: C03)',
        'tools/c08_catch_sites.py finds every call of an evaluation entry point outside expr_parser.py (syntactic: calls through '
        'expr_parser.<entry>, bare entry names, evaluator.evaluate) and reads the innermost enclosing try',
        '"failing for this item" is decided by the implementation\'s own evaluator (ExpressionError); the loop semantics that a '
        'skipped rule has no influence is proved in the engine model (C01/C02/C09) and tested here by deletion',
        'process-level failures (MemoryError, recursion limit in CPython itself) are outside the model']
    tfails = regen_gen()
    res = run.proof_step(COQ_FILES, extra_trusted=['tools/c08_catch_sites.py (syntactic extractor)',
                                                   'harness/c08.py + impl_c08.py (ill-typed stream, deletion oracle)'])
    res2 = run.proof_step(COQ_FILES_EVAL, extra_trusted=['coq/theories/Expr (hand model of the evaluator, tied to the code by the C04 correspondence)'])
    broken = []
    if tfails:
        run.cov['discharged'] = 0
        broken.append({'kind': 'translation-failure', 'detail': tfails})
    elif not res['ok']:
        broken.append({'kind': 'broken-obligation', 'detail': first_error(res['log'])})
    elif not res2['ok']:
        broken.append({'kind': 'broken-obligation', 'detail': first_error(res2['log'])})
    if res['hygiene'] or res2['hygiene']:
        broken.append({'kind': 'hygiene', 'detail': res['hygiene'] + res2['hygiene']})

    rnd = random.Random(run.seed)
    n_e, n_v, n_r = (250, 150, 40) if tier == 'quick' else (6000, 3000, 600)
    cases = []
    # every ill-typed condition alone in front of a good rule, in every position kind (systematic part)
    for ill in ILL + OVERFLOW:
        cases.append({'kind': 'engine', 'modes': ['first_match', 'most_specific'], 'variables': [], 'transforms': [],
                      'data_sources': {'rows': [{'item': 'Book', 'amount': 12.5}], 'empty': []},
                      'rules': [{'name': 'Bad', 'match': ill, 'category': 'X', 'tags': ['bad']},
                                {'name': 'Good', 'match': 'contains("NETFLIX")', 'category': 'Subs', 'subcategory': 'Stream',
                                 'tags': ['ok', '{' + rnd.choice(ILL_VALUE) + '}'], 'lets': [('w', rnd.choice(ILL_VALUE))],
                                 'fields': [('f', rnd.choice(ILL_VALUE))]}],
                      'txns': [{'description': 'NETFLIX.COM #1234', 'amount': -15.99, 'date': '2025-02-28', 'source': 'Amex', 'field': None}]})
    for bad in TAG_ONLY_ILL + ILL_VALUE + LAZY_VALUE:
        for pos in (0, 1):
            tags = ['ok', '{' + bad + '}'] if pos else ['{' + bad + '}', 'ok']
            cases.append({'kind': 'engine', 'modes': ['first_match', 'most_specific'], 'variables': [], 'transforms': [],
                          'data_sources': {'rows': [{'item': 'Book', 'amount': 12.5}], 'empty': []},
                          'rules': [{'name': 'Tagger', 'match': 'amount != 0', 'tags': tags},
                                    {'name': 'Good', 'match': 'contains("NETFLIX")', 'category': 'Subs', 'subcategory': 'Stream',
                                     'tags': ['{' + bad + '}', 'good{' + bad + '}x', '{source}']},
                                    {'name': 'Late', 'match': 'true', 'tags': ['late']}],
                          'txns': [{'description': 'NETFLIX.COM #1234', 'amount': -15.99, 'date': '2025-02-28', 'source': 'Amex', 'field': None},
                                   {'description': 'NETFLIX.COM #1234', 'amount': 20.0, 'date': None, 'source': 'Amex', 'field': {'memo': 'm'}}]})
    # an ill-typed call and a well-typed call sharing the same literal (a failure must not be remembered for the literal)
    shared = [('regex(amount, "NETFLIX")', 'regex("NETFLIX")'), ('regex(rows, "\\.COM")', 'regex("\\.COM")'),
              ('regex(description, 5)', 'regex("5|NETFLIX")'), ('extract(amount, "#(\\d+)") == "1"', 'extract("#(\\d+)") == "1234"'),
              ('regex_replace(amount, "NETFLIX", "") == ""', 'regex_replace(description, "NETFLIX", "") == ".COM #1234"'),
              ('contains(amount, "NETFLIX")', 'contains("NETFLIX")'), ('normalized(amount, "NETFLIX")', 'normalized("NETFLIX")'),
              ('startswith(amount, "NETFLIX")', 'startswith("NETFLIX")'), ('fuzzy(amount, "NETFLIX")', 'fuzzy("NETFLIX")'),
              ('anyof(amount, "NETFLIX")', 'anyof("NETFLIX", "HULU")'), ('split(amount, " ", 0) == "x"', 'split(description, " ", 0) == "NETFLIX.COM"'),
              ('regex("NETFLIX(")', 'regex("NETFLIX")'), ('uppercase(amount) == "X"', 'uppercase(description) == "NETFLIX.COM #1234"'),
              ('date > "NETFLIX"', 'contains("NETFLIX")'), ('field.memo == "NETFLIX"', 'contains("NETFLIX")')]
    for ill, good in shared:
        for where in ('match', 'let', 'tag', 'field'):
            bad_rule = {'name': 'Bad', 'match': ill, 'category': 'X', 'tags': ['bad']} if where == 'match' else \
                {'name': 'Bad', 'match': 'amount > 99999', 'category': 'X', 'lets': [('w', ill)] if where == 'let' else [],
                 'tags': ['{' + ill + '}'] if where == 'tag' else [], 'fields': [('f', ill)] if where == 'field' else []}
            if where != 'match':
                bad_rule['match'] = 'amount != 0'
                bad_rule.pop('category')
                bad_rule['tags'] = bad_rule['tags'] + ['seen']
            cases.append({'kind': 'engine', 'modes': ['first_match', 'most_specific'], 'variables': [], 'transforms': [],
                          'data_sources': {'rows': [{'item': 'Book', 'amount': 12.5}], 'empty': []},
                          'rules': [bad_rule, {'name': 'Good', 'match': good, 'category': 'Subs', 'subcategory': 'Stream', 'tags': ['ok']}],
                          'expect': {'rule': 'Good', 'tags': ['ok']},
                          'txns': [{'description': 'NETFLIX.COM #1234', 'amount': -15.99, 'date': '2025-02-28', 'source': 'Amex', 'field': None},
                                   {'description': 'NETFLIX.COM #1234', 'amount': 15.99, 'date': None, 'source': 'Amex', 'field': None}]})
    # date literals of the right SHAPE that name no calendar day: the comparison cannot be evaluated, whatever the operator
    for lit in ['2025-06-31', '2025-02-30', '2025-13-01', '2025-00-10', '2025-02-29', '0000-01-01', '2025-04-31', '2025-12-32']:
        for op in ['<=', '<', '>=', '>', '==', '!=']:
            for side in (0, 1):
                cond = f'date {op} "{lit}"' if side == 0 else f'"{lit}" {op} date'
                cases.append({'kind': 'engine', 'modes': ['first_match', 'most_specific'], 'variables': [], 'transforms': [],
                              'data_sources': {'rows': [{'item': 'Book', 'amount': 12.5}], 'empty': []},
                              'rules': [{'name': 'Bad', 'match': f'contains("NETFLIX") and {cond}', 'category': 'X', 'tags': ['bad']},
                                        {'name': 'BadTag', 'match': cond, 'tags': ['badtag']},
                                        {'name': 'Good', 'match': 'contains("NETFLIX")', 'category': 'Subs', 'subcategory': 'Stream', 'tags': ['ok']}],
                              'expect': {'rule': 'Good', 'tags': ['ok'], 'not_tags': ['bad', 'badtag']},
                              'txns': [{'description': 'NETFLIX.COM #1234', 'amount': -15.99, 'date': '2025-03-15', 'source': 'Amex', 'field': None},
                                       {'description': 'NETFLIX.COM #1234', 'amount': -15.99, 'date': '2025-12-31', 'source': 'Amex', 'field': None}]})
    for nm, reader in [('amount', 'amount > 100'), ('big', 'big'), ('seen', 'seen == 1 or contains("COFFEE")')]:
        for tail in ['contains(5)', 'amount > "x"', 'field.nope == 1']:
            for with_var in (True, False):
                cases.append({'kind': 'engine', 'modes': ['first_match', 'most_specific'], 'transforms': [],
                              'variables': [('big', 'amount > 100')] if with_var else [],
                              'data_sources': {'rows': [{'item': 'Book', 'amount': 12.5}], 'empty': []},
                              'rules': [{'name': 'Bad', 'match': f'({nm} := 0) == 0 and {tail}', 'category': 'X'},
                                        {'name': 'Reader', 'match': reader, 'category': 'Big', 'tags': ['r']},
                                        {'name': 'Coffee', 'match': 'contains("COFFEE")', 'category': 'Food'}],
                              'txns': [{'description': 'BLUE BOTTLE COFFEE QTY 12', 'amount': 150.0, 'date': '2025-02-28', 'source': 'Amex', 'field': None},
                                       {'description': 'COFFEE SHOP - SEATTLE', 'amount': 12.5, 'date': '2025-02-28', 'source': 'Amex', 'field': None}]})
    for ill in VILL + [f'total / {BIG} > 0', 'round(total * 1e308 * 1e308) > 0']:
        cases.append({'kind': 'views', 'variables': [], 'views': [{'name': 'Bad', 'filter': ill}, {'name': 'Good', 'filter': 'total > 1'}],
                      'merchants': [{'name': 'M0', 'category': 'Food', 'subcategory': 'Cafe', 'tags': ['coffee'],
                                     'payments': [{'amount': 25.5, 'date': '2025-01-03'}, {'amount': 8.0, 'date': '2025-02-03'}]}]})
    # systematic: a view whose LOCAL variable fails (or merely shadows) placed before a view that reads a same-named global /
    # primitive — the later view must be unaffected (its result must equal the result with the failing view removed)
    for ln, gdef, reader in [('monthly', 'total / months', 'monthly > 5 and months >= 1'), ('g', 'total * 2', 'g > 10'),
                             ('lim', '10', 'total > lim'), ('total', None, 'total > 20'), ('months', None, 'months >= 1')]:
        for bad_local in ['sum(by("month")) / months', 'category + 1', 'nope', 'total > "x"']:
            for order in (0, 1):
                vs = [{'name': 'Spiky', 'filter': f'{ln} > 1', 'locals': [(ln, bad_local)]}, {'name': 'Regular', 'filter': reader}]
                cases.append({'kind': 'views', 'variables': [(ln, gdef)] if gdef else [], 'views': vs if order == 0 else vs[::-1],
                              'merchants': [{'name': 'Grocer', 'category': 'Food', 'subcategory': 'x', 'tags': [],
                                             'payments': [{'amount': 120.0, 'date': '2025-01-03'}, {'amount': 64.0, 'date': '2025-02-03'}]},
                                            {'name': 'Kiosk', 'category': 'Fun', 'subcategory': 'x', 'tags': ['coffee'],
                                             'payments': [{'amount': 8.0, 'date': '2025-03-03'}]}]})
    # a let binding that fails, followed by an INDEPENDENT binding whose text merely contains the failed name (in a string literal,
    # as an attribute or function-argument name): the later binding keeps its own value
    for bad_let in ['next(r for r in rows if r.amount == 99999)', 'field.nope', 'description + 1', 'rows[9].item']:
        for nm, later in [('order', 'contains("NETFLIX") or contains("MAIL ORDER")'), ('memo', 'contains("NETFLIX") and not contains("memo")'),
                          ('item', 'any(r.item == "Book" for r in rows)'), ('amount2', 'amount != 0 or "amount2" == ""'),
                          ('x', 'regex("NETFLIX|x")')]:
            for mode_let_first in (True, False):
                lets = [(nm, bad_let), ('shop', later)] if mode_let_first else [('shop', later), (nm, bad_let)]
                cases.append({'kind': 'engine', 'modes': ['first_match', 'most_specific'], 'variables': [], 'transforms': [],
                              'data_sources': {'rows': [{'item': 'Book', 'amount': 12.5}], 'empty': []},
                              'rules': [{'name': 'Good', 'match': 'shop', 'category': 'Subs', 'subcategory': 'Stream', 'tags': ['ok', '{shop}'], 'lets': lets},
                                        {'name': 'Late', 'match': 'true', 'category': 'Other'}],
                              'expect': {'rule': 'Good', 'tags': ['ok']},
                              'txns': [{'description': 'NETFLIX.COM #1234', 'amount': -15.99, 'date': '2025-02-28', 'source': 'Amex', 'field': None}]})
    # legacy CSV rules with dynamic tags that cannot be evaluated (the legacy path resolves tags with its own evaluator)
    wd = os.path.join(WORK, 'C08rows')
    os.makedirs(wd, exist_ok=True)
    for bad in ILL_VALUE + ['"big" if amount > 100 else description - 1', 'amount + description', 'len(amount)', 'amount // 10',
                                         'extract("(")', '-description', 'amount.upper()', 'description % 2', 'nope(1)']:
        cases.append({'kind': 'legacy', 'workdir': wd,
                      'rows': [['NETFLIX', 'Netflix', 'Subs', 'Stream', ['ok', '{' + bad + '}']],
                               ['COFFEE', 'Coffee', 'Food', 'Cafe', ['{' + bad + '}', 'cafe', '{uppercase(description)}']],
                               ['.', '', '', '', ['{' + bad + '}', 'any']]],
                      'bad_tags': [[0, '{' + bad + '}'], [1, '{' + bad + '}'], [2, '{' + bad + '}']],
                      'txns': [{'description': 'NETFLIX.COM #1234', 'amount': 15.99, 'date': '2025-02-28'},
                               {'description': 'COFFEE SHOP - SEATTLE', 'amount': 150.0, 'date': '2025-03-01'},
                               {'description': 'HULU', 'amount': 9.0, 'date': '2025-03-02'}]})
    cases += [gen_engine_case(rnd) for _ in range(n_e)]
    cases += [gen_views_case(rnd) for _ in range(n_v)]
    wd = os.path.join(WORK, 'C08rows')
    os.makedirs(wd, exist_ok=True)
    for _ in range(n_r):
        c = gen_engine_case(rnd)
        c['kind'] = 'rows'
        c['workdir'] = wd
        c['txns'] = [{'description': rnd.choice(DESCS), 'amount': rnd.choice([-5.0, 12.5, 150.0, 2500.0]),
                      'date': rnd.choice(['2025-02-28', '2025-12-31'])} for _ in range(4)]
        # field transforms go through apply_transforms (normalize_merchant path): a transform that evaluates fine but targets a
        # custom field on a source WITHOUT captures (field is None), an ill-typed one, an overflowing one
        c['transforms'] = rnd.choice([[], [('field.memo', 'uppercase(description)')], [('field.description', 'description + 1')],
                                      [('field.kind', 'lowercase(source)'), ('field.description', 'regex_replace(field.description, "^SQ \\*", "")')],
                                      [('field.description', f'amount / {BIG}')], [('field.x', 'field.nope')]])
        # rules whose condition is ill-typed for EVERY transaction: those using a constant ill-typed match
        c['all_failing'] = [i for i, r in enumerate(c['rules']) if r['match'] in ILL and r['match'] not in
                            ('field.nope == "a"',)]
        cases.append(c)
    results = evaluate_cases(cases)
    import shutil
    shutil.rmtree(wd, ignore_errors=True)

    by_sig = {}
    nontrivial = set()
    n_failing_items = 0
    for c, r in zip(cases, results):
        for sig, detail in oracle(c, r):
            by_sig.setdefault(sig, []).append((c, r, detail))
        if c['kind'] == 'engine' and 'items' in r:
            for it in r['items']:
                if it.get('failing', {}).get('ok'):
                    n_failing_items += 1
                    nontrivial.add(json.dumps([c['rules'], it['txn'], it['mode']], sort_keys=True))
        if c['kind'] == 'views' and r.get('failing', {}).get('ok'):
            nontrivial.add(json.dumps([c['views'], c['merchants']], sort_keys=True))
    reported = 0
    for sig, items in by_sig.items():
        c, r, detail = min(items, key=lambda x: len(json.dumps(x[0])))
        if c['kind'] == 'engine' and tier:
            try:
                c = shrink_engine(c, sig)
            except Exception:  # noqa
                pass
        c = {k: v for k, v in c.items() if k != 'workdir'}
        if run.violation('oracle', {'kind': 'counterexample', 'case': c, 'detail': detail,
                                    'expected': 'classification completes; result equals the result with the failing rules/views removed',
                                    'obligation': 'C08 direct oracle', 'n_cases': len(items), 'broken': broken}, signature=sig):
            reported += 1
    if broken and not reported:
        run.violation('broken', {'kind': broken[0]['kind'], 'obligation': (broken[0]['detail'].get('obligation')
                                 if isinstance(broken[0].get('detail'), dict) else None), 'broken': broken,
                                 'searched': f'{len(cases)} rule/view files with ill-typed expressions; none aborts or changes other results'},
                      found_input=False)
    run.cov.update({'evaluations': len(cases), 'distinct_nontrivial': len(nontrivial),
                    'rule': 'rule files (2-6 rules, 40% ill-typed conditions from a 38-entry catalogue of wrong-type / missing-field / bad-regex / '
                            'empty-sequence / exhausted-generator expressions, ill-typed let/field/tag/variable/transform expressions), both rule '
                            'modes, 3 transactions each; views files with ill-typed filters and variables; CSV parsing with such rules. '
                            'non-trivial = distinct (file, item) pairs in which at least one rule/view actually fails to evaluate',
                    'samples': [{k: v for k, v in cases[0].items()}, {k: v for k, v in cases[len(ILL) + 2].items()}],
                    'items_with_failing_rule': n_failing_items,
                    'sites_in_table': len(re.findall(r'^  \(', open(os.path.join(COQ, 'theories/Gen/C08CatchSites.v')).read(), re.M)),
                    'translation_failures': tfails})
    run.finish()


def replay(path):
    obj = json.load(open(path))
    if obj.get('kind') != 'counterexample':
        main('quick')
    c = obj['case']
    if c['kind'] in ('rows', 'legacy'):
        c['workdir'] = os.path.join(WORK, 'C08rows')
        os.makedirs(c['workdir'], exist_ok=True)
    r = evaluate_cases([c], workers=1)[0]
    bad = oracle(c, r)
    print(json.dumps({'oracle': bad}, indent=1, default=str)[:3000])
    if bad:
        print(f'VIOLATION property=C08 replay={path}')
        return 1
    return 0
