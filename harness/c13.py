"""C13 — in-browser classification equals command-line classification.
Proof: Gen/ClassificationPy.v and Gen/ClassificationJs.v are regenerated from /repo and
C13/Props.v is re-checked.  Tie/search: node-vs-python differential (bit-exact doubles) and a
vm_compute run of the translated Python model against the implementation."""
import itertools
import json
import os
import random
import struct
import subprocess
import tempfile

from common import *
import c13_browser
import py2coq
import js2coq

COQ_FILES = ['Lib/Str.v', 'Lib/NumOps.v', 'Gen/ClassificationPy.v', 'Gen/ClassificationJs.v', 'C13/Proofs.v',
             'C13/Props.v']
JS_ROOTS = ['categorizeAmount', 'isExcludedFromSpending', 'calculateCashFlow', 'isIncome', 'isTransfer',
            'isInvestment']
PY_FNS = ['categorize_amount', 'is_excluded_from_spending', 'calculate_cash_flow', 'is_income', 'is_transfer',
          'is_investment', 'normalize_amount', 'calculate_transfers_net']


def translate_classification(run):
    """Regenerate Gen/Classification{Py,Js}.v. Returns list of translation failures."""
    fails = []
    try:
        regen('Gen/ClassificationPy.v', py2coq.translate_module(os.path.join(SRC, 'classification.py'),
                                                                'classification.py', 'ClassificationPy', PY_FNS))
    except (py2coq.Untranslatable, SyntaxError, OSError) as e:
        fails.append({'translator': 'py2coq', 'error': str(e)})
    try:
        regen('Gen/ClassificationJs.v', js2coq.translate(os.path.join(SRC, 'spending_report.js'),
                                                         'ClassificationJs', JS_ROOTS))
    except (js2coq.Untranslatable, OSError, subprocess.SubprocessError, ValueError) as e:
        fails.append({'translator': 'js2coq', 'error': str(e)})
    return fails


def regen_gen():
    return translate_classification(None)


def f2hex(x):
    return struct.pack('>d', x).hex()


def hex2f(h):
    return struct.unpack('>d', bytes.fromhex(h))[0]


def gen_inputs(seed, n_random):
    rnd = random.Random(seed)
    amounts = [0.0, -0.0, 5e-324, -5e-324, 0.01, -0.01, 1.0, -1.0, 12.5, -12.5, 0.1 + 0.2, 1e16, -1e16, 1.7976931348623157e308,
               -1.7976931348623157e308, float('inf'), float('-inf'), float('nan'), 2.2250738585072014e-308, 99999.99]
    special = ['income', 'transfer', 'investment']

    def casings(w):
        return [w, w.upper(), w.title(), ''.join(c.upper() if i % 2 else c for i, c in enumerate(w))]
    tag_lists = [None, []]
    for r in range(0, 4):
        for sub in itertools.combinations(special, r):
            for variant in range(4):
                l = [casings(w)[variant] for w in sub]
                tag_lists.append(l)
                tag_lists.append(['food'] + l + ['Recurring'])
                tag_lists.append(list(reversed(l)) + ['income tax'])
    tag_lists += [[' income'], ['income '], ['incomes'], ['İncome'], ['INCOMĖ'], ['tranſfer'],
                  ['K'], ['inveſtment', 'x'], ['Income', 'income'], ['Épicerie', 'TRANSFER']]
    # whitespace-like code points around a special tag: Python str.strip() and JS String.trim() (and any other
    # normalisation both sides might apply) do not agree on all of them
    edge = ['\x09', '\x0b', '\x0c', '\x1c', '\x1d', '\x1e', '\x1f', '\x85', '\xa0', '\u1680', '\u2003', '\u2028', '\u2029',
            '\u202f', '\u205f', '\u3000', '\ufeff', '\u200b', '\u180e', '\x00']
    for w in special:
        for ch in edge:
            tag_lists += [[ch + w], [w + ch], [ch + w.upper() + ch, 'food']]
    # tags that are property names of JS objects, and tags containing separators either side might split or join on
    for w in ['constructor', '__proto__', 'toString', 'hasOwnProperty', 'valueOf', 'prototype', 'length', 'size', 'has', 'Constructor',
              '__PROTO__', '__defineGetter__', 'isPrototypeOf']:
        tag_lists += [[w], [w, 'food'], ['Income', w]]
    for sep in [',', ';', '|', ' ', '/', ':', '\t', '\n', ', ']:
        for w in special:
            tag_lists += [['bonus' + sep + w], [w + sep + 'tax'], ['a' + sep + w.upper() + sep + 'b'], ['transfer', 'salary' + sep + w]]
    cases = [(a, t) for a in amounts for t in tag_lists]
    for _ in range(n_random):
        a = rnd.choice([rnd.uniform(-1e4, 1e4), rnd.randint(-10**6, 10**6) / 100.0, rnd.choice(amounts)])
        k = rnd.randint(0, 4)
        t = [rnd.choice(casings(rnd.choice(special + ['food', 'gas', 'refund']))) for _ in range(k)]
        cases.append((a, rnd.choice([t, t, t, None])))
    return cases


NODE_DRIVER = r'''
const fs = require('fs');
const cases = JSON.parse(fs.readFileSync(process.argv[2], 'utf8'));
function hex(x) { const b = Buffer.alloc(8); b.writeDoubleBE(x); return b.toString('hex'); }
function unhex(h) { return Buffer.from(h, 'hex').readDoubleBE(0); }
const out = [];
for (const c of cases) {
  const a = unhex(c[0]), t = c[1];
  let r;
  try {
    const b = categorizeAmount(a, t);
    const keys = Object.keys(b).sort();
    r = {keys: keys, income: hex(b.income), investment: hex(b.investment), transfer_in: hex(b.transferIn),
         transfer_out: hex(b.transferOut), spending: hex(b.spending), credits: hex(b.credits),
         excluded: isExcludedFromSpending(t), is_income: isIncome(t), is_transfer: isTransfer(t),
         is_investment: isInvestment(t), cash_flow: hex(calculateCashFlow(a, unhex(c[2]), unhex(c[3])))};
  } catch (e) { r = {error: String(e)}; }
  out.push(r);
}
process.stdout.write(JSON.stringify(out));
'''

NODE_LOWER = r'''
const out = {};
for (let cp = 0; cp < 0x110000; cp++) {
  if (cp >= 0xD800 && cp <= 0xDFFF) continue;
  const l = String.fromCodePoint(cp).toLowerCase();
  if (/^[\x00-\x7f]*$/.test(l) && cp > 127) out[cp] = l;
}
process.stdout.write(JSON.stringify(out));
'''

PY_DRIVER = os.path.join(os.path.dirname(os.path.abspath(__file__)), 'impl_c13.py')


def run_node(cases):
    src = js2coq.needed_source(os.path.join(SRC, 'spending_report.js'), JS_ROOTS)
    d = os.path.join(WORK, 'C13')
    os.makedirs(d, exist_ok=True)
    with open(os.path.join(d, 'drv.js'), 'w') as f:
        f.write(src + '\n' + NODE_DRIVER)
    with open(os.path.join(d, 'cases.json'), 'w') as f:
        json.dump(cases, f)
    p = subprocess.run(['node', os.path.join(d, 'drv.js'), os.path.join(d, 'cases.json')], capture_output=True,
                       text=True, timeout=300)
    if p.returncode != 0:
        raise RuntimeError('node driver failed: ' + p.stderr[-500:])
    return json.loads(p.stdout)


def coq_float(h):
    x = hex2f(h)
    if x != x:
        return 'nan'
    if x == float('inf'):
        return 'infinity'
    if x == float('-inf'):
        return 'neg_infinity'
    s = x.hex()
    return f'({s})' if s.startswith('-') else s


def coq_tags(t):
    if t is None:
        return 'None'
    return 'Some [' + '; '.join(coq_str(x) for x in t) + ']'


CASES_HEADER = '''From Coq Require Import Floats List ZArith String Bool.
From Tally Require Import Lib.Str Lib.NumOps Gen.ClassificationPy C13.Proofs.
Import ListNotations.
Open Scope float_scope.
Definition sbytes (l : list N) : string := fold_right (fun n s => String (Ascii.ascii_of_N n) s) EmptyString l.
Definition sf_eqb (a b : float) : bool :=
  match Prim2SF a, Prim2SF b with
  | SpecFloat.S754_zero s, SpecFloat.S754_zero t => Bool.eqb s t
  | SpecFloat.S754_infinity s, SpecFloat.S754_infinity t => Bool.eqb s t
  | SpecFloat.S754_nan, SpecFloat.S754_nan => true
  | SpecFloat.S754_finite s m e, SpecFloat.S754_finite t n f => (Bool.eqb s t && Pos.eqb m n && Z.eqb e f)%bool
  | _, _ => false
  end.
Fixpoint all2 (l1 l2 : list float) : bool :=
  match l1, l2 with [] , [] => true | a :: r, b :: s => (sf_eqb a b && all2 r s)%bool | _, _ => false end.
Definition O := float_ops lower.
Definition ok (c : float * option (list string) * list float * (bool * bool * bool * bool) * float) : bool :=
  let '(a, t, bs, (ex, ii, it, iv), na) := c in
  (all2 (buckets 0 py_keys (Py.categorize_amount O a t)) bs
   && Bool.eqb (Py.is_excluded_from_spending O t) ex && Bool.eqb (Py.is_income O t) ii
   && Bool.eqb (Py.is_transfer O t) it && Bool.eqb (Py.is_investment O t) iv
   && sf_eqb (Py.normalize_amount O a t) na)%bool.
Fixpoint failing (i : nat) (l : list _) : list nat :=
  match l with [] => [] | c :: r => if ok c then failing (S i) r else i :: failing (S i) r end.
'''


def model_vs_impl(cases, py_out):
    """Evaluate the translated Python model in Coq (vm_compute) and compare with the implementation,
    on cases whose tags are ASCII (the model's `lower` is ASCII-exact)."""
    rows, idx = [], []
    for i, ((a, t, _, _), r) in enumerate(zip(cases, py_out)):
        if 'error' in r:
            continue
        if t is not None and any(any(ord(c) > 127 for c in x) for x in t):
            continue
        bs = '[' + '; '.join(coq_float(r[k]) for k in ['income', 'investment', 'transfer_in', 'transfer_out',
                                                         'spending', 'credits']) + ']'
        bl = lambda b: 'true' if b else 'false'
        rows.append(f"({coq_float(a)}, {coq_tags(t)}, {bs}, ({bl(r['excluded'])}, {bl(r['is_income'])}, "
                    f"{bl(r['is_transfer'])}, {bl(r['is_investment'])}), {coq_float(r['normalize'])})")
        idx.append(i)
    body = 'Definition cases := [\n' + ';\n'.join(rows) + '\n].\nEval vm_compute in failing 0 cases.\n'
    rc, out, err = run_cases('C13', CASES_HEADER, body)
    if rc != 0:
        return None, idx, (out + err)[-800:]
    m = re.search(r'=\s*\[(.*?)\]\s*:\s*list nat', out, re.S)
    if not m:
        return None, idx, out[-500:]
    bad = [int(x) for x in m.group(1).replace('%nat', '').replace('\n', ' ').split(';') if x.strip()]
    return [idx[b] for b in bad], idx, ''


def main(tier):
    run = Run('C13', tier)
    run.assumptions = [
        'translators tools/py2coq.py and tools/js2coq.py (fail closed) faithfully render the loop-free subset they accept',
        'node 20 (bundled acorn parser; V8 number semantics = IEEE-754 binary64) and CPython 3.12 float',
        'str.lower and String.prototype.toLowerCase agree wherever the result is ASCII (swept over all code points each run)',
        'Vue rendering in the browser is outside the property']
    tfails = translate_classification(run)
    res = run.proof_step(COQ_FILES, extra_trusted=[
        'tools/py2coq.py, tools/js2coq.py + node bundled acorn (translators)',
        'differential harness harness/c13.py (node vs CPython, bit-exact doubles)'])
    broken = []
    if tfails:
        run.cov['discharged'] = 0   # the compiled theorems are about a stale translation, not the current source
        broken.append({'kind': 'translation-failure', 'detail': tfails})
    elif not res['ok']:
        broken.append({'kind': 'broken-obligation', 'detail': first_error(res['log'])})
    if res['hygiene']:
        broken.append({'kind': 'hygiene', 'detail': res['hygiene']})

    # ---- differential: node vs CPython (the direct oracle), and model vs CPython ----------
    n_random = 400 if tier == 'quick' else 20000
    raw = gen_inputs(run.seed, n_random)
    rnd = random.Random(run.seed + 1)
    cases = [(f2hex(a), t, f2hex(rnd.choice([0.0, 10.25, 1e3, -3.5])), f2hex(rnd.choice([0.0, 2.5, 1e-3])))
             for a, t in raw]
    py_out = run_impl(PY_DRIVER, {'cases': cases})
    mism = []
    try:
        js_out = run_node(cases)
    except Exception as e:  # the JS block no longer runs stand-alone
        js_out = None
        broken.append({'kind': 'js-block-not-runnable', 'detail': str(e)})
    keys = ['income', 'investment', 'transfer_in', 'transfer_out', 'spending', 'credits', 'excluded', 'is_income',
            'is_transfer', 'is_investment', 'cash_flow']
    if js_out is not None:
        for ci, (c, p, j) in enumerate(zip(cases, py_out['results'], js_out)):
            if 'error' in p or 'error' in j:
                if ('error' in p) != ('error' in j):
                    mism.append({'amount': hex2f(c[0]), 'amount_hex': c[0], 'tags': c[1], 'python': p, 'js': j, 'index': ci})
                continue
            d = [k for k in keys if p[k] != j[k]]
            if d or sorted(p['keys']) != sorted({'transferIn': 'transfer_in', 'transferOut': 'transfer_out'}.get(k, k) for k in j['keys']):
                mism.append({'amount': hex2f(c[0]), 'amount_hex': c[0], 'tags': c[1], 'differs_in': d,
                             'python': p, 'js': j, 'spending_arg': c[2], 'credits_arg': c[3], 'index': ci})
    # lower-casing sweep
    pl = py_out['ascii_lower']
    jl = json.loads(subprocess.run(['node', '-e', NODE_LOWER], capture_output=True, text=True, timeout=120).stdout)
    lower_diff = {k: (pl.get(k), jl.get(k)) for k in set(pl) | set(jl) if pl.get(k) != jl.get(k)}
    if lower_diff:
        # a code point that lower-cases to ASCII on one side only: build the concrete tag if it hits a special tag
        for k, (a, b) in lower_diff.items():
            for w in ['income', 'transfer', 'investment']:
                for res_l in (a, b):
                    if res_l and res_l in w:
                        tag = w.replace(res_l, chr(int(k)), 1)
                        mism.append({'amount': 1.0, 'amount_hex': f2hex(1.0), 'tags': [tag],
                                     'note': f'str.lower/toLowerCase differ on U+{int(k):04X}'})
    # model vs implementation (validates py2coq and the ASCII-lower model)
    model_bad, model_idx, model_err = (None, [], 'skipped: proof/translation broken')
    if not tfails and res['ok']:
        mcases = [(hex2f(c[0]) if False else c[0], c[1], c[2], c[3]) for c in cases]
        sample = mcases if tier == 'thorough' else mcases[:1500]
        model_bad, model_idx, model_err = model_vs_impl(sample, py_out['results'][:len(sample)])
        if model_bad is None:
            broken.append({'kind': 'broken-correspondence', 'detail': 'cases.v did not evaluate: ' + model_err,
                           'obligation': 'model_vs_impl(Gen.ClassificationPy, classification.py)'})
        elif model_bad:
            c = cases[model_bad[0]]
            broken.append({'kind': 'broken-correspondence', 'obligation': 'model_vs_impl(Gen.ClassificationPy, classification.py)',
                           'detail': {'amount_hex': c[0], 'tags': c[1], 'python': py_out['results'][model_bad[0]]}})

    nontrivial = set()
    for c, p in zip(cases, py_out['results']):
        if 'error' not in p and c[1]:
            nz = [k for k in keys[:6] if hex2f(p[k]) != 0]
            nontrivial.add((c[0], tuple(c[1])))
    run.cov['evaluations'] = len(cases) + len(model_idx)
    run.cov['distinct_nontrivial'] = len(nontrivial)
    run.cov['rule'] = ('boundary doubles (±0, denormal, max, ±inf, nan, 0.1+0.2) x every subset of the special tags in 4 letter '
                       'cases, mixed with ordinary/near-miss/non-ASCII tags, missing tags; plus random; distinct & non-trivial = '
                       'distinct (amount bits, non-empty tag list) pairs')
    run.cov['samples'] = [{'amount': hex2f(c[0]), 'tags': c[1], 'python': {k: (hex2f(p[k]) if k in keys[:6] else p[k]) for k in keys[:10]}}
                          for c, p in list(zip(cases, py_out['results']))[37:40]]
    run.cov['node_vs_python_cases'] = len(cases)
    run.cov['model_vs_python_cases_in_coq'] = len(model_idx)
    run.cov['lower_sweep_codepoints'] = 0x110000 - 2048
    run.cov['lower_ascii_image_differences'] = len(lower_diff)
    run.cov['translation_failures'] = tfails
    run.cov['programs'] = 2
    run.cov['disagreements_checked'] = len(mism)

    if mism:
        m = min(mism, key=lambda x: (len(x.get('tags') or []), abs(x['amount']) if x['amount'] == x['amount'] else 0))
        if 'index' in m and not seq_differs([cases[m['index']]])[-1]:
            # the case agrees when evaluated on its own: the answer depends on what was classified before it
            # (state kept between calls on one side). Keep the shortest run of preceding cases that reproduces it.
            for m2 in sorted((x for x in mism if 'index' in x), key=lambda x: x['index']):
                i = m2['index']
                k = 1
                while k <= i and not seq_differs(cases[i - k:i + 1])[-1]:
                    k *= 2
                k = min(k, i)
                seq = cases[i - k:i + 1]
                if seq_differs(seq)[-1]:
                    while len(seq) > 2 and seq_differs(seq[1:])[-1]:
                        seq = seq[1:]
                    m = dict(m2, sequence=[list(x) for x in seq], history_dependent=True,
                             note='agrees when classified alone; differs after the preceding calls in one session')
                    break
        run.violation('diff', {'kind': 'counterexample', 'case': m, 'expected': 'Python and JS classification agree',
                               'obligation': 'c13_categorize_equiv / node-vs-python differential',
                               'broken': broken, 'n_mismatches': len(mism)})
    elif broken:
        run.violation('broken', {'kind': broken[0]['kind'], 'obligation': (broken[0].get('detail') or {}).get('obligation')
                                 if isinstance(broken[0].get('detail'), dict) else broken[0].get('obligation'),
                                 'broken': broken,
                                 'searched': f'{len(cases)} node-vs-python cases, none differ'}, found_input=False)
    # ---- consequence clause: the totals the application recomputes in the browser --------------------------------------
    bcov, bbroken, bfresh = c13_browser.check(run, tier, os.path.join(SRC, 'spending_report.js'))
    run.cov.update(bcov)
    if bbroken and not bfresh:
        run.violation('broken-browser', {'kind': bbroken[0]['kind'], 'obligation': bbroken[0].get('obligation'), 'broken': bbroken,
                                         'searched': f"{bcov.get('app_filter_evaluations', 0)} (data, filter) evaluations of the real "
                                                     'application against the command line, none differs beyond the listed finding'},
                      found_input=False)
    run.finish()


KEYS = ['income', 'investment', 'transfer_in', 'transfer_out', 'spending', 'credits', 'excluded', 'is_income',
        'is_transfer', 'is_investment', 'cash_flow']


def seq_differs(seq):
    """Classify the cases one after the other in ONE python process and ONE node process; per case, the keys on
    which the two sides differ."""
    seq = [tuple(x) for x in seq]
    ps = run_impl(PY_DRIVER, {'cases': seq})['results']
    js = run_node(seq)
    out = []
    for p, j in zip(ps, js):
        if 'error' in p or 'error' in j:
            out.append(['error'] if ('error' in p) != ('error' in j) else [])
        else:
            out.append([k for k in KEYS if p.get(k) != j.get(k)])
    return out


def replay(path):
    obj = json.load(open(path))
    if obj.get('kind') != 'counterexample':
        print(f'replay: {obj.get("kind")} — re-running the quick check')
        main('quick')
    c = obj['case']
    if obj.get('part') == 'browser-totals':
        laws, rr = c13_browser.replay_case(c, os.path.join(SRC, 'spending_report.js'))
        fresh = [l for l, k in laws if not k]
        print(json.dumps({'laws_failing': [l for l, _ in laws], 'known_finding_only': bool(laws) and not fresh, 'observed': rr}, indent=1)[:6000])
        if fresh or (laws and obj.get('signature') is None):
            print(f'VIOLATION property=C13 replay={path}')
            return 1
        if laws:
            print(f'KNOWN-FINDING: property=C13 {c13_browser.SIG} (reproduced)')
        return 0
    if c.get('sequence'):
        d = seq_differs(c['sequence'])
        print(json.dumps({'sequence': c['sequence'], 'differs_in_per_call': d}, indent=1))
        if any(d):
            print(f'VIOLATION property=C13 replay={path}')
            return 1
        return 0
    case = [(c['amount_hex'], c.get('tags'), c.get('spending_arg', f2hex(0.0)), c.get('credits_arg', f2hex(0.0)))]
    p = run_impl(PY_DRIVER, {'cases': case})['results'][0]
    j = run_node(case)[0]
    keys = ['income', 'investment', 'transfer_in', 'transfer_out', 'spending', 'credits', 'excluded', 'is_income',
            'is_transfer', 'is_investment', 'cash_flow']
    d = [k for k in keys if p.get(k) != j.get(k)]
    print(json.dumps({'case': c.get('tags'), 'amount': c['amount'], 'differs_in': d, 'python': p, 'js': j}, indent=1))
    if d:
        print(f'VIOLATION property=C13 replay={path}')
        return 1
    return 0
