"""C20 — commands never alter or overwrite the user's statements, rules or settings.

Proof: C20/Props.v over the write-set model C20/Model.v and Gen/C20WriteSites.v, which is REGENERATED from
$VERIF_REPO/src/tally/**/*.py on every run by tools/c20_write_sites.py (every write-capable call site with
function, kind, mode and guards; migration call sites and the assignments to their guard variables; per
command the reachable writer functions of a name-based over-approximating call graph).
Tie (dynamic): real CLI runs of random command sequences on generated budget directories under strace +
before/after content hashes (harness/impl_c20.py); the ordered successful mutating syscalls and the resulting
directory are compared, inside Coq, with the model's [effects] and [run] for the same budget and command.
Direct oracle (implementation outputs only): a mutating syscall outside the command's write set; a changed,
vanished or unexpectedly created file."""
import json
import os
import random
import shutil

from common import *
import c20_write_sites as wsx

COQ_FILES = ['Lib/Str.v', 'Gen/C20WriteSites.v', 'C20/Model.v', 'C20/Proofs.v', 'C20/Props.v']
IMPL = os.path.join(os.path.dirname(os.path.abspath(__file__)), 'impl_c20.py')
WORKDIR = os.path.join(WORK, 'C20', 'run')
SIBLINGS = ['spending_report.css', 'spending_report.js', 'spending_data.js']

DATA_ROWS = 'Date,Description,Amount\n2025-01-05,NETFLIX.COM,15.99\n2025-02-07,COFFEE SHOP,4.50\n2025-02-09,RENT PAYMENT,1200.00\n'
DATA_EMPTY = 'Date,Description,Amount\n'
RULES = '[Netflix]\nmatch: contains("NETFLIX")\ncategory: Subscriptions\nsubcategory: Streaming\n\n[Coffee]\nmatch: contains("COFFEE")\ncategory: Food\nsubcategory: Coffee\n'
CSV_VARIANTS = {
    'rules': 'Pattern,Merchant,Category,Subcategory\nNETFLIX,Netflix,Subscriptions,Streaming\nCOFFEE,Coffee Shop,Food,Coffee\n',
    'header': 'Pattern,Merchant,Category,Subcategory\n',
    'comments': 'Pattern,Merchant,Category,Subcategory\n# nothing yet\n\n   \n#NETFLIX,Netflix,Subscriptions,Streaming\n',
    'indented': 'Pattern,Merchant,Category,Subcategory\n  \t RENT,Landlord,Housing,Rent\n',
    'noheader': 'NETFLIX,Netflix,Subscriptions,Streaming\nCOFFEE,Coffee Shop,Food,Coffee\n',
    'empty': '',
    'blank': '\n\n',
}
VIEWS = '[Big]\ndescription: Large merchants\nfilter: total > 1000\n'
RULES_VARIANTS = {
    True: RULES,
    # files from which get_all_rules() obtains no rule: they are still the user's rules file
    'transforms': '# my clean-ups\nfield.description = regex_replace(field.description, "\\\\s+", " ")\nis_large = amount > 500\n',
    'syntaxerr': RULES + '\n[Rent]\nmatch: contains("RENT"\ncategory: Housing\nsubcategory: Rent\n',
    'empty': '',
    'comments': '# Tally Merchant Rules\n#\n# [Example]\n# match: contains("X")\n# category: C\n\n',
}
GITIGNORE_VARIANTS = {
    True: '# mine\nsecrets/\n',
    'own-style': '/data\n*.html\n',
    'repo': '__pycache__/\n*.pyc\nnode_modules/\n.env\n',
    'partial': 'data/\n',
    'tally': '# Tally - Ignore sensitive data\ndata/\noutput/\n',
    'no-newline': 'output/\n/data',
    'empty': '',
}
STRAYS = {'README.md': '# my budget\n', '{R}README.md': 'inner readme\n', '{R}config/README.txt': 'how I set this up\n',
          '{R}config/notes.md': '- remember rent\n', '{R}config/settings.yaml.orig': 'year: 2024\n',
          '{R}data/README': 'exports go here\n', '{R}data/2024-old.csv': 'Date,Description,Amount\n2024-01-01,OLD,1.00\n',
          'todo.txt': 'file taxes\n'}
BAK_OLD = 'Pattern,Merchant,Category,Subcategory\nOLDSTORE,Old Store,Shopping,Misc\n'


# settings may name the rules file freely: the user's rules then live under that name
CUSTOM_RULES_NAMES = {'custom': 'config/my.rules', 'custom-dir': 'rules/household.rules', 'custom-txt': 'config/my-merchants.txt',
                      'custom-missing': 'config/not-there.rules'}
MY_RULES = '# hand-written\n[Rent]\nmatch: contains("RENT")\ncategory: Housing\nsubcategory: Rent\n'


def settings_text(sources=True, mkey=None, vkey=False, outdir=None, html=None, extra='', desc_cleaning=False):
    t = 'year: 2025\ntitle: "Budget"\n'
    if desc_cleaning:      # a setting removed long ago: `up` refuses to run and must not touch anything
        t += 'description_cleaning:\n  - "\\\\s+#\\\\d+$"\n  - "^POS "\n'
    if sources:
        t += ('data_sources:\n  - name: Bank\n    file: data/bank.csv\n'
              '    format: "{date:%Y-%m-%d},{description},{amount}"\n')
    if outdir:
        t += f'output_dir: {outdir}\n'
    if html:
        t += f'html_filename: {html}\n'
    if mkey == 'rules':
        t += 'merchants_file: config/merchants.rules\n'
    elif mkey == 'commented':
        t += '# merchants_file: config/merchants.rules\n'
    elif mkey == 'empty':
        t += 'merchants_file: ""\n'
    elif mkey in CUSTOM_RULES_NAMES:
        t += f'merchants_file: {CUSTOM_RULES_NAMES[mkey]}\n'
    if vkey:
        t += 'views_file: config/views.rules\n'
    return t + extra


# the budget folder's own name reaches glob / format / expanduser-style APIs through abspath(): it is part of the input
DIRNAMES = ['budget', 'budget [2025]', 'my budget (shared)', 'b*d?et', '{year} plan {0}', '$HOME ~bud%get', 'b\u00fcdget-\u00e9',
            "o'brien \"q\" #1"]


def gen_budget(rnd, force=None):
    """a budget directory description; `force` pins some features (directed cases)"""
    f = dict(force or {})

    def pick(key, choices):
        if key not in f:
            f[key] = rnd.choice(choices)
        return f[key]
    layout = pick('layout', ['old', 'old', 'old', 'new', 'new', 'new', 'none'])
    pick('dirname', ['budget'] * 6 + DIRNAMES[1:])
    root = {'old': '', 'new': 'tally/', 'none': None}[layout]
    files, dirs = {}, []
    if pick('notes', [False, True]):
        files['notes.txt'] = 'my own notes\n'
    if root is None:
        if pick('stray', [False, True]):
            files['data/bank.csv'] = DATA_ROWS
        return {'files': files, 'dirs': dirs, 'links': {}, 'feat': f}
    dirs.append(root + 'config')
    st = pick('settings', ['full', 'full', 'full', 'full', 'nosources', 'absent'])
    if st != 'absent':
        files[root + 'config/settings.yaml'] = settings_text(
            sources=(st == 'full'), mkey=pick('mkey', [None, None, None, 'rules', 'rules', 'rules', 'commented', 'empty', 'custom',
                                                      'custom-dir', 'custom-txt', 'custom-missing']),
            vkey=pick('vkey', [False, True]), outdir=pick('outdir', [None, None, 'output', 'reports']),
            html=pick('html', [None, None, 'report.html']),
            extra=pick('settings_tail', ['', '', '# trailing comment without newline']),
            desc_cleaning=pick('desc_cleaning', [False] * 9 + [True]))
    if f.get('mkey') in CUSTOM_RULES_NAMES and f.get('mkey') != 'custom-missing' and st != 'absent':
        files[root + CUSTOM_RULES_NAMES[f['mkey']]] = MY_RULES
    rv = pick('rules', [False, False, False, True, True, True, 'transforms', 'syntaxerr', 'empty', 'comments'])
    if rv:
        files[root + 'config/merchants.rules'] = RULES_VARIANTS[rv]
    csv = pick('csv', [None, None, 'rules', 'rules', 'rules', 'header', 'comments', 'indented', 'noheader', 'empty', 'blank'])
    if csv:
        files[root + 'config/merchant_categories.csv'] = CSV_VARIANTS[csv]
    if pick('bak', [False, False, True]):
        files[root + 'config/merchant_categories.csv.bak'] = BAK_OLD
    if pick('views', [False, True]):
        files[root + 'config/views.rules'] = VIEWS
    gv = pick('gitignore', [False, False, True, 'own-style', 'repo', 'partial', 'tally', 'no-newline', 'empty'])
    if gv:
        files[root + '.gitignore'] = GITIGNORE_VARIANTS[gv]
    if root and pick('outer_gitignore', [False, False, True]):
        files['.gitignore'] = GITIGNORE_VARIANTS['repo']      # the budget sits in somebody's repository
    strays = pick('strays', [0, 0, 1, 2, 4, len(STRAYS)])
    for name in (sorted(STRAYS) if strays == len(STRAYS) else rnd.sample(sorted(STRAYS), strays)):
        files[name.replace('{R}', root)] = STRAYS[name]
    data = pick('data', ['rows', 'rows', 'rows', 'rows', 'empty', None])
    if data:
        files[root + 'data/bank.csv'] = DATA_ROWS if data == 'rows' else DATA_EMPTY
        if pick('otherdata', [False, True]):
            files[root + 'data/other.csv'] = 'a,b\n1,2\n'
    od = pick('existing_out', [None, None, 'empty', 'old'])
    outname = f.get('outdir') or 'output'
    if od == 'empty':
        dirs.append(root + outname)
    elif od == 'old':
        files[root + outname + '/' + (f.get('html') or 'spending_summary.html')] = '<html>OLD REPORT</html>\n'
        files[root + outname + '/keep.txt'] = 'keep me\n'
    links = {}
    ob = pick('out_obstacle', [None] * 8 + ['file', 'dangling']) if od is None else None
    if ob == 'file':
        files[root + outname] = 'not a directory\n'
    elif ob == 'dangling':
        links[root + outname] = '/mnt/usb-drive-not-mounted/reports'
    if pick('exports', [False, True]):
        dirs.append('exports')
    return {'files': files, 'dirs': dirs, 'links': links, 'feat': f}


INVOCATIONS = [None, None, None, 'abs', 'abs/', 'rel', 'rel/', './rel', './rel/', 'dot-in-config', 'parent-rel/', 'parent-rel',
               'env', 'env/']


def with_inv(rnd, spec, root):
    """attach a spelling of the config directory (the budget's real one) to up/explain/discover/diag"""
    if root is None:
        return spec
    inv = rnd.choice(INVOCATIONS)
    if inv is None or (spec['k'] == 'up' and spec.get('out') and inv in ('dot-in-config', 'parent-rel/', 'parent-rel')):
        return spec
    return dict(spec, inv=inv, cfgrel=root + 'config')


def gen_cmd(rnd, root):
    c = gen_cmd0(rnd, root)
    if c['k'] in ('up', 'explain', 'discover', 'diag'):
        return with_inv(rnd, c, root)
    if c['k'] == 'init' and c.get('target') == '.':
        return dict(c, spell=rnd.choice(['dot', 'abs', 'abs/', './']))
    return c


def gen_cmd0(rnd, root):
    r = rnd.random()
    dataf = (root or '') + 'data/bank.csv'
    if r < 0.30:
        out = None
        q = rnd.random()
        if q < 0.12:
            out = ['', 'custom.html']
        elif q < 0.22:
            out = ['exports', 'r.html']
        return {'k': 'up', 'migrate': rnd.random() < 0.35, 'embedded': rnd.random() < 0.65,
                'fmt': rnd.choice(['html', 'html', 'html', 'json', 'markdown', 'summary']), 'out': out}
    if r < 0.42:
        return {'k': 'explain', 'args': rnd.choice([[], ['Netflix'], ['--format', 'json']])}
    if r < 0.54:
        return {'k': 'discover', 'args': rnd.choice([[], ['--format', 'json'], ['--format', 'csv']])}
    if r < 0.64:
        return {'k': 'diag', 'args': rnd.choice([[], ['--format', 'json']])}
    if r < 0.74:
        return {'k': 'inspect', 'file': rnd.choice([dataf, dataf, 'data/bank.csv', 'nope.csv'])}
    if r < 0.89:
        return {'k': 'init', 'target': rnd.choice([None, None, None, '.', 'fresh'])}
    return {'k': rnd.choice(['workflow', 'update', 'reference'])}


def cmd_entry(c):
    """how the command is invoked: argv, working directory (relative to the budget dir), extra environment.
    '{B}' stands for the absolute path of the budget directory (substituted by the runner)."""
    argv, cwd, env = argv_of(c), '.', {}
    inv, cfg = c.get('inv'), c.get('cfgrel')
    if inv and cfg:
        arg = None
        if inv in ('abs', 'abs/'):
            arg = '{B}/' + cfg + ('/' if inv.endswith('/') else '')
        elif inv in ('rel', 'rel/'):
            arg = cfg + ('/' if inv.endswith('/') else '')
        elif inv in ('./rel', './rel/'):
            arg = './' + cfg + ('/' if inv.endswith('/') else '')
        elif inv == 'dot-in-config':
            arg, cwd = '.', cfg
        elif inv in ('parent-rel', 'parent-rel/'):
            arg, cwd = '{N}/' + cfg + ('/' if inv.endswith('/') else ''), '..'
        elif inv in ('env', 'env/'):
            env = {'TALLY_CONFIG': '{B}/' + cfg + ('/' if inv.endswith('/') else '')}
        if arg is not None:
            argv = argv + [arg]
    if c['k'] == 'init' and c.get('target') == '.' and c.get('spell') in ('abs', 'abs/', './'):
        argv = ['init', {'abs': '{B}', 'abs/': '{B}/', './': './'}[c['spell']]]
    return {'argv': argv, 'cwd': cwd, 'env': env}


def argv_of(c):
    k = c['k']
    if k == 'up':
        a = ['up']
        if c['migrate']:
            a.append('--migrate')
        if not c['embedded']:
            a.append('--no-embedded-html')
        if c['fmt'] != 'html':
            a += ['--format', c['fmt']]
        if c['out']:
            a += ['-o', (c['out'][0] + '/' if c['out'][0] else '') + c['out'][1]]
        return a
    if k in ('explain', 'discover', 'diag'):
        return [k] + list(c.get('args', []))
    if k == 'inspect':
        return ['inspect', c['file']]
    if k == 'init':
        return ['init'] + ([c['target']] if c['target'] else [])
    return [k]


def cmd_label(c):
    if c['k'] == 'up':
        return 'up' + ('-migrate' if c['migrate'] else '')
    return c['k']


def directed_cases():
    """budgets x commands that pin the combinations the property names (and the expected defects)"""
    out = []
    for layout in ('old', 'new'):
        base = {'layout': layout, 'settings': 'full', 'data': 'rows', 'notes': True, 'exports': True}
        # legacy CSV with rules, stale backup, no merchants.rules: init migrates
        out.append((dict(base, mkey=None, rules=False, csv='rules', bak=True, views=False, gitignore=True),
                    [{'k': 'init', 'target': None}, {'k': 'up', 'migrate': False, 'embedded': True, 'fmt': 'html', 'out': None}]))
        # up --migrate with stale backup and an unrelated merchants.rules
        out.append((dict(base, mkey=None, rules=True, csv='rules', bak=True, views=True),
                    [{'k': 'up', 'migrate': True, 'embedded': True, 'fmt': 'html', 'out': None}, {'k': 'discover', 'args': []}]))
        out.append((dict(base, mkey=None, rules=True, csv='rules', bak=False, views=True),
                    [{'k': 'up', 'migrate': True, 'embedded': False, 'fmt': 'html', 'out': None}]))
        out.append((dict(base, mkey=None, rules=False, csv='rules', bak=True, existing_out='old'),
                    [{'k': 'up', 'migrate': True, 'embedded': True, 'fmt': 'json', 'out': None}]))
        # up without --migrate on a legacy budget must not migrate
        out.append((dict(base, mkey=None, rules=False, csv='rules', bak=False, existing_out='old'),
                    [{'k': 'up', 'migrate': False, 'embedded': False, 'fmt': 'html', 'out': None},
                     {'k': 'explain', 'args': []}, {'k': 'discover', 'args': ['--format', 'json']},
                     {'k': 'diag', 'args': []}, {'k': 'inspect', 'file': ('tally/' if layout == 'new' else '') + 'data/bank.csv'}]))
        # init over a complete new-format budget: nothing to do but the views_file line
        out.append((dict(base, mkey='rules', rules=True, csv=None, bak=False, views=True, vkey=False, gitignore=True),
                    [{'k': 'init', 'target': None}, {'k': 'init', 'target': None}]))
        # init with header-only CSV: no migration
        out.append((dict(base, mkey=None, rules=False, csv='header', bak=True),
                    [{'k': 'init', 'target': None}]))
        out.append((dict(base, settings='absent', rules=False, csv='indented', bak=False),
                    [{'k': 'init', 'target': None}, {'k': 'up', 'migrate': True, 'embedded': True, 'fmt': 'html', 'out': None}]))
        out.append((dict(base, mkey='commented', rules=False, csv='rules', bak=False),
                    [{'k': 'up', 'migrate': True, 'embedded': True, 'fmt': 'html', 'out': ['exports', 'r.html']},
                     {'k': 'up', 'migrate': False, 'embedded': False, 'fmt': 'html', 'out': ['', 'custom.html']}]))
    # ---- spellings of the config directory: the output location is a property of the budget, not of the spelling ----
    for layout in ('old', 'new'):
        cfg = ('tally/' if layout == 'new' else '') + 'config'
        base = {'layout': layout, 'settings': 'full', 'data': 'rows', 'mkey': 'rules', 'rules': True, 'csv': None,
                'views': True, 'vkey': True, 'notes': True}
        up = lambda inv, emb=True, mig=False: {'k': 'up', 'migrate': mig, 'embedded': emb, 'fmt': 'html', 'out': None,
                                               'inv': inv, 'cfgrel': cfg}
        ro = lambda k, inv, args=(): {'k': k, 'args': list(args), 'inv': inv, 'cfgrel': cfg}
        out.append((dict(base), [up('rel/'), up('abs/', emb=False), ro('explain', 'rel/', ['Netflix']),
                                 ro('discover', 'abs/', ['--format', 'json']), ro('diag', 'rel/')]))
        out.append((dict(base, existing_out='old'), [up('dot-in-config'), up('parent-rel/', emb=False), up('./rel/'),
                                                     ro('explain', 'dot-in-config'), ro('discover', 'parent-rel/')]))
        out.append((dict(base, outdir='reports', html='report.html'),
                    [up('env/'), up('env', emb=False), up('abs'), up('rel'), up('./rel'), up('parent-rel'),
                     ro('diag', 'env/'), ro('discover', 'dot-in-config'), ro('explain', 'abs')]))
        out.append((dict(base, mkey=None, rules=False, csv='rules', bak=False),
                    [up('rel/', mig=True), up('abs/')]))
    # ---- a merchants.rules from which no rule loads is still the user's file: init must not replace it ----
    for layout in ('old', 'new'):
        for rv in ('transforms', 'syntaxerr', 'empty', 'comments', True):
            for mkey in (None, 'rules'):
                out.append(({'layout': layout, 'settings': 'full', 'data': 'rows', 'mkey': mkey, 'rules': rv, 'csv': 'rules',
                             'bak': False, 'views': False, 'notes': False},
                            [{'k': 'init', 'target': None},
                             {'k': 'up', 'migrate': False, 'embedded': True, 'fmt': 'html', 'out': None}]
                            if mkey is None else
                            [{'k': 'init', 'target': '.', 'spell': 'abs/'} if layout == 'old' else {'k': 'init', 'target': None}]))
    # ---- the rules file named by settings is the user's: neither init nor a migration may write to it ----
    for layout in ('old', 'new'):
        for mk in ('custom', 'custom-dir', 'custom-txt', 'custom-missing'):
            out.append(({'layout': layout, 'settings': 'full', 'data': 'rows', 'mkey': mk, 'rules': False, 'csv': 'rules',
                         'bak': False, 'views': False, 'strays': 0, 'out_obstacle': None},
                        [{'k': 'init', 'target': None}] if mk != 'custom' else
                        [{'k': 'init', 'target': '.', 'spell': 'abs'} if layout == 'old' else {'k': 'init', 'target': None},
                         {'k': 'up', 'migrate': True, 'embedded': True, 'fmt': 'html', 'out': None}]))
        out.append(({'layout': layout, 'settings': 'full', 'data': 'rows', 'mkey': 'custom', 'rules': True, 'csv': 'rules',
                     'bak': True, 'views': True, 'out_obstacle': None},
                    [{'k': 'up', 'migrate': True, 'embedded': True, 'fmt': 'html', 'out': None}, {'k': 'init', 'target': None}]))
    # ---- the output location cannot be created (a file / a dangling symlink sits there): nothing may be written elsewhere ----
    for layout in ('old', 'new'):
        cfg = ('tally/' if layout == 'new' else '') + 'config'
        for ob in ('file', 'dangling'):
            for outdir in (None, 'reports'):
                up = lambda emb, inv=None: dict({'k': 'up', 'migrate': False, 'embedded': emb, 'fmt': 'html', 'out': None},
                                                **({'inv': inv, 'cfgrel': cfg} if inv else {}))
                out.append(({'layout': layout, 'settings': 'full', 'data': 'rows', 'mkey': 'rules', 'rules': True, 'csv': None,
                             'views': False, 'existing_out': None, 'out_obstacle': ob, 'outdir': outdir, 'html': None, 'strays': 1},
                            [up(True, 'parent-rel'), up(False), {'k': 'discover', 'args': []}]
                            if outdir is None else [up(False, 'abs/')]))
    # ---- the budget folder's own name (glob / format / shell metacharacters) must not change what is kept ----
    full = {'layout': 'old', 'settings': 'full', 'data': 'rows', 'mkey': 'rules', 'rules': True, 'csv': None, 'views': True,
            'vkey': True, 'gitignore': True, 'strays': 1, 'out_obstacle': None, 'desc_cleaning': False}
    for i, dn in enumerate(DIRNAMES[1:]):
        lay = 'old' if i % 2 == 0 else 'new'
        out.append((dict(full, layout=lay, dirname=dn),
                    [{'k': 'init', 'target': None}, {'k': 'up', 'migrate': False, 'embedded': False, 'fmt': 'html', 'out': None},
                     {'k': 'init', 'target': '.', 'spell': 'abs/'} if lay == 'old' else {'k': 'discover', 'args': []}]))
    out.append((dict(full, dirname='budget [2025]', mkey=None, rules=False, csv='rules', bak=False),
                [{'k': 'init', 'target': 'new [2025]'}, {'k': 'up', 'migrate': True, 'embedded': True, 'fmt': 'html', 'out': None,
                                                        'inv': 'parent-rel/', 'cfgrel': 'config'}]))
    # ---- a removed setting (description_cleaning) makes `up` refuse: with or without --migrate nothing may be rewritten ----
    for lay in ('old', 'new'):
        upm = lambda m, fmt='html': {'k': 'up', 'migrate': m, 'embedded': True, 'fmt': fmt, 'out': None}
        for mk in ('rules', 'custom'):
            out.append((dict(full, layout=lay, mkey=mk, desc_cleaning=True),
                        [upm(True, 'summary'), upm(False), {'k': 'explain', 'args': ['Netflix']}, upm(True)]))
        out.append((dict(full, layout=lay, mkey=None, rules=False, csv='rules', bak=False, desc_cleaning=True),
                    [upm(True), {'k': 'init', 'target': None}]))
    # ---- init keeps every pre-existing file byte-identical: .gitignore of every style, READMEs, stray files ----
    for layout in ('old', 'new'):
        for gv in (True, 'own-style', 'repo', 'partial', 'tally', 'no-newline', 'empty'):
            out.append(({'layout': layout, 'settings': 'full', 'data': 'rows', 'mkey': 'rules', 'rules': True, 'csv': None,
                         'views': True, 'vkey': True, 'gitignore': gv, 'outer_gitignore': True, 'strays': len(STRAYS)},
                        [{'k': 'init', 'target': None}] if gv != 'own-style' else
                        [{'k': 'init', 'target': None}, {'k': 'up', 'migrate': False, 'embedded': True, 'fmt': 'html', 'out': None},
                         {'k': 'discover', 'args': []}, {'k': 'init', 'target': None}]))
    out.append(({'layout': 'old', 'settings': 'absent', 'rules': False, 'csv': None, 'views': False, 'gitignore': 'own-style',
                 'strays': len(STRAYS), 'data': 'rows'}, [{'k': 'init', 'target': '.', 'spell': 'abs'}]))
    # ---- a legacy CSV from which no rule loads is still the user's file: `up` without --migrate must not migrate ----
    for layout in ('old', 'new'):
        for cv in ('header', 'comments', 'noheader', 'empty', 'blank'):
            up = lambda fmt: {'k': 'up', 'migrate': False, 'embedded': True, 'fmt': fmt, 'out': None}
            out.append(({'layout': layout, 'settings': 'full', 'data': 'rows', 'mkey': None, 'rules': False, 'csv': cv,
                         'bak': False, 'views': False, 'strays': 2},
                        [up('html'), up('json'), {'k': 'discover', 'args': ['--format', 'json']}, up('summary')]
                        if cv in ('header', 'noheader') else [up('html')]))
    out.append(({'layout': 'none', 'notes': True, 'stray': True},
                [{'k': 'up', 'migrate': True, 'embedded': True, 'fmt': 'html', 'out': None}, {'k': 'discover', 'args': []},
                 {'k': 'init', 'target': None}, {'k': 'init', 'target': None}]))
    out.append(({'layout': 'old', 'settings': 'full', 'data': 'rows', 'csv': 'rules', 'rules': False, 'mkey': None, 'bak': True},
                [{'k': 'init', 'target': 'fresh'}, {'k': 'init', 'target': '.'}]))
    return out


def exhaustive_small():
    """thorough tier: every combination of the config files the migration logic looks at, one command each"""
    import itertools
    up = lambda m: {'k': 'up', 'migrate': m, 'embedded': True, 'fmt': 'html', 'out': None}
    out = []
    for layout, st, mkey, rules, csv, bak, views in itertools.product(
            ('old', 'new'), ('full', 'absent'), (None, 'rules'), (False, True), (None, 'rules', 'header'),
            (False, True), (False, True)):
        force = {'layout': layout, 'settings': st, 'mkey': mkey, 'rules': rules, 'csv': csv, 'bak': bak, 'views': views,
                 'data': 'rows', 'notes': False, 'gitignore': False, 'existing_out': None, 'exports': False, 'vkey': False,
                 'outdir': None, 'html': None, 'settings_tail': '', 'otherdata': False}
        for spec in ({'k': 'init', 'target': None}, up(True), up(False)):
            out.append((force, [spec]))
    return out


def gen_cases(seed, n_random, exhaustive=False):
    rnd = random.Random(seed)
    cases = []
    for force, cmds in directed_cases() + (exhaustive_small() if exhaustive else []):
        b = gen_budget(rnd, force)
        cases.append({'files': b['files'], 'dirs': b['dirs'], 'links': b.get('links', {}), 'dirname': b['feat'].get('dirname'), 'feat': b['feat'], 'specs': cmds})
    for _ in range(n_random):
        b = gen_budget(rnd)
        root = {'old': '', 'new': 'tally/', 'none': None}[b['feat']['layout']]
        k = rnd.choice([1, 2, 2, 3, 3, 4])
        cases.append({'files': b['files'], 'dirs': b['dirs'], 'links': b.get('links', {}), 'dirname': b['feat'].get('dirname'), 'feat': b['feat'],
                      'specs': [gen_cmd(rnd, root) for _ in range(k)]})
    for c in cases:
        c['cmds'] = [cmd_entry(s) for s in c['specs']]
        c['extra_roots'] = sorted({s['target'] + '/' for s in c['specs'] if s['k'] == 'init' and s.get('target') not in (None, '.')})
    return cases


def run_cases_impl(cases, keep=False, work=WORKDIR):
    payload = {'work': work, 'jobs': 4, 'keep': keep,
               'cases': [{'files': c['files'], 'dirs': c['dirs'], 'links': c.get('links', {}), 'dirname': c.get('dirname'), 'cmds': c['cmds'],
                          'extra_roots': c.get('extra_roots', [])}
                         for c in cases]}
    return run_impl(IMPL, payload, timeout=3000)['results']


# ======================= the property, restated over implementation observations only ======================
def find_root(dirs):
    return '' if 'config' in dirs else ('tally/' if 'tally/config' in dirs else None)


def designated_root(spec, dirs):
    """the budget a command works on: the parent of the explicitly given config directory (argument or TALLY_CONFIG,
    however spelled) when there is one, else what find_config_dir detects.  Returns (explicit?, root or None)."""
    if spec.get('inv') and spec.get('cfgrel'):
        cfg = spec['cfgrel']
        if cfg in dirs:
            return True, cfg[:-len('config')]
        if spec['inv'].startswith('env'):
            return False, find_root(dirs)        # TALLY_CONFIG that is not a directory is ignored
        return True, None                        # explicit argument that does not exist: the command refuses
    return False, find_root(dirs)


def init_root(spec, dirs):
    t = spec.get('target')
    if t is None:
        return '' if 'config' in dirs else 'tally/'
    return '' if t == '.' else t + '/'




def write_sets(spec, step):
    """what the command may touch, from the property statement: REPORT (may be overwritten), CREATE (may be created
    when missing), APPEND (may only grow), RENAME pairs, MKDIR."""
    pre = step['pre']
    dirs, files = set(pre['dirs']), pre['files']
    S = {'report': set(), 'create': set(), 'append': set(), 'rename': [], 'mkdir': set(), 'unmodelled': False}

    def migration(root):
        S['create'].add(root + 'config/merchants.rules')
        S['create'].add(root + 'config/merchant_categories.csv.bak')
        S['rename'].append((root + 'config/merchant_categories.csv', root + 'config/merchant_categories.csv.bak'))
        S['append'].add(root + 'config/settings.yaml')
    k = spec['k']
    if k == 'up':
        root = designated_root(spec, dirs)[1]
        if root is None:
            return S
        facts = step['facts'].get(root + 'config/settings.yaml')
        if facts and facts.get('unmodelled'):
            S['unmodelled'] = True
            return S
        if spec['fmt'] == 'html' and facts:
            if spec['out']:
                pref, name = ('' if spec['out'][0] == '' else spec['out'][0] + '/'), spec['out'][1]
            else:
                pref, name = root + facts['output_dir'] + '/', facts['html']
                S['mkdir'].add(root + facts['output_dir'])
            S['report'].add(pref + name)
            if not spec['embedded']:
                S['report'] |= {pref + s for s in SIBLINGS}
        # --migrate migrates only a budget on the legacy format: no merchants_file in settings and the CSV present
        if spec['migrate'] and facts and facts.get('sources') and not facts.get('merchants_file') and \
                root + 'config/merchant_categories.csv' in files:
            migration(root)
    elif k == 'init':
        root = init_root(spec, dirs)
        csv, rules = root + 'config/merchant_categories.csv', root + 'config/merchants.rules'
        if csv in files and rules not in files:
            migration(root)
        for p in (root + 'config/settings.yaml', rules, root + 'config/views.rules', root + '.gitignore'):
            if p not in files:
                S['create'].add(p)
        S['append'].add(root + 'config/settings.yaml')
        if root:
            S['mkdir'].add(root.rstrip('/'))
        S['mkdir'] |= {root + d for d in ('config', 'data', 'output')}
    return S


def direct_oracle(spec, step):
    """list of (signature, detail) — empty when the step satisfies the property"""
    S = write_sets(spec, step)
    if S['unmodelled']:
        return []
    label = cmd_label(spec)
    pre, post = step['pre'], step['post']
    bad = []

    def sig(what, path):
        base = os.path.basename(path) if path else ''
        # inside a CSV -> .rules migration that the command was entitled to perform
        if what == 'overwrites' and base == 'merchant_categories.csv.bak' and path in S['create']:
            return f'C20/{label}-overwrites-existing-bak'
        if what == 'overwrites' and base == 'merchants.rules' and path in S['create']:
            return f'C20/{label}-overwrites-existing-merchants-rules'
        return f'C20/{label}-{what}:{base}'
    for kind, p, q in step['ops']:
        if kind in ('write', 'create', 'open-rw', 'tmpfile'):
            if p not in S['report'] and p not in S['create']:
                bad.append((sig('writes-outside-write-set', p), {'op': [kind, p, q]}))
        elif kind == 'append':
            if p not in S['append']:
                bad.append((sig('appends-outside-write-set', p), {'op': [kind, p, q]}))
        elif kind == 'rename':
            # the legacy CSV may be renamed to a backup name (merchant_categories.csv.bak*); nothing else may move
            if not any(p == a and q.startswith(b0) for a, b0 in S['rename']):
                bad.append((sig('renames', p), {'op': [kind, p, q]}))
        elif kind == 'mkdir':
            if p not in S['mkdir']:
                bad.append((sig('mkdir-outside-write-set', p), {'op': [kind, p, q]}))
        else:   # unlink rmdir truncate link chmod trace-missing
            bad.append((sig(kind, p), {'op': [kind, p, q]}))
    renamed_from = {a: b for a, b in S['rename']}
    for p, h in pre['sha'].items():
        if p in S['report']:
            continue
        if p in S['append']:
            old, new = pre['files'][p], post['files'].get(p)
            if new is None or (post['sha'][p] != h and not (isinstance(new, str) and not old.startswith('@@sha1:') and new.startswith(old))):
                bad.append((sig('rewrites', p), {'path': p, 'before': old[:200], 'after': (new or '<missing>')[:200]}))
            continue
        if p not in post['sha']:
            if p in renamed_from and any(x.startswith(renamed_from[p]) and hx == h and pre['sha'].get(x) != h
                                         for x, hx in post['sha'].items()):
                continue        # renamed to a backup name with its content intact
            bad.append((sig('removes', p), {'path': p}))
        elif post['sha'][p] != h:
            bad.append((sig('overwrites', p), {'path': p, 'before': pre['files'][p][:200], 'after': post['files'][p][:200]}))
    for p in post['sha']:
        if p not in pre['sha'] and p not in S['report'] and p not in S['create'] and \
                not any(p.startswith(b0) for _, b0 in S['rename']):
            bad.append((sig('creates', p), {'path': p}))
    for d in post['dirs']:
        if d not in pre['dirs'] and d not in S['mkdir']:
            bad.append((sig('creates-dir', d), {'path': d}))
    seen, out = set(), []
    for s, d in bad:
        if s not in seen:
            seen.add(s)
            out.append((s, d))
    return out


# ======================= model side (Coq) ===================================================================
def cq(s):
    b = s.encode('utf-8')
    if all((32 <= c < 127) or c == 10 for c in b):
        return '"' + s.replace('"', '""') + '"'
    return '(sbytes [' + ';'.join(str(c) for c in b) + ']%N)'


HEADER = '''From Coq Require Import String List Bool Ascii NArith.
From Tally Require Import Lib.Str Gen.C20WriteSites C20.Model.
Import ListNotations.
Open Scope string_scope.
Definition sbytes (l : list N) : string := fold_right (fun n s => String (Ascii.ascii_of_N n) s) EmptyString l.
Fixpoint slookup {A} (d : A) (t : list (string * A)) (k : string) : A :=
  match t with [] => d | (k', v) :: r => if String.eqb k k' then v else slookup d r k end.
Definition F od h mf src := {| sf_output_dir := od; sf_html := h; sf_merchants_file := mf; sf_sources := src |}.
Definition erase (e : effect) : nat * string * string :=
  match e with EWrite _ p _ => (0, p, "") | EAppend _ p _ => (1, p, "") | ERename _ a b => (2, a, b) | EMkdir _ d => (3, d, "") end.
Definition op_eqb (a b : nat * string * string) : bool :=
  let '(k, p, q) := a in let '(k', p', q') := b in (Nat.eqb k k' && String.eqb p p' && String.eqb q q')%bool.
Fixpoint ops_eqb (a b : list (nat * string * string)) : bool :=
  match a, b with [], [] => true | x :: r, y :: s => (op_eqb x y && ops_eqb r s)%bool | _, _ => false end.
Definition oeq (a b : option string) : bool :=
  match a, b with Some x, Some y => String.eqb x y | None, None => true | _, _ => false end.
Definition files_eqb (a b : list (string * string)) : bool :=
  (forallb (fun e => oeq (get b (fst e)) (Some (snd e))) a && forallb (fun e => oeq (get a (fst e)) (Some (snd e))) b)%bool.
Definition dirs_eqb (a b : list string) : bool := (forallb (fun d => mem d b) a && forallb (fun d => mem d a) b)%bool.
(* which part of a case disagrees: 0 = agrees, 4 = a traced syscall lies outside the model's write set of the designated
   budget, 1 = effects differ from the traced syscalls, 2 = files differ, 3 = dirs differ *)
(* the budget designated by the typed config path: computed by the model from the path components *)
Definition dsg (base cwd : list string) (ab : bool) (arg : list string) : option string :=
  match designate base cwd ab arg with Some r => Some r | None => Some "?not-a-config-dir-of-this-budget?" end.
Definition verdict (c : oracle * cmd * state * list (nat * string * string) * state) : nat :=
  let '(o, cm, pre, ops, post) := c in
  let '(st', es) := run_log o cm pre in
  let w := write_set o cm pre in
  if negb (forallb (fun op => let '(k, p, q) := op in op_within w k p q) ops) then 4
  else if negb (ops_eqb (map erase es) ops) then 1
  else if negb (files_eqb (files st') (files post)) then 2
  else if negb (dirs_eqb (dirs st') (dirs post)) then 3 else 0.
Fixpoint failing (i : nat) (l : list _) : list (nat * nat) :=
  match l with [] => [] | c :: r => match verdict c with 0 => failing (S i) r | v => (i, v) :: failing (S i) r end end.
'''


def coq_cmd(spec, dirs=None, bdir=None):
    k = spec['k']
    if k == 'up':
        out = 'None' if not spec['out'] else f'(Some ({cq(spec["out"][0])}, {cq(spec["out"][1])}))'
        fm = {'html': 'FHtml', 'json': 'FJson', 'markdown': 'FMarkdown', 'summary': 'FSummary'}[spec['fmt']]
        b = lambda x: 'true' if x else 'false'
        expl, root = designated_root(spec, dirs if dirs is not None else [spec.get('cfgrel')])
        cfg = 'None'
        if expl:
            # the model resolves the spelling itself: components of the budget dir, of the working directory, of the argument
            ent = cmd_entry(spec)
            typed = (ent['env'].get('TALLY_CONFIG') if ent['env'] else None) or ent['argv'][-1]
            typed = typed.replace('{B}', bdir or '/B').replace('{N}', os.path.basename(bdir or '/B'))
            base = [c for c in (bdir or '/B').split('/') if c]
            cwdc = [c for c in os.path.normpath(os.path.join(bdir or '/B', ent['cwd'])).split('/') if c]
            cl = lambda xs: '[' + '; '.join(cq(x) for x in xs) + ']'
            cfg = f'(dsg {cl(base)} {cl(cwdc)} {"true" if typed.startswith("/") else "false"} {cl(typed.split("/"))})'
        return f'(Up {cfg} {b(spec["migrate"])} {b(spec["embedded"])} {fm} {out})'
    if k == 'inspect':
        return f'(Inspect {cq(spec["file"])})'
    if k == 'init':
        t = spec.get('target')
        return '(Init ' + ('TDefault' if t is None else 'TDot' if t == '.' else f'(TDir {cq(t)})') + ')'
    return {'explain': 'Explain', 'discover': 'Discover', 'diag': 'Diag', 'workflow': 'Workflow',
            'reference': 'Reference', 'update': 'UpdateNoConsent'}[k]


OPK = {'write': 0, 'create': 0, 'append': 1, 'rename': 2, 'mkdir': 3}


class Interner:
    def __init__(self):
        self.ids, self.defs = {}, []

    def ref(self, s):
        if len(s) < 24 and all(32 <= ord(c) < 127 for c in s):
            return cq(s)
        if s not in self.ids:
            self.ids[s] = f'c{len(self.ids)}'
            self.defs.append(f'Definition {self.ids[s]} : string := {cq(s)}.')
        return self.ids[s]


def coq_state(snap, it):
    fs = '; '.join(f'({cq(p)}, {it.ref(c)})' for p, c in sorted(snap['files'].items()))
    ds = '; '.join(cq(d) for d in snap['dirs'])
    return f'{{| files := [{fs}]; dirs := [{ds}] |}}'


def modelled(spec, step):
    """is the step inside the fragment the model is exact on?  (reason or None)"""
    for f in step['facts'].values():
        if f and f.get('unmodelled'):
            return 'settings value outside the modelled fragment'
    for kind, p, q in step['ops']:
        if kind not in OPK:
            return None  # still compared: the model never emits such an op, so it shows up as a disagreement
    return None


def coq_case(spec, step, starters, it):
    facts = []
    for p, f in step['facts'].items():
        if f:
            mf = 'None' if not f['merchants_file'] else f'(Some {cq(f["merchants_file"])})'
            facts.append(f'({it.ref(step["pre"]["files"][p])}, Some (F {cq(f["output_dir"])} {cq(f["html"])} {mf} '
                         f'{"true" if f["sources"] else "false"}))')
    conv = [f'({it.ref(step["pre"]["files"][p])}, {("Some " + it.ref(t)) if t is not None else "None"})'
            for p, t in step['convert'].items()]
    rep = [f'({cq(p)}, {it.ref(c)})' for p, c in sorted(step['post']['files'].items())]
    ok = 'true' if step['rc'] == 0 else 'false'
    o = (f'{{| parse_settings := slookup None [{"; ".join(facts)}]; pipeline_ok := fun _ => {ok}; '
         f'convert := slookup None [{"; ".join(conv)}]; report := fun _ => slookup "" [{"; ".join(rep)}]; '
         f'starter_settings := {it.ref(starters["settings"])}; starter_merchants := {it.ref(starters["merchants"])}; '
         f'starter_views := {it.ref(starters["views"])}; starter_gitignore := {it.ref(starters["gitignore"])} |}}')
    ops = '; '.join(f'({OPK.get(k, 9)}, {cq(p)}, {cq(q)})' for k, p, q in step['ops'])
    return f'({o}, {coq_cmd(spec, step["pre"]["dirs"], step.get("bdir"))}, {coq_state(step["pre"], it)}, [{ops}], {coq_state(step["post"], it)})'


def model_check(items, starters, name='C20/cases'):
    """items: list of (spec, step). Returns (list of (index, verdict)) or None on evaluation failure, plus error text."""
    bad = []
    CH = 120
    for off in range(0, len(items), CH):
        it = Interner()
        rows = [coq_case(sp, stp, starters, it) for sp, stp in items[off:off + CH]]
        body = '\n'.join(it.defs) + '\nDefinition cases : list (oracle * cmd * state * list (nat * string * string) * state) := [\n' + ';\n'.join(rows) + '\n].\nEval vm_compute in failing 0 cases.\n'
        rc, out, err = run_cases(f'{name}_{off // CH}', HEADER, body)
        m = re.search(r'=\s*\[(.*?)\]\s*:\s*list \(nat \* nat\)', out, re.S)
        if rc != 0 or not m:
            return None, (out + err)[-1500:]
        for a, b in re.findall(r'\((\d+)(?:%nat)?\s*,\s*(\d+)(?:%nat)?\)', m.group(1)):
            bad.append((off + int(a), int(b)))
    return bad, ''


def calibrate_starters():
    """the starter texts, observed from `tally init` on an empty directory (the property does not depend on them)"""
    res = run_cases_impl([{'files': {}, 'dirs': [], 'cmds': [['init', '.']], 'extra_roots': []}],
                         work=os.path.join(WORK, 'C20', 'calib'))[0][0]
    f = res['post']['files']
    return {'settings': f.get('config/settings.yaml', ''), 'merchants': f.get('config/merchants.rules', ''),
            'views': f.get('config/views.rules', ''), 'gitignore': f.get('.gitignore', '')}


# ======================= shrinking ===========================================================================
def fails_with(case, signature):
    res = run_cases_impl([case], work=os.path.join(WORK, 'C20', 'shrink'))[0]
    for spec, step in zip(case['specs'], res):
        for s, d in direct_oracle(spec, step):
            if s == signature:
                return True
    return False


def shrink(case, step_index, signature, budget=18):
    """delta-debug the command sequence, then the files of the budget"""
    cur = {'files': dict(case['files']), 'dirs': list(case['dirs']), 'links': dict(case.get('links') or {}),
           'dirname': case.get('dirname'), 'specs': list(case['specs'][:step_index + 1])}

    def norm(c):
        c['cmds'] = [cmd_entry(s) for s in c['specs']]
        c['extra_roots'] = sorted({s['target'] + '/' for s in c['specs'] if s['k'] == 'init' and s.get('target') not in (None, '.')})
        return c
    trials = 0
    alone = norm(dict(cur, specs=[cur['specs'][-1]]))
    trials += 1
    if len(cur['specs']) > 1 and fails_with(alone, signature):
        cur = alone
    else:
        i = 0
        while i < len(cur['specs']) - 1 and trials < budget:
            cand = norm(dict(cur, specs=cur['specs'][:i] + cur['specs'][i + 1:]))
            trials += 1
            if fails_with(cand, signature):
                cur = cand
            else:
                i += 1
    last = cur['specs'][-1]
    if last['k'] == 'up' and (not last['embedded'] or last['fmt'] != 'html' or last['out']):
        cand = norm(dict(cur, specs=cur['specs'][:-1] + [dict(last, embedded=True, fmt='html', out=None)]))
        trials += 1
        if fails_with(cand, signature):
            cur = cand
    if cur.get('dirname') not in (None, 'budget'):
        cand = norm(dict(cur, dirname='budget'))
        trials += 1
        if fails_with(cand, signature):
            cur = cand
    if cur['specs'][-1].get('inv'):
        cand = norm(dict(cur, specs=cur['specs'][:-1] + [{k: v for k, v in cur['specs'][-1].items() if k not in ('inv', 'cfgrel')}]))
        trials += 1
        if fails_with(cand, signature):
            cur = cand
    for p in sorted(cur['files']):
        if trials >= budget:
            break
        cand = norm(dict(cur, files={k: v for k, v in cur['files'].items() if k != p},
                         dirs=sorted(set(cur['dirs']) | {os.path.dirname(p)} - {''})))
        trials += 1
        if fails_with(cand, signature):
            cur = cand
    return norm(cur), trials


# ======================= main =================================================================================
def regen_gen():
    try:
        text, info = wsx.extract(SRC)
        regen('Gen/C20WriteSites.v', text)
        return []
    except (wsx.ExtractionError, OSError, RecursionError) as e:
        return [str(e)]


def explain_static_break(info_now):
    """name the write sites that the model's table does not account for (readable detail for the replay file)"""
    try:
        src = open(os.path.join(COQ, 'theories', 'C20', 'Model.v')).read()
    except OSError:
        return []
    unknown = []
    def cl(xs):
        return '[' + '; '.join('"' + x.replace('"', '""') + '"' for x in xs) + ']'
    for s in info_now.get('sites', []):
        pat = f'W "{s["file"]}" "{s["func"]}" "{s["kind"]}" "{s["mode"]}"\n    {cl(s["guards"])}\n    {cl(s["target"])}'
        if pat not in src:
            unknown.append({k: s[k] for k in ('file', 'func', 'kind', 'mode', 'line', 'guards', 'target')})
    return unknown


def main(tier):
    run = Run('C20', tier)
    run.assumptions = [
        'the file system is modelled as path -> content plus a set of directories; rename(2) replaces its target, '
        "open(...,'a') appends, open(...,'w')/write_text truncates (the OS semantics are a library, not modelled further)",
        'YAML parsing of settings.yaml, whether the analysis pipeline reaches the report stage, the converted rules text, '
        'report and starter texts are oracle fields: every theorem holds for every oracle; in the executed cases they are '
        "instantiated from yaml.safe_load, the command's exit status, tally's own converter and a calibration `tally init`",
        'commands are run non-interactively from the budget directory without an explicit config argument; TALLY_CONFIG unset; '
        'output_dir is a single path component; `tally update --yes` (layout migration by consent) is accounted for in the '
        'write-site table but not modelled as a state transformer (crash-safety of the migrations is C15)',
        'tools/c20_write_sites.py lists write-capable calls syntactically (fail closed on non-constant open modes, star imports, '
        'unparsable files); writes performed through C extensions or through objects whose method names are not in its '
        'table would be seen only by the strace tie',
        'the call graph is name-based and over-approximating (a reference to a simple name reaches every tally function '
        'of that name; module-level code of every file is a root of every command)']
    tfails = regen_gen()
    info = {}
    if not tfails:
        try:
            _, info = wsx.extract(SRC)
        except Exception as e:  # noqa
            tfails = [str(e)]
    res = run.proof_step(COQ_FILES, extra_trusted=[
        'tools/c20_write_sites.py (static extractor + name-based call graph, fail closed)',
        'harness/c20.py + harness/impl_c20.py (generators, strace parsing, snapshots, direct oracle, comparison)',
        'strace 6.1 -f (syscall trace of the CLI process tree); CPython 3.12 os/shutil/pathlib as the things observed'])
    broken = []
    if tfails:
        broken.append({'kind': 'translation-failure', 'obligation': 'Gen/C20WriteSites.v', 'detail': tfails})
    elif not res['ok']:
        fe = first_error(res['log'])
        broken.append({'kind': 'broken-obligation', 'obligation': fe.get('obligation'), 'detail': fe,
                       'unaccounted_write_sites': explain_static_break(info)})
    if res['hygiene']:
        broken.append({'kind': 'hygiene', 'detail': res['hygiene']})

    # ---- dynamic tie ----
    n_random = 45 if tier == 'quick' else 600
    shutil.rmtree(os.path.join(WORK, 'C20', 'run'), ignore_errors=True)
    starters = calibrate_starters()
    cases = gen_cases(run.seed, n_random, exhaustive=(tier == 'thorough'))
    results = run_cases_impl(cases)
    items, viol = [], {}
    outside_writes, rc_hist, cmd_hist, layout_hist, pairs, effectful = [], {}, {}, {}, set(), set()
    discards = {}
    for ci, (case, steps) in enumerate(zip(cases, results)):
        for si, (spec, step) in enumerate(zip(case['specs'], steps)):
            label = cmd_label(spec)
            lay = 'old' if 'config' in step['pre']['dirs'] else 'new' if 'tally/config' in step['pre']['dirs'] else 'none'
            cmd_hist[label] = cmd_hist.get(label, 0) + 1
            layout_hist[lay] = layout_hist.get(lay, 0) + 1
            rc_hist[str(step['rc'])] = rc_hist.get(str(step['rc']), 0) + 1
            cfgp = {'old': 'config/', 'new': 'tally/config/', 'none': '-/'}[lay]
            present = tuple(sorted(os.path.basename(p) for p in step['pre']['files'] if p.startswith(cfgp)))
            pairs.add((label, lay))
            if step['ops']:
                effectful.add((json.dumps(spec, sort_keys=True), lay, present))
            if step['outside']:
                outside_writes.append({'argv': step['argv'], 'ops': step['outside'][:5]})
            why = modelled(spec, step)
            if why:
                discards[why] = discards.get(why, 0) + 1
            else:
                items.append((spec, step, ci, si))
            for s, d in direct_oracle(spec, step):
                viol.setdefault(s, []).append((ci, si, d))
    # known findings: one KNOWN-FINDING line per listed signature; unknown signatures: one shrunk replay per command
    known_sigs = {f.get('signature') for f in run.findings if f.get('status') == 'finding'}
    for s in sorted(viol):
        if s in known_sigs:
            run.violation('write', {'kind': 'counterexample'}, signature=s)
    by_label = {}
    for s, occ in sorted(viol.items()):
        if s not in known_sigs:
            by_label.setdefault(cmd_label(cases[occ[0][0]]['specs'][occ[0][1]]), []).append(s)
    prio = ['-overwrites', '-removes:', '-rewrites:', '-writes-outside', '-appends-outside', '-renames:', '-creates:', '-utime:']

    def rank(x):
        cls = next((i for i, w in enumerate(prio) if w in x), len(prio))
        first = min(si for _, si, _ in viol[x])               # prefer what already shows in the first command of a sequence
        return (first, 0 if cls <= 2 else cls, -len(viol[x]), x)   # then loss of user data, its most frequent facet
    for label, sigs in sorted(by_label.items()):
        sigs.sort(key=rank)          # lead with the loss of user data, then stray writes
        s = sigs[0]
        occ = viol[s]
        ci, si, d = min(occ, key=lambda x: (x[1], len(cases[x[0]]['files'])))
        small, trials = shrink(cases[ci], si, s, budget=18 if tier == 'quick' else 60)
        run.violation('write', {'kind': 'counterexample', 'case': {k: small.get(k) for k in ('files', 'dirs', 'links', 'dirname', 'specs', 'cmds')},
                                'failing_step': len(small['specs']) - 1, 'detail': d, 'n_occurrences': len(occ),
                                'all_signatures_of_this_command': {x: len(viol[x]) for x in sigs},
                                'expected': 'C20: only report files in the output location are written; user files keep their bytes '
                                            '(settings may gain a suffix; a migrated CSV is kept as .bak)',
                                'obligation': 'direct oracle on strace + content hashes', 'broken': broken,
                                'shrink_trials': trials, 'shrunk_from': {'commands': si + 1, 'files': len(cases[ci]['files'])}},
                      signature=s)
    # ---- model vs implementation, in Coq ----
    model_n, model_bad = 0, []
    if not tfails and res['ok']:
        mb, err = model_check([(sp, stp) for sp, stp, _, _ in items], starters)
        model_n = len(items)
        if mb is None:
            broken.append({'kind': 'broken-correspondence', 'obligation': 'model_vs_impl(C20.Model.run_log, tally CLI under strace)',
                           'detail': 'cases.v did not evaluate: ' + err})
        elif mb:
            model_bad = mb
            i, v = mb[0]
            sp, stp, ci, si = items[i]
            broken.append({'kind': 'broken-correspondence', 'obligation': 'model_vs_impl(C20.Model.run_log, tally CLI under strace)',
                           'detail': {'what_differs': {1: 'effects vs traced syscalls', 2: 'files after the command', 3: 'directories after the command', 4: 'a traced syscall lies outside the write set (Coq write_set of the designated budget)'}[v],
                                      'command': stp['argv'], 'observed_ops': stp['ops'], 'rc': stp['rc'], 'stderr': stp['stderr'][-300:],
                                      'budget_before': stp['pre']['files'], 'dirs_before': stp['pre']['dirs'],
                                      'files_after': sorted(stp['post']['files']), 'n_disagreements': len(mb),
                                      'case': {'files': cases[ci]['files'], 'dirs': cases[ci]['dirs'], 'specs': cases[ci]['specs'][:si + 1],
                                               'cmds': cases[ci]['cmds'][:si + 1]}}})
    if broken and not run.violations:
        b0 = broken[0]
        run.violation('broken', {'kind': b0['kind'], 'obligation': b0.get('obligation'), 'broken': broken,
                                 'case': (b0.get('detail') or {}).get('case') if isinstance(b0.get('detail'), dict) else None,
                                 'searched': f'{sum(len(c["specs"]) for c in cases)} command runs over {len(cases)} budgets against the '
                                             f'direct oracle: {"no" if not viol else len(viol)} distinct failing signatures '
                                             f'({", ".join(sorted(viol)) or "none"})'},
                      found_input=False)
    n_steps = sum(len(c['specs']) for c in cases)
    run.cov.update({
        'evaluations': n_steps + model_n, 'distinct_nontrivial': len(effectful),
        'rule': 'budget directories in old (./config), new (./tally/config) and no layout, each config file (settings.yaml with/without '
                'data_sources, merchants_file [set / commented / empty], views_file, output_dir, html_filename; merchants.rules; '
                'merchant_categories.csv with rules / header only / comments / indented / no header; .bak; views.rules; .gitignore; '
                'data; existing output dir with an old report; stray user files) present or absent; sequences of 1-4 commands among '
                'up [--migrate] [--no-embedded-html] [--format f] [-o path], explain, discover, diag, inspect, init [dir], workflow, '
                'update, reference; non-trivial = distinct (command+flags, layout, set of config files present) whose run performed '
                'at least one mutating syscall inside the budget',
        'command_runs': n_steps, 'budgets': len(cases), 'commands_histogram': cmd_hist, 'layouts_histogram': layout_hist,
        'exit_codes': rc_hist, 'distinct_command_layout_pairs': len(pairs), 'command_layout_pairs': sorted('/'.join(p) for p in pairs),
        'model_vs_impl_steps_in_coq': model_n, 'model_disagreements': len(model_bad),
        'direct_oracle_signatures': {s: len(o) for s, o in viol.items()}, 'discards': discards,
        'mutating_syscalls_outside_budget': outside_writes[:5], 'n_runs_writing_outside_budget': len(outside_writes),
        'static': {k: info.get(k) for k in ('files', 'functions', 'write_sites', 'migration_calls', 'reach_sizes')},
        'translation_failures': tfails,
        'samples': [{'budget': sorted(cases[0]['files']), 'cmds': cases[0]['cmds'],
                     'ops': [s['ops'] for s in results[0]]},
                    {'budget': sorted(cases[-1]['files']), 'cmds': cases[-1]['cmds'], 'ops': [s['ops'] for s in results[-1]]}]})
    run.finish()


def replay(path):
    obj = json.load(open(path))
    case = obj.get('case') or (obj.get('replay') if isinstance(obj.get('replay'), dict) else None)
    if obj.get('kind') not in ('counterexample',) and not (case and case.get('specs')):
        print(f'replay: {obj.get("kind")} ({obj.get("obligation")}) — re-running the quick check')
        main('quick')
        return 1
    case = dict(case)
    case['cmds'] = [cmd_entry(s) for s in case['specs']]
    case['extra_roots'] = sorted({s['target'] + '/' for s in case['specs'] if s['k'] == 'init' and s.get('target') not in (None, '.')})
    steps = run_cases_impl([case], work=os.path.join(WORK, 'C20', 'replay'))[0]
    found = []
    for spec, step in zip(case['specs'], steps):
        v = direct_oracle(spec, step)
        print(json.dumps({'argv': step['argv'], 'rc': step['rc'], 'ops': step['ops'],
                          'violations': [{'signature': s, 'detail': d} for s, d in v]}, indent=1))
        found += [s for s, _ in v]
    if obj.get('kind') == 'broken-correspondence' or (not found and obj.get('broken')):
        tf = regen_gen()
        with CoqLock():
            ok, log, _ = coq_build(COQ_FILES)
        starters = calibrate_starters()
        mb, err = model_check(list(zip(case['specs'], steps)), starters, name='C20/replay') if ok and not tf else (None, 'proof/translation broken')
        print(json.dumps({'model_disagreements': mb, 'error': err[-400:]}))
        if mb is None or mb:
            print(f'VIOLATION property=C20 replay={path}')
            return 1
    if found:
        print(f'VIOLATION property=C20 replay={path}')
        return 1
    return 0
