// Runs the REAL report application code (src/tally/spending_report.js, whole file) under node with a minimal stand-in for
// the Vue runtime and the browser globals, so that the totals the browser recomputes (filteredViewTotals, grandTotal,
// creditsTotal, chartAggregations, ...) can be read for given embedded data and given active filters.
// stdin: {"js": <path to spending_report.js>, "cases": [{"data": <spendingData>, "filters": [[{type,text,mode}...], ...]}]}
// stdout: {"results": [[{...totals...} per filter set] per case]}
'use strict';
const fs = require('fs');
const vm = require('vm');

function makeVue(holder) {
  const ref = v => ({ value: v });
  const reactive = o => o;
  const computed = f => {
    if (typeof f === 'function') return { get value() { return f(); } };
    return { get value() { return f.get(); }, set value(v) { f.set(v); } };
  };
  const noop = () => {};
  const createApp = opts => {
    const app = {
      component() { return app; }, use() { return app; }, directive() { return app; },
      mount() { holder.app = opts.setup ? opts.setup() : {}; return app; },
    };
    return app;
  };
  return { createApp, ref, reactive, computed, watch: noop, watchEffect: noop, onMounted: noop, onUnmounted: noop,
           nextTick: noop, defineComponent: x => x, toRefs: x => x, toRef: (o, k) => ({ get value() { return o[k]; } }) };
}

function runCase(src, c) {
  const holder = {};
  const store = {};
  const sandbox = {
    Vue: makeVue(holder), console,
    localStorage: { getItem: k => (k in store ? store[k] : null), setItem: (k, v) => { store[k] = String(v); } },
    document: { querySelectorAll: () => [], addEventListener() {}, createElement: () => ({ set textContent(v) { this._t = v; }, get innerHTML() { return String(this._t); } }),
                documentElement: { setAttribute() {} } },
    Chart: function () { return { destroy() {}, update() {} }; },
    location: { hash: '' }, history: { replaceState() {} },
  };
  sandbox.window = sandbox;
  sandbox.spendingData = c.data;
  sandbox.addEventListener = () => {};
  sandbox.scrollY = 0;
  vm.createContext(sandbox);
  vm.runInContext(src, sandbox, { filename: 'spending_report.js' });
  const app = holder.app;
  if (!app) throw new Error('setup() did not run');
  const out = [];
  const val = x => (x && typeof x === 'object' && 'value' in x ? x.value : x);
  for (const fs_ of c.filters) {
    app.activeFilters.value = fs_.map(f => Object.assign({}, f));
    const fv = val(app.filteredViewTotals);
    const r = { filteredViewTotals: fv, grandTotal: val(app.grandTotal), creditsTotal: val(app.creditsTotal),
                grossSpending: val(app.grossSpending),
                header: { income: val(app.incomeTotal), spending: val(app.spendingTotal), credits: val(app.dataCreditsTotal),
                          cashFlow: val(app.cashFlow), transfersIn: val(app.transfersIn), transfersOut: val(app.transfersOut),
                          transfersNet: val(app.transfersNet), investment: val(app.investmentTotal) } };
    // the transactions that pass the filters, as the browser sees them (ids are unique per transaction)
    const ids = [];
    for (const cat of Object.values(val(app.filteredCategoryView))) {
      for (const sub of Object.values(cat.filteredSubcategories || {})) {
        for (const m of Object.values(sub.filteredMerchants || {})) {
          for (const t of m.filteredTxns || []) ids.push(t.id);
        }
      }
    }
    r.visible = ids.sort();
    out.push(r);
  }
  return out;
}

const inp = JSON.parse(fs.readFileSync(0, 'utf8'));
const src = fs.readFileSync(inp.js, 'utf8');
const results = [];
for (const c of inp.cases) {
  try { results.push(runCase(src, c)); } catch (e) { results.push({ error: String(e && e.stack || e).slice(0, 600) }); }
}
process.stdout.write(JSON.stringify({ results }));
