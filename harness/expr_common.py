"""Shared by the evaluator-based checks (C04, C03, C08): rendering of CPython `ast` trees, Python
values and environments as Coq terms for coq/theories/Expr/*, the JSON value encoding spoken with
the implementation runners, expression-tree generators, and the in-Coq comparison runner.

Conventions
* An *expression tree* is a nested tuple ('kind', ...) (see `src`) rendered to source text; the text is
  what the implementation gets, and CPython's own ast.parse(text, mode='eval') of that text is what the
  Coq model gets (`coq_parsed`).
* A *value* travels as JSON: {'t': none|bool|int|float|str|date|td|list|dict|gen|other, ...}; floats are
  exact fractions (n/d), dates ordinals.
* An *environment* is {'txn': {'description': str, 'amount': value, 'date': ordinal|None, 'field': {..}|None,
  'source': str|None, 'location': str|None}, 'vars': {name: value}, 'ds': {name: [ {key: value} ]}}.
"""
import ast
import datetime
import json
import os
import re
import subprocess
import warnings
from concurrent.futures import ThreadPoolExecutor
from fractions import Fraction

from common import COQ, WORK, coq_str

# ------------------------------------------------------------------------------------------
# values
def enc(v):
    """Python value -> JSON encoding."""
    if v is None:
        return {'t': 'none'}
    if isinstance(v, bool):
        return {'t': 'bool', 'v': v}
    if isinstance(v, int):
        return {'t': 'int', 'v': str(v)}
    if isinstance(v, float):
        if v != v or v in (float('inf'), float('-inf')):
            return {'t': 'other', 'r': 'float-nonfinite'}
        f = Fraction(v)
        return {'t': 'float', 'n': str(f.numerator), 'd': str(f.denominator)}
    if isinstance(v, str):
        return {'t': 'str', 'v': v}
    if isinstance(v, datetime.datetime):
        return {'t': 'other', 'r': 'datetime'}
    if isinstance(v, datetime.date):
        return {'t': 'date', 'o': v.toordinal()}
    if isinstance(v, datetime.timedelta):
        if v.seconds or v.microseconds:
            return {'t': 'other', 'r': 'timedelta-fraction'}
        return {'t': 'td', 'd': v.days}
    if isinstance(v, list):
        return {'t': 'list', 'v': [enc(x) for x in v]}
    if isinstance(v, dict):
        if not all(isinstance(k, str) for k in v):
            return {'t': 'other', 'r': 'dict-nonstr-key'}
        return {'t': 'dict', 'v': [[k, enc(x)] for k, x in v.items()]}
    if type(v).__name__ == 'generator':
        return {'t': 'gen'}
    return {'t': 'other', 'r': type(v).__name__}


def dec(j):
    """JSON encoding -> Python value (implementation side)."""
    t = j['t']
    if t == 'none':
        return None
    if t == 'bool':
        return bool(j['v'])
    if t == 'int':
        return int(j['v'])
    if t == 'float':
        return int(j['n']) / int(j['d'])
    if t == 'str':
        return j['v']
    if t == 'date':
        return datetime.date.fromordinal(j['o'])
    if t == 'td':
        return datetime.timedelta(days=j['d'])
    if t == 'list':
        return [dec(x) for x in j['v']]
    if t == 'dict':
        return {k: dec(x) for k, x in j['v']}
    raise ValueError('cannot decode ' + repr(j))


def has_other(j):
    if j['t'] == 'other':
        return j['r']
    if j['t'] == 'list':
        for x in j['v']:
            r = has_other(x)
            if r:
                return r
    if j['t'] == 'dict':
        for _, x in j['v']:
            r = has_other(x)
            if r:
                return r
    return None


def zlit(n):
    n = int(n)
    return f'({n})%Z' if n < 0 else f'{n}%Z'


def qlit(n, d):
    return f'({int(n)} # {int(d)})%Q'


def coq_value(j):
    t = j['t']
    if t == 'none':
        return 'VNone'
    if t == 'bool':
        return 'VBool true' if j['v'] else 'VBool false'
    if t == 'int':
        return f'VInt {zlit(j["v"])}'
    if t == 'float':
        return f'VFloat {qlit(j["n"], j["d"])}'
    if t == 'str':
        return f'VStr {coq_str(j["v"])}'
    if t == 'date':
        return f'VDate {zlit(j["o"])}'
    if t == 'td':
        return f'VTd {zlit(j["d"])}'
    if t == 'list':
        return 'VList [' + '; '.join(coq_value(x) for x in j['v']) + ']'
    if t == 'dict':
        return 'VDict [' + '; '.join(f'({coq_str(k)}, {coq_value(x)})' for k, x in j['v']) + ']'
    if t == 'gen':
        return 'VGen'
    raise ValueError('no Coq value for ' + repr(j))


PYERR = {'TypeError', 'AttributeError', 'ValueError', 'KeyError', 'IndexError', 'StopIteration',
         'ZeroDivisionError', 'OverflowError', 'RuntimeError'}


def coq_outcome(o):
    """implementation outcome {'val': j} | {'err': classname} -> Coq `outcome` (None if it has no model form)."""
    if 'val' in o:
        if has_other(o['val']):
            return None
        return 'Val (' + coq_value(o['val']) + ')'
    e = o['err']
    if e in ('ExpressionError', 'UnsafeNodeError'):
        return 'ExprErr'
    if e in PYERR:
        return f'PyErr {e}'
    if e == 'error':
        return 'PyErr ReError'
    if e in ('RecursionError', 'MemoryError'):
        return None
    return 'PyErr OtherError'


# ------------------------------------------------------------------------------------------
# CPython ast -> Coq pyast
BINOPS = {'Add', 'Sub', 'Mult', 'Div', 'Mod'}
UNOPS = {'Not', 'USub'}
CMPOPS = {'Eq', 'NotEq', 'Lt', 'LtE', 'Gt', 'GtE', 'In', 'NotIn'}


def coq_ast(n):
    k = type(n).__name__
    L = lambda xs: '[' + '; '.join(coq_ast(x) for x in xs) + ']'  # noqa: E731
    if isinstance(n, ast.Constant):
        v = n.value
        if v is None:
            c = 'CNone'
        elif isinstance(v, bool):
            c = 'CBool true' if v else 'CBool false'
        elif isinstance(v, int):
            c = f'CInt {zlit(v)}'
        elif isinstance(v, float):
            if v != v or v in (float('inf'), float('-inf')):
                c = 'COther "float-nonfinite"'
            else:
                f = Fraction(v)
                c = f'CFloat {qlit(f.numerator, f.denominator)}'
        elif isinstance(v, str):
            c = f'CStr {coq_str(v)}'
        else:
            c = f'COther "{type(v).__name__}"'
        return f'EConst ({c})'
    if isinstance(n, ast.Name):
        return f'EName {coq_str(n.id)}'
    if isinstance(n, ast.BoolOp):
        return f'EBoolOp {type(n.op).__name__} {L(n.values)}'
    if isinstance(n, ast.BinOp):
        o = type(n.op).__name__
        o = o if o in BINOPS else f'(BinOther "{o}")'
        return f'EBinOp ({coq_ast(n.left)}) {o} ({coq_ast(n.right)})'
    if isinstance(n, ast.UnaryOp):
        o = type(n.op).__name__
        o = o if o in UNOPS else f'(UnOther "{o}")'
        return f'EUnaryOp {o} ({coq_ast(n.operand)})'
    if isinstance(n, ast.Compare):
        rest = []
        for op, c in zip(n.ops, n.comparators):
            o = type(op).__name__
            o = o if o in CMPOPS else f'CmpOther "{o}"'
            rest.append(f'({o}, {coq_ast(c)})')
        return f'ECompare ({coq_ast(n.left)}) [' + '; '.join(rest) + ']'
    if isinstance(n, ast.IfExp):
        return f'EIfExp ({coq_ast(n.test)}) ({coq_ast(n.body)}) ({coq_ast(n.orelse)})'
    if isinstance(n, ast.Call):
        return f'ECall ({coq_ast(n.func)}) {L(n.args)} {L([kw.value for kw in n.keywords])}'
    if isinstance(n, ast.Attribute):
        return f'EAttribute ({coq_ast(n.value)}) {coq_str(n.attr)}'
    if isinstance(n, ast.Subscript):
        return f'ESubscript ({coq_ast(n.value)}) ({coq_ast(n.slice)})'
    if isinstance(n, (ast.ListComp, ast.GeneratorExp, ast.SetComp)):
        gens = '; '.join(f'({coq_ast(g.target)}, {coq_ast(g.iter)}, {L(g.ifs)})' for g in n.generators)
        return f'EComp {k} ({coq_ast(n.elt)}) [{gens}]'
    if isinstance(n, ast.NamedExpr):
        return f'ENamedExpr ({coq_ast(n.target)}) ({coq_ast(n.value)})'
    if isinstance(n, ast.List):
        return f'EList {L(n.elts)}'
    if isinstance(n, ast.Tuple):
        return f'ETuple {L(n.elts)}'
    if isinstance(n, ast.Set):
        return f'ESet {L(n.elts)}'
    kids = [c for c in ast.iter_child_nodes(n) if not isinstance(c, (ast.expr_context, ast.operator, ast.boolop,
                                                                    ast.unaryop, ast.cmpop))]
    return f'EOther "{k}" {L(kids)}'


def py_parse(text):
    """CPython's parser, as parse_expression calls it. Returns ('tree', ast) | ('syntax',) | ('raises', cls)."""
    try:
        with warnings.catch_warnings():
            warnings.simplefilter('ignore')
            return ('tree', ast.parse(text, mode='eval').body)
    except SyntaxError:
        return ('syntax',)
    except RecursionError:
        return ('raises', 'RecursionError')
    except Exception as e:  # noqa
        return ('raises', type(e).__name__)


def coq_parsed(text):
    p = py_parse(text)
    if p[0] == 'tree':
        return f'PTree ({coq_ast(p[1])})'
    if p[0] == 'syntax':
        return 'PSyntaxError'
    return f'PRaises {p[1]}' if p[1] in PYERR else 'PRaises OtherError'


def node_kinds(text):
    p = py_parse(text)
    if p[0] != 'tree':
        return [p[0]]
    return [type(x).__name__ for x in ast.walk(p[1]) if isinstance(x, (ast.expr, ast.comprehension))]


# ------------------------------------------------------------------------------------------
# environments
def coq_assoc(d):
    return '[' + '; '.join(f'({coq_str(k)}, {coq_value(v)})' for k, v in d) + ']'


def coq_env(env, tables='TS TSUB TR'):
    t = env['txn']
    date = 'None' if t.get('date') is None else f'(Some {zlit(t["date"])})'
    field = 'None' if t.get('field') is None else '(Some ' + coq_assoc(list(t['field'].items())) + ')'
    txn = (f'(mk_txn {coq_str(t["description"])} ({coq_value(t["amount"])}) {date} {field} '
           f'{coq_str(t.get("source") or "")} {coq_str(t.get("location") or "")})')
    vars_ = coq_assoc(list(env.get('vars', {}).items()))
    ds = '[' + '; '.join(
        f'({coq_str(k)}, VList [' + '; '.join('VDict ' + coq_assoc(list(r.items())) for r in rows) + '])'
        for k, rows in env.get('ds', {}).items()) + ']'
    return f'mk_env {txn} {vars_} {ds} {tables}'


def coq_tables(log):
    """oracle log {'search': [[p, t, res]], 'sub': [[p, r, t, out|None]], 'ratio': [[a, b, n, d]]} -> three Definitions."""
    seen, ts = set(), []
    for p, t, res in log.get('search', []):
        if (p, t) in seen:
            continue
        seen.add((p, t))
        if res == 'bad':
            r = 'ReBad'
        elif res == 'no':
            r = 'ReNoMatch'
        else:
            g1 = 'None' if res['g1'] is None else f'(Some {coq_str(res["g1"])})'
            r = f'ReMatch {res["n"]} {g1}'
        ts.append(f'({coq_str(p)}, {coq_str(t)}, {r})')
    seen, tsub = set(), []
    for p, r, t, out in log.get('sub', []):
        if (p, r, t) in seen:
            continue
        seen.add((p, r, t))
        o = 'None' if out is None else f'(Some {coq_str(out)})'
        tsub.append(f'({coq_str(p)}, {coq_str(r)}, {coq_str(t)}, {o})')
    seen, tr = set(), []
    for a, b, n, d in log.get('ratio', []):
        if (a, b) in seen:
            continue
        seen.add((a, b))
        tr.append(f'({coq_str(a)}, {coq_str(b)}, {qlit(n, d)})')
    return ('Definition TS : list (string * string * re_result) := [' + ';\n '.join(ts) + '].\n'
            'Definition TSUB : list (string * string * string * option string) := [' + ';\n '.join(tsub) + '].\n'
            'Definition TR : list (string * string * Q) := [' + ';\n '.join(tr) + '].\n')


CASES_HEADER = '''From Coq Require Import String List Bool ZArith QArith NArith.
From Tally Require Import Lib.Str Expr.StrOps Expr.Date Expr.Syntax Expr.Funcs Expr.Eval Expr.Check.
Import ListNotations.
Open Scope string_scope.
'''


def model_check(name, envs, cases, log, chunk=400, jobs=4, timeout=900):
    """Evaluate the model inside Coq on `cases` = [(env_index, expr_text, impl_outcome)] and compare with the
    implementation's outcome there. Returns dict(bad=[case idx], skipped={case idx: reason},
    not_comparable=[idx], error=str|None). Cases are split into files of <= `chunk`, `jobs` coqc in parallel."""
    rows, notcmp = [], []
    for i, (ei, text, out) in enumerate(cases):
        exp = coq_outcome(out)
        if exp is None:
            notcmp.append(i)
            continue
        rows.append((i, ei, f'(E{ei}, {coq_parsed(text)}, {exp})'))
    tables = coq_tables(log)
    files = []
    for off in range(0, len(rows), chunk):
        part = rows[off:off + chunk]
        used = sorted({ei for _, ei, _ in part})
        body = tables + ''.join(f'Definition E{ei} := {coq_env(envs[ei])}.\n' for ei in used)
        body += 'Definition cases : list case := [\n' + ';\n'.join(r for _, _, r in part) + '\n].\n'
        body += 'Eval vm_compute in (failing 0 cases, skipped 0 cases).\n'
        d = os.path.join(WORK, f'{name}_{off // chunk}')
        os.makedirs(d, exist_ok=True)
        path = os.path.join(d, 'cases.v')
        with open(path, 'w') as f:
            f.write(CASES_HEADER + body)
        files.append((path, [i for i, _, _ in part]))

    def run(item):
        path, idx = item
        p = subprocess.run(['timeout', str(timeout), 'coqc', '-Q', os.path.join(COQ, 'theories'), 'Tally', path],
                           capture_output=True, text=True, cwd=os.path.dirname(path))
        return p.returncode, p.stdout, p.stderr

    res = {'bad': [], 'skipped': {}, 'not_comparable': notcmp, 'error': None, 'files': len(files)}
    with ThreadPoolExecutor(max_workers=jobs) as ex:
        outs = list(ex.map(run, files))
    for (path, idx), (rc, out, err) in zip(files, outs):
        m = re.search(r'=\s*\((\[.*?\]),\s*(\[.*\])\)\s*:\s*list nat \* list \(nat \* string\)', out, re.S)
        if rc != 0 or not m:
            res['error'] = f'{path}: rc={rc} ' + (err or out)[-1500:]
            return res
        fl = m.group(1).replace('%nat', '').strip('[] \n')
        for x in fl.replace('\n', ' ').split(';'):
            if x.strip():
                res['bad'].append(idx[int(x)])
        for mm in re.finditer(r'\((\d+)(?:%nat)?,\s*"((?:[^"]|"")*)"(?:%string)?\)', m.group(2)):
            res['skipped'][idx[int(mm.group(1))]] = mm.group(2)
    return res


# ------------------------------------------------------------------------------------------
# expression trees -> source text.  A tree is a str (atom source) or a tuple:
#   ('un', op, a)  ('bin', op, a, b)  ('bool', op, [a, b, ...])  ('cmp', a, [(op, b), ...])  ('if', t, b, o)
#   ('call', fname, [args])  ('meth', obj, name, [args])  ('attr', a, name)  ('sub', a, i)
#   ('comp', kind '[' | '(' , elt, [(var, iter, [ifs])])  ('walrus', name, a)
def src(t):
    if isinstance(t, str):
        return t
    k = t[0]
    if k == 'un':
        return f'({t[1]} {src(t[2])})'
    if k == 'bin':
        return f'({src(t[2])} {t[1]} {src(t[3])})'
    if k == 'bool':
        return '(' + f' {t[1]} '.join(src(x) for x in t[2]) + ')'
    if k == 'cmp':
        return '(' + src(t[1]) + ''.join(f' {op} {src(b)}' for op, b in t[2]) + ')'
    if k == 'if':
        return f'({src(t[2])} if {src(t[1])} else {src(t[3])})'
    if k == 'call':
        args = [src(a) for a in t[2]]
        if len(args) == 1 and not isinstance(t[2][0], str) and t[2][0][0] == 'comp' and t[2][0][1] == '(':
            return f'{t[1]}{args[0]}'
        return f'{t[1]}(' + ', '.join(args) + ')'
    if k == 'meth':
        return f'{src(t[1])}.{t[2]}(' + ', '.join(src(a) for a in t[3]) + ')'
    if k == 'attr':
        return f'{src(t[1])}.{t[2]}'
    if k == 'sub':
        return f'{src(t[1])}[{src(t[2])}]'
    if k == 'comp':
        o, c = ('[', ']') if t[1] == '[' else ('(', ')')
        gens = ''.join(f' for {v} in {src(it)}' + ''.join(f' if {src(c_)}' for c_ in ifs) for v, it, ifs in t[3])
        return f'{o}{src(t[2])}{gens}{c}'
    if k == 'walrus':
        return f'({t[1]} := {src(t[2])})'
    raise ValueError(t)


def children(t):
    """immediate sub-trees (for shrinking)."""
    if isinstance(t, str):
        return []
    k = t[0]
    if k == 'un':
        return [t[2]]
    if k == 'bin':
        return [t[2], t[3]]
    if k == 'bool':
        return list(t[2])
    if k == 'cmp':
        return [t[1]] + [b for _, b in t[2]]
    if k == 'if':
        return [t[1], t[2], t[3]]
    if k == 'call':
        return list(t[2])
    if k == 'meth':
        return [t[1]] + list(t[3])
    if k in ('attr', 'sub'):
        return [x for x in t[1:] if not isinstance(x, str) or k == 'sub']
    if k == 'comp':
        out = [t[2]]
        for _, it, ifs in t[3]:
            out.append(it)
            out += list(ifs)
        return out
    if k == 'walrus':
        return [t[2]]
    return []


def tree_size(t):
    return 1 + sum(tree_size(c) for c in children(t))


def shrink_tree(t, still_fails, budget=200):
    """greedy: replace the tree by a sub-tree, or a sub-tree by one of its own sub-trees / a small atom,
    while `still_fails(tree)` holds."""
    def variants(t):
        for c in children(t):
            yield c
        if isinstance(t, str):
            return
        k = t[0]
        if k == 'un':
            for v in variants(t[2]):
                yield (k, t[1], v)
        elif k == 'bin':
            for v in variants(t[2]):
                yield (k, t[1], v, t[3])
            for v in variants(t[3]):
                yield (k, t[1], t[2], v)
        elif k == 'bool':
            if len(t[2]) > 2:
                for i in range(len(t[2])):
                    yield (k, t[1], t[2][:i] + t[2][i + 1:])
            for i, x in enumerate(t[2]):
                for v in variants(x):
                    yield (k, t[1], t[2][:i] + [v] + t[2][i + 1:])
        elif k == 'cmp':
            if len(t[2]) > 1:
                yield (k, t[1], t[2][:-1])
                yield (k, t[2][0][1], t[2][1:])
            for v in variants(t[1]):
                yield (k, v, t[2])
            for i, (op, b) in enumerate(t[2]):
                for v in variants(b):
                    yield (k, t[1], t[2][:i] + [(op, v)] + t[2][i + 1:])
        elif k == 'if':
            for i in (1, 2, 3):
                for v in variants(t[i]):
                    yield t[:i] + (v,) + t[i + 1:]
        elif k == 'call':
            for i, x in enumerate(t[2]):
                for v in variants(x):
                    yield (k, t[1], t[2][:i] + [v] + t[2][i + 1:])
        elif k == 'comp':
            for v in variants(t[2]):
                yield (k, t[1], v, t[3])
            for gi, (var, it, ifs) in enumerate(t[3]):
                if ifs:
                    yield (k, t[1], t[2], t[3][:gi] + [(var, it, ifs[:-1])] + t[3][gi + 1:])
            if len(t[3]) > 1:
                yield (k, t[1], t[2], t[3][:-1])
        elif k == 'walrus':
            for v in variants(t[2]):
                yield (k, t[1], v)

    cur = t
    n = 0
    improved = True
    while improved and n < budget:
        improved = False
        for v in variants(cur):
            n += 1
            if n >= budget:
                break
            if tree_size(v) < tree_size(cur):
                try:
                    ok = still_fails(v)
                except Exception:  # noqa
                    ok = False
                if ok:
                    cur, improved = v, True
                    break
    return cur


# ------------------------------------------------------------------------------------------
# boundary environments
def fl(x):
    return enc(float(x))


def d(y, m, dd):
    return datetime.date(y, m, dd).toordinal()


def boundary_txns():
    """zero/negative/large amount, month/year boundaries, leap day, empty description, missing date,
    custom fields, source, non-ASCII caseless text."""
    return [
        {'description': 'UBER EATS 123 Seattle', 'amount': fl(12.5), 'date': d(2025, 1, 31),
         'field': {'memo': enc('Ref-77 uber'), 'code': enc('ACH-OUT-123')}, 'source': 'Amex', 'location': 'Seattle, WA'},
        {'description': 'uber *trip', 'amount': fl(0), 'date': d(2024, 2, 29), 'field': None, 'source': None, 'location': None},
        {'description': '', 'amount': fl(-40.25), 'date': d(2024, 12, 31), 'field': {'memo': enc('')}, 'source': 'chase',
         'location': ''},
        {'description': "WHOLE-FOODS MKT #10 €5", 'amount': fl(1048576.75), 'date': d(2025, 1, 1),
         'field': {'memo': enc('  padded  '), 'n': enc('12')}, 'source': 'Amex', 'location': None},
        {'description': 'Netflix.com', 'amount': enc(64), 'date': None, 'field': {'code': enc('X-Y')}, 'source': 'AMEX',
         'location': 'CA'},
        {'description': 'AB ab Ab', 'amount': fl(2.5), 'date': d(2025, 12, 1), 'field': None, 'source': 'Amex', 'location': None},
    ]


def boundary_tables():
    """0-2 supplemental tables of 0-3 rows."""
    r1 = {'item': enc('Book'), 'amount': fl(12.5), 'date': enc(datetime.date(2025, 1, 30))}
    r2 = {'item': enc('uber cable'), 'amount': fl(30), 'date': enc(datetime.date(2025, 2, 1))}
    r3 = {'item': enc(''), 'amount': fl(-40.25), 'date': enc('n/a')}
    p1 = {'merchant': enc('ACME'), 'amount': enc(64), 'note': enc(None)}
    return [
        {},
        {'orders': []},
        {'orders': [r1]},
        {'orders': [r1, r2, r3]},
        {'orders': [r1, r2], 'paypal': [p1]},
        {'orders': [r3, r1, r2], 'paypal': []},
    ]


def boundary_envs():
    envs = []
    tabs = boundary_tables()
    vars_list = [{'nothing': enc(None)}, {'is_large': enc(True), 'k': enc(3), 'nothing': enc(None)}, {'x': enc('Uber'), 'r': enc(None)}]
    for i, t in enumerate(boundary_txns()):
        envs.append({'txn': t, 'vars': vars_list[i % 3], 'ds': tabs[(i + 3) % len(tabs)]})
    return envs
