"""C20 implementation runner (executed by /venv/bin/python with PYTHONPATH=$VERIF_REPO/src).

For every case {files, dirs, cmds} it materialises the budget directory under the given work dir and runs each
command of the sequence as a real CLI process

    strace -f -o <trace> -e trace=<file-system mutating syscalls> /venv/bin/python -m tally <args>

with stdin closed, stdout/stderr piped (non-interactive), cwd = the budget directory, HOME inside the work
dir, PYTHONDONTWRITEBYTECODE=1.  Before and after every command the whole directory is snapshotted (sha1 of
every file; full text of the well-known config files).  Returned per step: argv, exit code, pre/post snapshot,
the ordered list of successful mutating syscalls inside the budget directory, mutating syscalls outside it,
and two library-level facts about the pre-state that the property does not depend on: yaml.safe_load of each
settings file, and the converted text of each legacy CSV (tally's own converter)."""
import hashlib
import json
import os
import re
import shutil
import subprocess
import sys
from concurrent.futures import ThreadPoolExecutor

PY = sys.executable
TRACE = ('openat,open,creat,rename,renameat,renameat2,unlink,unlinkat,rmdir,mkdir,mkdirat,truncate,ftruncate,link,linkat,'
         'symlink,symlinkat,chmod,fchmodat,fchmod,utimensat,utime,utimes,futimesat,chown,lchown,fchownat,setxattr,lsetxattr,mknod,mknodat')
TEXT_NAMES = {'settings.yaml', 'merchants.rules', 'views.rules', 'merchant_categories.csv',
              'merchant_categories.csv.bak', '.gitignore', '.tally-schema'}


def snapshot(root):
    files, sha, dirs = {}, {}, []
    for dp, dn, fs in os.walk(root):
        dn.sort()
        rel = os.path.relpath(dp, root)
        if rel != '.':
            dirs.append(rel)
        links = [d for d in dn if os.path.islink(os.path.join(dp, d))]     # symlinked dirs are entries, not walked
        for f in sorted(list(fs) + links):
            p = os.path.join(dp, f)
            r = os.path.relpath(p, root)
            if os.path.islink(p):
                b = b'<symlink> ' + os.readlink(p).encode('utf-8', 'replace')
            else:
                try:
                    b = open(p, 'rb').read()
                except OSError:
                    b = b'<unreadable>'
            h = hashlib.sha1(b).hexdigest()
            sha[r] = h
            txt = None
            if f in TEXT_NAMES and len(b) <= 20000:
                try:
                    txt = b.decode('utf-8')
                except UnicodeDecodeError:
                    txt = None
            files[r] = txt if txt is not None else '@@sha1:' + h[:12]
    return {'files': files, 'sha': sha, 'dirs': sorted(dirs)}


LINE = re.compile(r'^(\d+)\s+(.*)$')
CALL = re.compile(r'^(\w+)\((.*)\)\s+=\s+(-?\d+|\?)(.*)$')
STR = re.compile(r'"((?:[^"\\]|\\.)*)"')


def unescape(s):
    try:
        return s.encode('latin-1', 'backslashreplace').decode('unicode_escape').encode('latin-1').decode('utf-8', 'replace')
    except Exception:  # noqa
        return s


def parse_trace(path, cwd):
    """ordered list of (kind, path, path2, ok) for mutating syscalls"""
    pending = {}
    ops = []
    try:
        lines = open(path, errors='replace').read().splitlines()
    except OSError:
        return [('trace-missing', '', '', True)]
    for raw in lines:
        m = LINE.match(raw)
        if not m:
            continue
        pid, rest = m.group(1), m.group(2)
        if rest.endswith('<unfinished ...>'):
            pending[pid] = rest[:-len('<unfinished ...>')].rstrip()
            continue
        mm = re.match(r'^<\.\.\. (\w+) resumed>(.*)$', rest)
        if mm:
            rest = pending.pop(pid, mm.group(1) + '(') + mm.group(2)
        c = CALL.match(rest)
        if not c:
            continue
        name, args, ret = c.group(1), c.group(2), c.group(3)
        ok = ret not in ('?',) and int(ret) >= 0
        strs = [unescape(x) for x in STR.findall(args)]
        relfd = not args.startswith('AT_FDCWD') and name.endswith('at') or (name in ('renameat2',) and 'AT_FDCWD' not in args)

        def ab(p):
            if p.startswith('/'):
                return os.path.normpath(p)
            if relfd:
                return 'UNRESOLVED-DIRFD:' + p
            return os.path.normpath(os.path.join(cwd, p))
        if name in ('open', 'openat', 'creat'):
            if not strs:
                continue
            flags = args
            writing = name == 'creat' or any(f in flags for f in ('O_WRONLY', 'O_RDWR', 'O_CREAT', 'O_TRUNC', 'O_APPEND'))
            if not writing:
                continue
            kind = 'append' if 'O_APPEND' in flags else ('write' if ('O_TRUNC' in flags or name == 'creat') else
                                                         ('create' if 'O_CREAT' in flags else 'open-rw'))
            if 'O_TMPFILE' in flags:
                kind = 'tmpfile'
            ops.append((kind, ab(strs[0]), '', ok))
        elif name in ('rename', 'renameat', 'renameat2'):
            if len(strs) >= 2:
                ops.append(('rename', ab(strs[0]), ab(strs[1]), ok))
        elif name in ('unlink', 'unlinkat', 'rmdir'):
            if strs:
                ops.append(('rmdir' if (name == 'rmdir' or 'AT_REMOVEDIR' in args) else 'unlink', ab(strs[0]), '', ok))
        elif name in ('mkdir', 'mkdirat'):
            if strs:
                ops.append(('mkdir', ab(strs[0]), '', ok))
        elif name == 'truncate':
            if strs:
                ops.append(('truncate', ab(strs[0]), '', ok))
        elif name == 'ftruncate':
            ops.append(('truncate', 'FD:' + args.split(',')[0], '', ok))
        elif name in ('link', 'linkat', 'symlink', 'symlinkat'):
            if strs:
                ops.append(('link', ab(strs[-1]), '', ok))
        elif name in ('chmod', 'fchmodat', 'chown', 'lchown', 'fchownat', 'setxattr', 'lsetxattr'):
            if strs:
                ops.append(('chmod', ab(strs[0]), '', ok))
        elif name == 'fchmod':
            ops.append(('chmod', 'FD:' + args.split(',')[0], '', ok))
        elif name in ('utimensat', 'utime', 'utimes', 'futimesat'):
            ops.append(('utime', ab(strs[0]) if strs else 'FD:' + args.split(',')[0], '', ok))
        elif name in ('mknod', 'mknodat'):
            if strs:
                ops.append(('create', ab(strs[0]), '', ok))
    return ops


def settings_facts(text):
    import yaml
    try:
        cfg = yaml.safe_load(text)
    except Exception:  # noqa
        return None
    if not isinstance(cfg, dict):
        return None
    if cfg.get('description_cleaning'):
        return None
    od = cfg.get('output_dir', 'output')
    hf = cfg.get('html_filename', 'spending_summary.html')
    mf = cfg.get('merchants_file')
    if not isinstance(od, str) or not isinstance(hf, str) or (mf is not None and not isinstance(mf, str)):
        return {'unmodelled': True}
    return {'output_dir': od, 'html': hf, 'merchants_file': mf if mf else None, 'sources': bool(cfg.get('data_sources'))}


def convert_csv(path):
    try:
        from tally.merchant_utils import load_merchant_rules
        from tally.merchant_engine import csv_to_merchants_content
        return csv_to_merchants_content(load_merchant_rules(path))
    except Exception:  # noqa
        return None


def materialise(bdir, case):
    shutil.rmtree(bdir, ignore_errors=True)
    os.makedirs(bdir)
    for d in case.get('dirs', []):
        os.makedirs(os.path.join(bdir, d), exist_ok=True)
    for rel, content in case['files'].items():
        p = os.path.join(bdir, rel)
        os.makedirs(os.path.dirname(p), exist_ok=True)
        with open(p, 'w', encoding='utf-8', newline='') as f:
            f.write(content)
    for rel, target in (case.get('links') or {}).items():
        p = os.path.join(bdir, rel)
        os.makedirs(os.path.dirname(p), exist_ok=True)
        os.symlink(target, p)


def run_case(work, idx, case, keep=False):
    cdir = os.path.join(work, f'case{idx}')
    bdir = os.path.join(cdir, case.get('dirname') or 'budget')     # the folder name itself is part of the input
    home = os.path.join(cdir, 'home')
    shutil.rmtree(cdir, ignore_errors=True)
    os.makedirs(home)
    materialise(bdir, case)
    env = {k: v for k, v in os.environ.items() if k in ('PATH', 'LANG', 'LC_ALL', 'PYTHONPATH', 'PYTHONHASHSEED')}
    env.update({'HOME': home, 'PYTHONDONTWRITEBYTECODE': '1', 'NO_COLOR': '1', 'XDG_CACHE_HOME': os.path.join(home, '.cache'),
                'XDG_CONFIG_HOME': os.path.join(home, '.config'), 'TMPDIR': os.path.join(cdir, 'tmp')})
    os.makedirs(env['TMPDIR'], exist_ok=True)
    env.pop('TALLY_CONFIG', None)
    steps = []
    pre = snapshot(bdir)
    for k, entry in enumerate(case['cmds']):
        # a command is an argv list, or {'argv', 'cwd' (relative to the budget dir), 'env'}; '{B}' = the budget dir
        if isinstance(entry, dict):
            argv = [a.replace('{B}', bdir).replace('{N}', os.path.basename(bdir)) for a in entry['argv']]
            cwd = os.path.normpath(os.path.join(bdir, entry.get('cwd') or '.'))
            cenv = dict(env)
            cenv.update({kk: vv.replace('{B}', bdir) for kk, vv in (entry.get('env') or {}).items()})
        else:
            argv, cwd, cenv = list(entry), bdir, env
        if not os.path.isdir(cwd):
            cwd = bdir
        trace = os.path.join(cdir, f'trace{k}.txt')
        facts, conv = {}, {}
        for root in ('', 'tally/'):
            sp = root + 'config/settings.yaml'
            if sp in pre['files'] and not pre['files'][sp].startswith('@@sha1:'):
                facts[sp] = settings_facts(pre['files'][sp])
            elif sp in pre['files']:
                facts[sp] = {'unmodelled': True}
            cp = root + 'config/merchant_categories.csv'
            if cp in pre['files']:
                conv[cp] = convert_csv(os.path.join(bdir, cp))
        for extra in case.get('extra_roots', []):
            cp = extra + 'config/merchant_categories.csv'
            if cp in pre['files']:
                conv[cp] = convert_csv(os.path.join(bdir, cp))
        cmd = ['strace', '-f', '-o', trace, '-e', 'trace=' + TRACE, PY, '-m', 'tally'] + list(argv)
        try:
            p = subprocess.run(cmd, cwd=cwd, env=cenv, stdin=subprocess.DEVNULL, capture_output=True, text=True,
                               timeout=120, errors='replace')
            rc, err, out = p.returncode, p.stderr[-400:], p.stdout[-200:]
        except subprocess.TimeoutExpired:
            rc, err, out = 124, 'timeout', ''
        ops_all = parse_trace(trace, cwd)
        inside, outside = [], []
        for kind, a, b, ok in ops_all:
            if not ok:
                continue
            pa = a[len(bdir) + 1:] if a.startswith(bdir + '/') else None
            pb = b[len(bdir) + 1:] if b.startswith(bdir + '/') else None
            if a == bdir:
                pa = '.'
            if pa is not None or pb is not None or a.startswith('UNRESOLVED') or a.startswith('FD:'):
                inside.append([kind, pa if pa is not None else a, (pb if pb is not None else b) if b else ''])
            elif not (a.startswith('/dev/') or a.startswith('/proc/')):
                outside.append([kind, a, b])
        post = snapshot(bdir)
        steps.append({'argv': [x.replace(bdir, '{B}') for x in argv], 'cwd': os.path.relpath(cwd, bdir), 'bdir': bdir, 'rc': rc, 'stderr': err, 'stdout_tail': out, 'pre': pre, 'post': post,
                      'ops': inside, 'outside': outside, 'facts': facts, 'convert': conv})
        pre = post
    if not keep:
        shutil.rmtree(cdir, ignore_errors=True)
    return steps


def main():
    payload = json.load(sys.stdin)
    real_stdout = sys.stdout
    sys.stdout = sys.stderr          # tally helpers may print; keep the JSON channel clean
    work = payload['work']
    os.makedirs(work, exist_ok=True)
    cases = payload['cases']
    jobs = int(payload.get('jobs', 4))
    with ThreadPoolExecutor(max_workers=jobs) as ex:
        results = list(ex.map(lambda ic: run_case(work, ic[0], ic[1], keep=payload.get('keep', False)), enumerate(cases)))
    json.dump({'results': results}, real_stdout)


main()
