"""Runs tally.analyzer.analyze_transactions on generated transaction lists. Amounts arrive as
integer ticks (1/64) and all figures are returned as exact integer ticks (flagged if inexact)."""
import json
import sys
from datetime import datetime

from tally.analyzer import analyze_transactions

TICK = 64.0


def mk(t, noise=True):
    d = {'amount': t['a'] / TICK, 'merchant': t['m'], 'category': t['c'], 'subcategory': t['s'],
         'date': datetime.strptime(t['d'], '%Y-%m-%d'), 'source': t.get('src', 'S'), 'description': t['m'].upper()}
    if t['tags'] is not None:
        d['tags'] = list(t['tags'])
    if noise and t.get('noise'):
        for k, v in t['noise'].items():
            d[k] = json.loads(json.dumps(v))
    return d


def ticks(x, flag):
    v = x * TICK
    if v != v or v in (float('inf'), float('-inf')) or not float(v).is_integer():
        flag.append(x)
        return None
    return int(v)


import copy


def run(txns, noise=True):
    flag = []
    try:
        objs = [mk(t, noise) for t in txns]
        before = copy.deepcopy(objs)
        r = analyze_transactions(objs)
        if objs != before:
            return {'error': 'analysis wrote into the transactions it was given: ' +
                    repr([sorted(set(a) ^ set(b)) or 'values changed' for a, b in zip(objs, before) if a != b][:2])}
        # the same objects analysed again after the caller changed them must give what fresh objects give
        if len(objs) >= 2:
            for o, src in zip(objs, before[1:] + before[:1]):
                o['amount'], o['merchant'] = src['amount'], src['merchant']
                if 'tags' in src:
                    o['tags'] = list(src['tags'])
                else:
                    o.pop('tags', None)
            fresh = copy.deepcopy(objs)
            a2, b2 = analyze_transactions(objs), analyze_transactions(fresh)
            keys = ['income_total', 'investment_total', 'spending_total', 'credits_total', 'transfers_in', 'transfers_out',
                    'cash_flow', 'transfers_net', 'total', 'count']
            if any(a2[k] != b2[k] for k in keys) or {k: v['total'] for k, v in a2['by_merchant'].items()} != \
                    {k: v['total'] for k, v in b2['by_merchant'].items()}:
                return {'error': 're-analysis of changed transaction objects differs from analysis of fresh copies: ' +
                        repr({k: (a2[k], b2[k]) for k in keys if a2[k] != b2[k]})}
    except Exception as e:  # noqa
        return {'error': f'{type(e).__name__}: {e}'}
    out = {k: ticks(r[k], flag) for k in ['income_total', 'investment_total', 'spending_total', 'credits_total',
                                          'transfers_in', 'transfers_out', 'total', 'cash_flow', 'transfers_net',
                                          'total_transactions']}
    out['count'] = r['count']
    out['by_merchant'] = sorted([k, v['count'], ticks(v['total'], flag)] for k, v in r['by_merchant'].items())
    out['by_category'] = sorted([k[0], k[1], v['count'], ticks(v['total'], flag)] for k, v in r['by_category'].items())
    out['by_month'] = sorted([k, ticks(v, flag)] for k, v in r['by_month'].items())
    out['inexact'] = len(flag)
    poison(r)
    return out


def poison(r):
    """What a caller may do with the statistics it got back (annotate rows, add tags, clear lists). None of it may reach a
    LATER analysis: every later call in this process runs after this."""
    try:
        for m in r['by_merchant'].values():
            for row in m.get('transactions', []):
                if isinstance(row.get('tags'), list):
                    row['tags'].append('income')
                row['amount'] = 1e9
            if isinstance(m.get('tags'), set):
                m['tags'].update({'transfer', 'investment'})
            for k in ('payments', 'transactions'):
                if isinstance(m.get(k), list):
                    m[k].append(m[k][0] if m[k] else 0)
        for d in (r.get('by_category'), r.get('by_month')):
            if isinstance(d, dict):
                for k in list(d):
                    d[k] = {'count': -1, 'total': 1e9} if isinstance(d[k], dict) else 1e9
    except Exception:  # noqa
        pass


def main():
    payload = json.load(sys.stdin)
    res = []
    for case in payload['cases']:
        txns = case['txns']
        r = {'full': run(txns)}
        if any(t.get('noise') for t in txns):
            r['plain'] = run(txns, noise=False)
        if 'perm' in case:
            r['perm'] = run([txns[i] for i in case['perm']])
        if 'split' in case:
            r['part1'] = run(txns[:case['split']])
            r['part2'] = run(txns[case['split']:])
        if case.get('singles'):
            r['singles'] = [run([t]) for t in txns]
        res.append(r)
    json.dump({'results': res}, sys.stdout)


main()
