"""C12 helpers shared by harness/c12.py (python3) and harness/impl_c12.py (/venv/bin/python):
two independent ways to get the <script> element texts out of an HTML document —
(1) the standard library's html.parser, (2) the browser rule (HTML standard, "script data" state:
the element's text ends at the first "</script", ASCII case-insensitive, followed by whitespace,
'/' or '>') — and the decoding of tally's data script. No tally imports here."""
import json
import re
from html.parser import HTMLParser

DATA_PREFIX = 'window.spendingData = '
DATA_SUFFIX = ';'
TERM = '\t\n\f\r />'
NAME_RE = re.compile(r'[^\t\n\f\r />]*')
CLOSE_RE = re.compile(r'</script(?=[\t\n\f\r />])', re.I | re.A)
# texts on which html.parser of the installed CPython (end tag = </\s*script\s*>) and the browser
# rule can legitimately disagree
DISAGREE_RE = re.compile(r'</\s+script|</script(?=[\t\n\f\r />])(?!\s*>)', re.I | re.A)
ANY_CLOSE_RE = re.compile(r'</\s*script', re.I | re.A)
_ASCII_LOWER = {c: c + 32 for c in range(65, 91)}


class _Scripts(HTMLParser):
    def __init__(self):
        super().__init__(convert_charrefs=True)
        self.scripts, self.cur = [], None

    def handle_starttag(self, tag, attrs):
        if tag == 'script':
            self.cur = ''

    def handle_endtag(self, tag):
        if tag == 'script' and self.cur is not None:
            self.scripts.append(self.cur)
            self.cur = None

    def handle_data(self, data):
        if self.cur is not None:
            self.cur += data


def scripts_htmlparser(doc):
    p = _Scripts()
    p.feed(doc)
    p.close()
    return p.scripts


def scripts_browser(doc):
    """Texts of the finished <script> elements (same function as C12.Model.scan MData [])."""
    out, i, n = [], 0, len(doc)
    while True:
        j = doc.find('<', i)
        if j < 0:
            break
        m = NAME_RE.match(doc, j + 1)
        k = m.end()
        if k >= n:
            break
        is_script = m.group(0).translate(_ASCII_LOWER) == 'script'
        g = doc.find('>', k)
        if g < 0:
            break
        if not is_script:
            i = g + 1
            continue
        mm = CLOSE_RE.search(doc, g + 1)
        if not mm:
            break
        out.append(doc[g + 1:mm.start()])
        g2 = doc.find('>', mm.start())
        if g2 < 0:
            break
        i = g2 + 1
    return out


def data_text(scripts):
    """The JSON text J of the first script "window.spendingData = J;" or None."""
    for t in scripts:
        if t.startswith(DATA_PREFIX):
            b = t[len(DATA_PREFIX):]
            return b[:-len(DATA_SUFFIX)] if b.endswith(DATA_SUFFIX) else None
    return None


def decode(scripts):
    """-> (data | None, reason)"""
    j = data_text(scripts)
    if j is None:
        return None, 'no complete data script'
    try:
        return json.loads(j), ''
    except ValueError as e:
        return None, 'json: ' + str(e)[:80]
