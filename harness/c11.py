"""C11 — `tally up` honours every setting: report = totals(classify(parse(sources))).

Proof: C11/Props.v — for ALL budgets and ALL stage functions the modelled cmd_run loop is the concatenation over the
non-supplemental readable sources (composition), moves only the governed segment when one source/setting changes
(frame) and isolates a missing/unreadable source.  PARTIAL: the loop is a hand model of the glue, so the weight is on
the tie below.

Tie / direct oracle (real CLI, FRESH PROCESS per command, generated budget directories under /verif/.work/C11):
 (i)   `up -q --format json -v` and the spendingData of the HTML report == the same composition built by calling the
       stage functions directly (impl_c11.py, no cmd_run/load_config/resolve_source_format/load_supplemental_sources),
       and == what the generator wrote into the files (ground truth) when settings and files agree;
 (ii)  setting-frame metamorphic runs: ONE setting of ONE source (or rule_mode / rules / transforms / views / a
       supplemental source) is toggled and only what it governs may move; a setting is LIVE only if toggling it
       changes the report;
 (iii) a source made missing / unreadable: exit status, the source is reported, the other figures are intact.
Model-vs-implementation inside Coq (cases.v): which sources contribute, in which order, which are reported."""
import collections
import copy
import json
import os
import random

from common import *
import budget_common as B

COQ_FILES = ['Lib/Str.v', 'C11/Model.v', 'C11/Proofs.v', 'C11/Config.v', 'C11/ConfigProofs.v', 'C11/Props.v']
IMPL_CFG = os.path.join(os.path.dirname(os.path.abspath(__file__)), 'impl_c11_cfg.py')
IMPL = os.path.join(os.path.dirname(os.path.abspath(__file__)), 'impl_c11.py')
PROP = 'C11'
SPECIAL = {'income', 'investment'}


def canon(o):
    """Set-valued lists (tags) are compared as sets; everything else literally."""
    if isinstance(o, dict):
        return {k: (sorted(v) if k in ('tags', 'assignedTags') and isinstance(v, list) else canon(v)) for k, v in o.items()}
    if isinstance(o, list):
        return [canon(x) for x in o]
    return o


def canon_json(j):
    j = canon(j)
    if isinstance(j, dict) and 'merchants' in j:
        j['merchants'] = sorted(j['merchants'], key=lambda m: m['name'])
        j['credits'] = sorted(j.get('credits', []), key=lambda m: m['merchant'])
        j['by_category'] = sorted(j.get('by_category', []), key=lambda m: (m['category'], m['subcategory']))
    return j


def direct(root, spec):
    return run_impl(IMPL, {'root': B.budget_root(spec, root), 'spec': spec, 'fmts': [B.format_string(s) for s in spec['sources']],
                           'delims': [B.setting_delimiter(s) for s in spec['sources']]}, timeout=120)


def first_diff(a, b, path=''):
    if type(a) != type(b):
        return f'{path}: {a!r} != {b!r}'[:300]
    if isinstance(a, dict):
        for k in sorted(set(a) | set(b)):
            if k not in a or k not in b:
                return f'{path}/{k}: only on one side'
            d = first_diff(a[k], b[k], path + '/' + str(k))
            if d:
                return d
        return None
    if isinstance(a, list):
        if len(a) != len(b):
            return f'{path}: length {len(a)} != {len(b)}'
        for i, (x, y) in enumerate(zip(a, b)):
            d = first_diff(x, y, f'{path}[{i}]')
            if d:
                return d
        return None
    return None if a == b else f'{path}: {a!r} != {b!r}'[:300]


# ------------------------------------------------------------------ the checks (each returns a list of failure dicts)
def obs_up(root, spec, with_json=True):
    """Materialise and run the real command(s); returns the observation."""
    cfg = B.materialize(spec, root)
    o = {'html': B.up_html(cfg, os.path.join(root, 'out.html'))}
    if with_json:
        o['json'] = B.up_json(cfg, quiet=True)
    o['txns'] = B.html_txns(o['html']['data'])
    o['sections'] = B.html_sections(o['html']['data'])
    return o


def no_txn_exit(r):
    return r['rc'] == 1 and 'No transactions found' in r['stderr']


def check_compose(root, spec, o=None):
    """(i): CLI == direct composition of the real stages (+ ground truth when settings agree with the files)."""
    o = o or obs_up(root, spec)
    d = direct(root, spec)
    fails = []
    if d['n'] == 0:
        for k in ('json', 'html'):
            if k in o and not no_txn_exit(o[k]):
                fails.append({'law': f'compose/{k}-exit', 'detail': f"no source yields a transaction, expected exit 1 'No transactions found'; rc={o[k]['rc']} stderr={o[k]['stderr'][-200:]}"})
    else:
        if 'json' in o:
            if o['json']['rc'] != 0 or o['json']['json'] is None:
                fails.append({'law': 'compose/json-exit', 'detail': f"rc={o['json']['rc']} stderr={o['json']['stderr'][-300:]}"})
            else:
                df = first_diff(canon_json(o['json']['json']), canon_json(d['json']))
                if df:
                    fails.append({'law': 'compose/json', 'detail': 'CLI vs stages called directly: ' + df})
        if o['html']['rc'] != 0 or o['html']['data'] is None:
            fails.append({'law': 'compose/html-exit', 'detail': f"rc={o['html']['rc']} stderr={o['html']['stderr'][-300:]}"})
        else:
            df = first_diff(canon(o['html']['data']), canon(d['spending']))
            if df:
                fails.append({'law': 'compose/html', 'detail': 'CLI spendingData vs stages called directly: ' + df})
    # ground truth: what the generator wrote
    srcs = [s for s in spec['sources'] if not s['supplemental']]
    if all(B.consistent(s) for s in srcs) and o['html']['rc'] in (0, 1):
        pool = collections.Counter()
        for s in srcs:
            if s['state'] == 'present':
                for (dt, desc, a) in B.intended_rows(s):
                    pool[(s['name'], dt[:7] + '/' + dt[8:], desc, a)] += 1
        bad = None
        for t in o['txns']:
            k = (t[0], t[1], t[2], t[3])
            k2 = (t[0], t[1], t[2], -t[3])
            if pool[k] > 0:
                pool[k] -= 1
            elif (set(t[7]) & SPECIAL) and pool[k2] > 0:
                pool[k2] -= 1
            else:
                bad = f'report has a transaction no source file contains: {t[:4]}'
                break
        left = [k for k, v in pool.items() if v > 0]
        if not bad and left:
            bad = f'rows of the source files missing from the report: {left[:3]}'
        if bad:
            fails.append({'law': 'compose/ground-truth', 'detail': bad})
    # classification ground truth stated by the generator: legacy CSV patterns (P matches D iff it is found in D.upper(),
    # case-insensitively) and the hand-written expectations of corpus budgets
    expect = dict(B.csv_expect(spec))
    expect.update({k: tuple(v) for k, v in (spec.get('expect') or {}).items()})
    for t in o['txns']:
        e = expect.get(t[2])
        if e and ((e[0] is not None and e[0] != t[4]) or (e[1], e[2]) != (t[5], t[6])):
            fails.append({'law': 'compose/classification-ground-truth',
                          'detail': f'{t[2]!r} ({t[0]}) is reported as {t[4]} / {t[5]} / {t[6]}, the rules say {e}'})
            break
    if spec.get('expect_tags'):
        for t in o['txns']:
            e = spec['expect_tags'].get(t[2])
            if e is not None and sorted(e) != sorted(t[7]):
                fails.append({'law': 'compose/classification-ground-truth',
                              'detail': f'{t[2]!r} ({t[0]}) carries tags {list(t[7])}, the rules say {sorted(e)}'})
                break
    if spec.get('expect_merchants') and o['html']['rc'] == 0:
        got = dict(collections.Counter(t[4] for t in o['txns']))
        if got != spec['expect_merchants']:
            fails.append({'law': 'compose/classification-ground-truth',
                          'detail': f"transactions per merchant {got}, the rules say {spec['expect_merchants']}"})
    # supplemental rows never appear as transactions
    supp_names = {s['name'] for s in spec['sources'] if s['supplemental']}
    if any(t[0] in supp_names for t in o['txns']):
        fails.append({'law': 'compose/supplemental-as-transactions', 'detail': 'a supplemental source appears as transaction source'})
    return fails, o, d


SOURCE_KINDS = ['delimiter', 'decimal_separator', 'sign', 'has_header', 'format', 'file']
ROW_ORDER_KINDS = ['reverse']
GLOBAL_KINDS = ['rule_mode', 'rules', 'transforms', 'views', 'supplemental']


def frame_view(txns, name, shared):
    out = []
    for t in txns:
        if t[0] == name:
            continue
        out.append((t[0], t[1], t[2], t[3], t[4], t[7]) + (() if t[4] in shared else (t[5], t[6])))
    return sorted(out)


def check_frame(root, spec, kind, i, variant, base=None):
    """(ii): toggle one thing; only what it governs moves. Returns (fails, live, variant observation)."""
    base = base or obs_up(root, spec, with_json=False)
    v = obs_up(root + '_v', variant, with_json=False)
    fails = []
    for nm, r in (('base', base), ('variant', v)):
        h = r['html']
        if not (h['rc'] == 0 and h['data'] is not None) and not no_txn_exit(h):
            fails.append({'law': f'frame/{kind}/exit', 'detail': f"{nm} run: rc={h['rc']} stderr={h['stderr'][-300:]}"})
    if fails:
        return fails, False, v
    live = (base['txns'], base['sections'], base['html']['rc']) != (v['txns'], v['sections'], v['html']['rc'])
    if kind == 'currency_format':
        live = (base['html']['data'] or {}).get('currencyFormat') != (v['html']['data'] or {}).get('currencyFormat')
        a = {k: x for k, x in canon(base['html']['data'] or {}).items() if k != 'currencyFormat'}
        b = {k: x for k, x in canon(v['html']['data'] or {}).items() if k != 'currencyFormat'}
        if a != b:
            fails.append({'law': 'frame/currency_format', 'detail': 'changing the currency format changed figures: ' + str(first_diff(a, b))})
    if kind in SOURCE_KINDS:
        name = spec['sources'][i]['name']
        shared = {t[4] for t in base['txns'] + v['txns'] if t[0] == name}
        a, b = frame_view(base['txns'], name, shared), frame_view(v['txns'], name, shared)
        if a != b:
            fails.append({'law': f'frame/{kind}', 'detail': f"changing {kind} of source {name} moved another source's figures: "
                          + str(first_diff([list(x) for x in a], [list(x) for x in b]))})
    elif kind in ('rule_mode', 'rules', 'transforms', 'supplemental'):
        a, b = B.parsed_part(base['txns']), B.parsed_part(v['txns'])
        if a != b:
            fails.append({'law': f'frame/{kind}', 'detail': f'changing {kind} changed the parsed rows (source, date, description, |amount|): '
                          + str(first_diff([list(x) for x in a], [list(x) for x in b]))})
    elif kind in ('layout', 'cwd') or (kind == 'ascii' and spec['sources'][i]['supplemental']):
        # where the config directory physically lives / how an irrelevant cell of a supplemental file is spelled
        # governs nothing in the report
        df = first_diff(canon(base['html']['data']), canon(v['html']['data']))
        if df or base['html']['rc'] != v['html']['rc']:
            fails.append({'law': f'frame/{kind}', 'detail': f'the report changed: rc {base["html"]["rc"]} -> {v["html"]["rc"]}; ' + str(df)})
    elif kind == 'ascii':
        keep = {t[2] for t in base['txns'] if t[2].isascii()}
        a, b = [t for t in base['txns'] if t[2] in keep], [t for t in v['txns'] if t[2] in keep]
        if a != b or len(base['txns']) != len(v['txns']):
            fails.append({'law': 'frame/ascii', 'detail': 'respelling non-ASCII descriptions changed other rows: '
                          + str(first_diff([list(x) for x in a], [list(x) for x in b])) + f' / {len(base["txns"])} vs {len(v["txns"])} transactions'})
    elif kind == 'reverse':
        # the order of the rows in a file governs no transaction's own merchant, amount or tags
        # (a merchant's category is that of its last transaction by design, so it is not compared here)
        a = sorted((t[0], t[1], t[2], t[3], t[4], t[7]) for t in base['txns'])
        b = sorted((t[0], t[1], t[2], t[3], t[4], t[7]) for t in v['txns'])
        if a != b:
            fails.append({'law': 'frame/reverse', 'detail': f"reversing the rows of {spec['sources'][i]['name']} changed transactions: "
                          + str(first_diff([list(x) for x in a], [list(x) for x in b]))})
    elif kind == 'rename':
        a, b = sorted(t[1:] for t in base['txns']), sorted(t[1:] for t in v['txns'])
        if a != b or base['sections'] != v['sections']:
            fails.append({'law': 'frame/rename', 'detail': f"renaming source #{i} ({spec['sources'][i]['name']!r}) changed figures: "
                          + str(first_diff([list(x) for x in a], [list(x) for x in b]))})
        hb, hv = base['html']['data'] or {}, v['html']['data'] or {}
        for k in ('incomeTotal', 'spendingTotal', 'creditsTotal', 'cashFlow', 'transfersIn', 'transfersOut', 'investmentTotal', 'numMonths'):
            if hb.get(k) != hv.get(k):
                fails.append({'law': 'frame/rename', 'detail': f'renaming a source changed {k}: {hb.get(k)} != {hv.get(k)}'})
                break
    elif kind == 'views':
        if base['txns'] != v['txns']:
            fails.append({'law': 'frame/views', 'detail': 'changing the views changed transactions / classification'})
        hb, hv = base['html']['data'] or {}, v['html']['data'] or {}
        for k in ('incomeTotal', 'spendingTotal', 'creditsTotal', 'cashFlow', 'transfersIn', 'transfersOut', 'investmentTotal', 'categoryView'):
            if canon(hb.get(k)) != canon(hv.get(k)):
                fails.append({'law': 'frame/views', 'detail': f'changing the views changed {k}'})
                break
    return fails, live, v


def reported(stdout, stderr, name):
    """Is the source named (as a whole word) in a line that is not its success line?"""
    pat = re.compile(r'(?<![A-Za-z0-9_])' + re.escape(name) + r'(?![A-Za-z0-9_])')
    # the loading phase of the output (before "Total: n transactions"; the summary below it prints merchant names,
    # which may contain any word) and everything on stderr
    head = re.split(r'^Total: \d+ transactions\s*$', stdout, maxsplit=1, flags=re.M)[0]
    for line in (head + '\n' + stderr).splitlines():
        if pat.search(line):
            if re.match(r'^\s*' + re.escape(name) + r': \d+ transactions\s*$', line):
                continue
            if line.strip().lower().startswith('supplemental sources:'):
                continue
            return True
    return False


def run_verbose_html(root, spec):
    cfg = B.materialize(spec, root)
    outp = os.path.join(root, 'out.html')
    rc, out, err = B.run_cli(['up', cfg, '-o', outp])
    data = B.extract_spending_data(open(outp, encoding='utf-8').read()) if rc == 0 and os.path.exists(outp) else None
    return {'rc': rc, 'data': data, 'stdout': out, 'stderr': err[-600:]}


def check_missing(root, spec, name, st):
    """(iii): the source called `name` loses its file (missing) or becomes unreadable (dir / badutf8)."""
    idx = [k for k, s in enumerate(spec['sources']) if s['name'] == name]
    if not idx:
        return [], {'rc': None, 'data': None, 'stdout': '', 'stderr': ''}, None
    i = idx[0]
    var = copy.deepcopy(spec)
    var['sources'][i]['state'] = st
    name = spec['sources'][i]['name']
    supp = spec['sources'][i]['supplemental']
    rv = run_verbose_html(root + '_m', var)
    fails = []
    if supp:
        # the property: a missing source is reported (its absence silently changes what rule expressions see)
        if not reported(rv['stdout'], rv['stderr'], name):
            rp = B.up_html(B.materialize(spec, root + '_p'), os.path.join(root + '_p', 'out.html'))
            changed = rp['rc'] == 0 and rv['rc'] == 0 and B.html_txns(rp['data']) != B.html_txns(rv['data'])
            fails.append({'law': 'missing/supplemental-not-reported', 'strong': changed,
                          'detail': f'supplemental source {name} is {st}; nothing in the output names it'
                                    + ('; the classification of other sources\' transactions silently changes' if changed else '')})
        zero = copy.deepcopy(spec)
        del zero['sources'][i]
        r0 = B.up_html(B.materialize(zero, root + '_z'), os.path.join(root + '_z', 'out.html'))
        if r0['rc'] == 0 and r0['data'] is not None:
            if rv['rc'] != 0 or rv['data'] is None:
                fails.append({'law': 'missing/exit', 'detail': f"supplemental source {name} is {st}: exit {rv['rc']}: {rv['stderr'][-200:]}"})
            else:
                df = first_diff(canon(rv['data']), canon(r0['data']))
                if df:
                    fails.append({'law': 'missing/others-intact', 'detail': f'{st} supplemental source {name}: figures differ from the budget without it: ' + df})
        return fails, rv, r0
    zero = copy.deepcopy(spec)
    del zero['sources'][i]
    if not zero['sources']:
        return fails, rv, None
    r0 = B.up_html(B.materialize(zero, root + '_z'), os.path.join(root + '_z', 'out.html'))
    if r0['rc'] == 0 and r0['data'] is not None:
        if rv['rc'] != 0 or rv['data'] is None:
            fails.append({'law': 'missing/exit', 'detail': f"other sources have transactions but exit {rv['rc']}: {rv['stderr'][-200:]}"})
        else:
            a = {k: v for k, v in canon(rv['data']).items() if k != 'sources'}
            b = {k: v for k, v in canon(r0['data']).items() if k != 'sources'}
            df = first_diff(a, b)
            if df:
                fails.append({'law': 'missing/others-intact', 'detail': f'{st} source {name}: figures differ from the budget without it: ' + df})
    elif no_txn_exit(r0):
        if rv['rc'] != 1:
            fails.append({'law': 'missing/exit', 'detail': f"nothing else has transactions: expected exit 1, got {rv['rc']}"})
    if not reported(rv['stdout'], rv['stderr'], name):
        fails.append({'law': 'missing/not-reported', 'detail': f'{st} source {name} is not named in the output'})
    return fails, rv, r0


def signature(f, spec=None):
    if f['law'] == 'missing/supplemental-not-reported':
        return 'C11/missing-supplemental-source-not-reported'    # status "fixed" in known_findings.d: a regression is a VIOLATION
    return None


# ------------------------------------------------------------------ one budget = one unit of work
def plan_toggles(spec, rnd, k):
    """Choose which settings to toggle for this budget (rotating so that every setting gets its share)."""
    cands = []
    ns = [i for i, s in enumerate(spec['sources']) if not s['supplemental'] and s['state'] == 'present']
    for i in ns:
        for kind in SOURCE_KINDS + ROW_ORDER_KINDS:
            cands.append((kind, i))
    for kind in ('rule_mode', 'rules', 'views', 'currency_format', 'layout', 'cwd'):
        cands.append((kind, None))
    if 'source' not in json.dumps(spec['rules']):      # no rule looks at the source name
        for i in ns:
            cands.append(('rename', i))
    if spec['rules']['kind'] == 'rules':
        cands.append(('transforms', None))
    for i, s in enumerate(spec['sources']):
        if s['supplemental'] and s['rows']:
            cands.append(('supplemental', i))
    rnd.shuffle(cands)
    # prefer kinds with the least coverage so far (plan_toggles.count is shared)
    cands.sort(key=lambda c: plan_toggles.count[c[0]])
    out = []
    for c in cands:
        if len(out) >= k:
            break
        if c[0] in [x[0] for x in out]:
            continue
        out.append(c)
        plan_toggles.count[c[0]] += 1
    return out


plan_toggles.count = collections.Counter()


def eval_budget(job):
    k, spec, toggles, miss = job
    root = B.work_root(PROP, f'b{k}')
    res = {'k': k, 'fails': [], 'live': [], 'n_cli': 0}
    try:
        fails, o, d = check_compose(root, spec)
        res['n_cli'] += 2
        res['direct'] = {'per_source': d['per_source'], 'n': d['n']}
        res['seqs'] = B.html_merchant_seqs(o['html']['data'])
        res['rc'] = o['html']['rc']
        res['ntx'] = len(o['txns'])
        res['nmerch'] = len(res['seqs'])
        for f in fails:
            res['fails'].append(dict(f, check={'type': 'compose'}))
        for ti, (kind, i) in enumerate(toggles):
            var = B.toggle(spec, kind, i, random.Random(k * 131 + ti))
            if var is None:
                continue
            fails, live, v = check_frame(root, spec, kind, i, var, base=o)
            res['n_cli'] += 1
            res['live'].append((kind, bool(live)))
            for f in fails:
                res['fails'].append(dict(f, check={'type': 'frame', 'kind': kind, 'i': i, 'variant': var}))
            if ti == 0:  # (i) again on a budget whose setting disagrees with its file
                f2, _, _ = check_compose(root + '_v', var, o=dict(v))
                for f in f2:
                    if f['law'] != 'compose/ground-truth':
                        res['fails'].append(dict(f, check={'type': 'compose'}, budget=var))
        if miss is not None:
            i, st = miss
            fails, rv, r0 = check_missing(root, spec, spec['sources'][i]['name'], st)
            res['n_cli'] += 2
            res['missing'] = {'i': i, 'state': st, 'rc': rv['rc'], 'supp': spec['sources'][i]['supplemental'],
                              'reported': reported(rv['stdout'], rv['stderr'], spec['sources'][i]['name']),
                              'seqs': B.html_merchant_seqs(rv['data']),
                              'names_reported': [s['name'] for sup in (True, False) for s in spec['sources']
                                                 if s['supplemental'] == sup and reported(rv['stdout'], rv['stderr'], s['name'])]}
            for f in fails:
                res['fails'].append(dict(f, check={'type': 'missing', 'name': spec['sources'][i]['name'], 'state': st}))
    except Exception as e:  # noqa
        res['fails'].append({'law': 'harness-error', 'detail': f'{type(e).__name__}: {e}', 'check': {'type': 'compose'}})
    return res


# ------------------------------------------------------------------ corpus: systematic cases that always run first
def corpus():
    R, S = B.simple_row, B.simple_source

    def bud(sources, kind='none', rules=(), csv=(), mode=None, views=None, expect=None):
        byname = {t[0]: B.mkrule(t) for t in B.RULE_POOL}
        return {'year': 2025, 'currency_format': None, 'rule_mode': mode, 'sources': sources, 'views': views, 'expect': expect,
                'rules': {'kind': kind, 'variables': [list(v) for v in B.VARIABLES] if kind == 'rules' else [], 'transforms': [],
                          'rules': [copy.deepcopy(byname[n]) for n in rules], 'csv': [list(x) for x in csv]}}
    jan = [R('2025-01-03', 'NETFLIX.COM', 62), R('2025-01-09', 'COSTCO WHSE', 1000), R('2025-01-20', 'UBER TRIP', 90)]
    feb = [R('2025-02-03', 'NETFLIX.COM', 62), R('2025-02-11', 'SHELL OIL 5521', 160), R('2025-02-25', 'GYM CLUB', 120)]
    mar = [R('2025-03-03', 'NETFLIX.COM', 62), R('2025-03-15', 'RENT PAYMENT', 4000)]
    out = []
    # ---- several sources with exactly the same name (one file per month, all called "Chase")
    two = bud([S('Chase', 'data/chase-01.csv', copy.deepcopy(jan)), S('Chase', 'data/chase-02.csv', copy.deepcopy(feb))],
              kind='rules', rules=['Netflix', 'Costco', 'Uber', 'Fuel'])
    out.append((two, [('rename', 1), ('rename', 0), ('file', 0)], None))
    three = bud([S('Chase', 'data/chase-01.csv', copy.deepcopy(jan), delimiter=';', sign='-'),
                 S('Card', 'data/card.csv', copy.deepcopy(mar)),
                 S('Chase', 'data/chase-02.csv', copy.deepcopy(feb), has_header=False, decimal_separator=','),
                 S('Chase', 'data/chase-03.csv', copy.deepcopy(mar), delimiter='tab')], kind='csv', csv=B.CSV_POOL[:5],
                views=[list(B.VIEW_POOL[0]), list(B.VIEW_POOL[1])])
    out.append((three, [('rename', 0), ('rename', 2), ('rename', 3), ('delimiter', 2)], None))
    same = bud([S('Chase', 'data/a.csv', copy.deepcopy(jan)), S('Chase', 'data/b.csv', copy.deepcopy(jan))])   # identical content too
    out.append((same, [('rename', 1)], None))
    # neighbours: names that differ only in case / contain spaces, non-ASCII letters, YAML-significant characters
    odd = bud([S('chase', 'data/a.csv', copy.deepcopy(jan)), S('Chase', 'data/b.csv', copy.deepcopy(feb)),
               S('Chase Visa: #1', 'data/c.csv', copy.deepcopy(mar)), S('Cr\u00e9dit Agricole', 'data/d.csv', copy.deepcopy(feb))],
              kind='rules', rules=['Netflix', 'Fuel'])
    out.append((odd, [('rename', 0), ('rename', 2), ('rename', 3)], None))
    # ---- legacy CSV patterns against descriptions whose upper-case form is longer / different (ß, ligatures, dotless i)
    de = [R('2025-01-04', 'Gro\u00dfmarkt S\u00fcd', 200), R('2025-01-06', 'Tankstelle Hauptstra\u00dfe 12', 240),
          R('2025-01-08', 'O\ufb03ce Depot', 100), R('2025-01-10', 'b\u0131m market', 40), R('2025-01-12', 'caf\u00e9 fran\u00e7ais', 30),
          R('2025-01-14', 'netflix.com', 62), R('2025-01-16', 'Stra\u00dfenbahn Wien', 20), R('2025-01-18', 'fu\u00dfball shop', 80)]
    csvrules = [['GROSSMARKT', 'Grossmarkt', 'Groceries', 'Market', ''], ['TANKSTELLE.*STRASSE', 'Tankstelle', 'Transport', 'Fuel', ''],
                ['OFFICE', 'Office Depot', 'Shopping', 'Office', ''], ['BIM', 'Bim', 'Groceries', 'Discount', ''],
                ['CAF\u00c9', 'Cafe', 'Food', 'Cafe', ''], ['NETFLIX', 'Netflix', 'Subscriptions', 'Streaming', ''],
                ['^STRASSENBAHN', 'Tram', 'Transport', 'Tram', ''], ['FUSSBALL\\s+SHOP$', 'Fussball', 'Fun', 'Sport', '']]
    ger = bud([S('Giro', 'data/giro.csv', de)], kind='csv', csv=csvrules)
    out.append((ger, [('rules', None), ('ascii', 0)], None))
    # the same descriptions under .rules contains()/regex(): the documented meaning is case-insensitive search
    byr = bud([S('Giro', 'data/giro.csv', copy.deepcopy(de))], kind='rules',
              expect={'Gro\u00dfmarkt S\u00fcd': ['Markt', 'Groceries', 'Market'], 'netflix.com': ['Netflix', 'Subscriptions', 'Streaming'],
                      'caf\u00e9 fran\u00e7ais': ['Cafe', 'Food', 'Cafe']})
    for name, match, cat, sub in (('Markt', 'contains("GROSSMARKT")', 'Groceries', 'Market'), ('Netflix', 'contains("NETFLIX")', 'Subscriptions', 'Streaming'),
                                  ('Cafe', 'regex("caf\u00e9")', 'Food', 'Cafe')):
        byr['rules']['rules'].append({'name': name, 'match': match, 'category': cat, 'subcategory': sub, 'merchant': '', 'tags': [],
                                      'let': [], 'field': [], 'priority': None})
    out.append((byr, [], None))
    # ---- a supplemental file that is not valid UTF-8 in an irrelevant cell (Latin-1 export): the loader decodes leniently,
    #      the rows that rules query are all there; and the valid-UTF-8 neighbour
    card = [R('2025-02-07', 'AMZN MKTP US', 100), R('2025-02-09', 'AMZN MKTP US', 104), R('2025-02-11', 'MYSTERY SHOP', 60)]
    for enc in ('latin-1', None):
        orders = S('Orders', 'data/orders.csv', [R('2025-02-01', 'Caf\u00e9 cr\u00e8me', 3996), R('2025-02-07', 'Book', 100), R('2025-02-11', 'Stra\u00dfe', 60)],
                   cols=['date', 'item', 'amount'], supplemental=True, template='{item}', encoding=enc)
        for first in (True, False):
            srcs = [S('Card', 'data/card.csv', copy.deepcopy(card))]
            srcs.insert(0 if first else 1, copy.deepcopy(orders))
            sb = bud(srcs, kind='rules')
            sb['rules']['rules'] = [B.mkrule(B.SUPP_RULES[1]), B.mkrule(B.SUPP_RULES[0])]
            out.append((sb, [('ascii', 0 if first else 1), ('supplemental', 0 if first else 1)], None))
    # ---- the config directory is a symlink (shared config, per-year data), with and without same-named decoy files next to
    #      the link target
    for lay in ('symlink', 'symlink-decoy'):
        lb = bud([S('Chase', 'data/chase.csv', copy.deepcopy(jan)), S('Card', 'data/card.csv', copy.deepcopy(feb), delimiter=';')],
                 kind='rules', rules=['Netflix', 'Costco', 'Fuel'], views=[list(B.VIEW_POOL[0])])
        lb['layout'] = lay
        out.append((lb, [('layout', None), ('file', 0)], ('Card', 'missing') if lay == 'symlink' else None))
    # ---- rule_mode spelled in ways that are NOT one of the two legal values: the documented fallback is first_match
    conflict = [R('2025-01-03', 'NETFLIX PREMIUM 8841', 62), R('2025-01-09', 'COSTCO WHSE', 1000), R('2025-01-20', 'MYSTERY SHOP', 90),
                R('2025-02-01', 'NETFLIX.COM', 62)]
    fm = {'NETFLIX PREMIUM 8841': ['Netflix', 'Subscriptions', 'Streaming'], 'COSTCO WHSE': ['Costco', 'Groceries', 'Warehouse'],
          'MYSTERY SHOP': ['Mystery Low', 'Fun', 'Mystery']}
    ms = {'NETFLIX PREMIUM 8841': ['Netflix Premium', 'Subscriptions', 'Premium'], 'COSTCO WHSE': ['Costco', 'Shopping', 'Bulk'],
          'MYSTERY SHOP': ['Prio', 'Shopping', 'Mystery']}
    for raw, means in (('First_Match', 'first_match'), ('MOST_SPECIFIC', 'first_match'), ('Most_Specific', 'first_match'),
                       ('" most_specific "', 'first_match'), ('mostspecific', 'first_match'), ('""', 'first_match'), ('', 'first_match'),
                       ('1', 'first_match'), ('true', 'first_match'), ('"most_specific"', 'most_specific'), ("'first_match'", 'first_match'),
                       ('most_specific   # chosen in 2024', 'most_specific')):
        mb = bud([S('Card', 'data/card.csv', copy.deepcopy(conflict))], kind='rules',
                 rules=['Netflix', 'Netflix Premium', 'Costco', 'Costco Big', 'Mystery Low', 'Prio'], mode=means,
                 expect=fm if means == 'first_match' else ms)
        mb['rule_mode_raw'] = raw
        out.append((mb, [], None))
    # ---- a merchants_file that is configured but not there: no rules (and a warning), even if a legacy
    #      merchant_categories.csv lies in config/; and a present merchants_file wins over such a stray CSV
    unk = {d: [None, 'Unknown', 'Unknown'] for d in ('NETFLIX.COM', 'COSTCO WHSE', 'UBER TRIP')}
    for missing in (True, False):
        gb = bud([S('Card', 'data/card.csv', copy.deepcopy(jan))], kind='rules', rules=['Costco', 'Uber'],
                 expect=unk if missing else {'NETFLIX.COM': [None, 'Unknown', 'Unknown'], 'COSTCO WHSE': ['Costco', 'Groceries', 'Warehouse']})
        gb['rules']['configured_missing'] = missing
        gb['rules']['stray_csv'] = [list(x) for x in B.CSV_POOL[:2]] + [['COSTCO', 'Costco Csv', 'Shopping', 'Stray', '']]
        out.append((gb, [('rule_mode', None)], None))
    nb = bud([S('Card', 'data/card.csv', copy.deepcopy(jan))], kind='rules', rules=['Costco'], expect=unk)
    nb['rules']['configured_missing'] = True            # ... and without any stray file
    out.append((nb, [], None))
    # a views_file that is configured but not there: no views, even if config/views.rules exists
    vb = bud([S('Card', 'data/card.csv', copy.deepcopy(jan))], kind='rules', rules=['Netflix', 'Costco'], views=[list(B.VIEW_POOL[0]), list(B.VIEW_POOL[1])])
    vb['views_file'] = 'config/my-views.rules'
    out.append((vb, [], None))
    # ---- rows that are identical except for a captured column, with a rule that reads field.<name>
    def rl(name, match, cat, sub, tags=()):
        return {'name': name, 'match': match, 'category': cat, 'subcategory': sub, 'merchant': '', 'tags': list(tags), 'let': [],
                'field': [], 'priority': None}
    for order in (('POS', 'WIRE', 'ACH', 'WIRE'), ('WIRE', 'POS', 'WIRE', 'ACH')):
        rows = [R('2025-03-03', 'RENT PAYMENT', 4000, kind=k) for k in order] + [R('2025-03-04', 'GYM CLUB', 120, kind='POS')]
        fb = bud([S('Bank', 'data/bank.csv', rows, cols=['date', 'kind', 'description', 'amount'])], kind='rules')
        fb['rules']['rules'] = [rl('Wire', 'field.kind == "WIRE"', 'Banking', 'Wire', ['wire']), rl('Ach Tag', 'field.kind == "ACH"', '', '', ['ach']),
                                rl('Rent', 'contains("RENT")', 'Housing', 'Rent')]
        fb['expect_merchants'] = {'Wire': 2, 'Rent': 2, 'Gym Club': 1}
        out.append((fb, [('reverse', 0)], None))
        # the same through a description template (custom captures): the description is one capture, the rule reads another
        rows = [dict(R('2025-03-03', 'RENT PAYMENT', 4000), type=k, merchant='RENT PAYMENT') for k in order]
        tb = bud([S('Bank', 'data/bank.csv', rows, cols=['date', 'type', 'merchant', 'amount'], template='{merchant}')], kind='rules')
        tb['rules']['rules'] = [rl('Wire', 'field.type == "WIRE"', 'Banking', 'Wire'), rl('Rent', 'contains("RENT")', 'Housing', 'Rent')]
        tb['expect_merchants'] = {'Wire': 2, 'Rent': 2}
        out.append((tb, [('reverse', 0)], None))
    # ---- legacy merchant_categories.csv rows WITHOUT a category are tag-only rules: their tags count (income, transfer ...)
    pay = [R('2025-01-31', 'ACME PAYROLL', -12000), R('2025-01-15', 'TRANSFER TO SAVINGS', 2000), R('2025-01-20', 'NETFLIX.COM', 62),
           R('2025-01-21', 'MYSTERY SHOP', 300)]
    tagcsv = [['ACME PAYROLL', '', '', '', 'income'], ['TRANSFER', 'Savings', '', '', 'transfer|savings'], ['NETFLIX', 'Netflix', 'Subscriptions', 'Streaming', 'fun'],
              ['NETFLIX', '', '', '', 'recurring'], ['MYSTERY', 'Mystery', '', 'Oddities', 'odd']]
    pb = bud([S('Bank', 'data/bank.csv', pay)], kind='csv', csv=tagcsv)
    pb['expect_tags'] = {'ACME PAYROLL': ['income'], 'TRANSFER TO SAVINGS': ['transfer', 'savings'], 'NETFLIX.COM': ['fun', 'recurring'],
                         'MYSTERY SHOP': ['odd']}
    out.append((pb, [('rules', None)], None))
    only = bud([S('Bank', 'data/bank.csv', copy.deepcopy(pay))], kind='csv', csv=[tagcsv[0]])     # nothing but one tag-only row
    only['expect_tags'] = {'ACME PAYROLL': ['income'], 'NETFLIX.COM': []}
    out.append((only, [], None))
    # ---- the command is started from a sibling budget's directory holding files at the same relative paths: a source whose
    #      file is missing from THIS budget is missing (reported, contributes nothing) - transaction and supplemental sources alike
    for st in ('missing', 'present'):
        wb = bud([S('Card', 'data/card.csv', copy.deepcopy(jan)), S('Bank', 'data/bank.csv', copy.deepcopy(feb), state=st)],
                 kind='rules', rules=['Netflix', 'Costco', 'Fuel'])
        wb['cwd'] = 'decoy'
        out.append((wb, [('cwd', None)], None))
    sw = bud([S('Card', 'data/card.csv', copy.deepcopy(card)),
              S('Orders', 'data/orders.csv', [R('2025-02-07', 'Book', 100)], cols=['date', 'item', 'amount'], supplemental=True, template='{item}', state='missing')],
             kind='rules', expect={'AMZN MKTP US': [None, 'Unknown', 'Unknown']})
    sw['rules']['rules'] = [B.mkrule(B.SUPP_RULES[1])]
    sw['cwd'] = 'decoy'
    sw['sources'][1]['rows'] = [R('2025-02-07', 'Book', -700)]     # the sibling's orders file would match 25.00 (= (-700+800)/4)
    out.append((sw, [('cwd', None)], None))
    # ---- legacy CSV patterns that merely CONTAIN upper-case words like AND / OR / FIELD. / YEAR= / SPLIT ( are plain regexes
    kw = [R('2025-01-04', 'BATH AND BODY WORKS', 200), R('2025-01-05', 'Bath and Body Works', 120), R('2025-01-06', 'PIZZA OR PASTA HOUSE', 90),
          R('2025-01-07', 'FIELD TRIP BUS', 60), R('2025-01-08', 'YEAR=END SALE', 40), R('2025-01-09', 'SPLIT PAYMENT 3', 30),
          R('2025-01-10', 'SOURCE=WEB ORDER', 20), R('2025-01-11', 'NETFLIX.COM', 62)]
    kwcsv = [['BATH AND BODY', 'Bath Body', 'Shopping', 'Beauty', ''], ['PIZZA OR PASTA', 'Pizza Pasta', 'Food', 'Italian', ''],
             ['FIELD.TRIP', 'Field Trip', 'Kids', 'School', ''], ['YEAR=END', 'Year End', 'Shopping', 'Sale', ''],
             ['SPLIT (PAYMENT)', 'Split', 'Banking', 'Instalment', ''], ['SOURCE=WEB', 'Web', 'Shopping', 'Web', ''],
             ['NETFLIX', 'Netflix', 'Subscriptions', 'Streaming', '']]
    out.append((bud([S('Card', 'data/card.csv', kw)], kind='csv', csv=kwcsv), [], None))
    cb = bud([S('Chase', 'data/chase.csv', copy.deepcopy(jan))], kind='csv', csv=B.CSV_POOL[:4])
    cb['layout'] = 'symlink-decoy'
    out.append((cb, [('layout', None)], None))
    return out


# ------------------------------------------------------------------ model side (Coq)
HEADER = '''From Coq Require Import String List Bool Arith.
From Tally Require Import Lib.Str C11.Model.
Import ListNotations.
Open Scope list_scope.
Definition Row := (nat * nat)%type.                       (* position in the source's parse, merchant id *)
Definition parse (st : unit) (c : option (list Row) * option (list nat)) : option (list Row) := fst c.   (* the stage result observed on the implementation *)
Definition Cont := (option (list Row) * option (list nat))%type.   (* result as a transaction source, rows loaded as supplemental data *)
Definition lsupp (st : unit) (c : Cont) : option (list nat) := snd c.
Definition cl (R : unit) (m : mode) (sd : supp_data nat) (n : string) (r : Row) : string * nat * nat := (n, fst r, snd r).
Definition run (ss : list (source unit (option (list Row) * option (list nat)))) :=
  run_up parse lsupp cl (fun l => l) (fun (v : unit) st => tt) (mkBudget ss tt FirstMatch None).
Definition S (n : string) (sp : bool) (st : state) (c : option (list Row)) (sr : option (list nat)) := mkSource n sp true tt st (c, sr).
Definition key_eqb (a b : string * nat) := (String.eqb (fst a) (fst b) && Nat.eqb (snd a) (snd b))%bool.
Fixpoint leqb {A} (e : A -> A -> bool) (a b : list A) : bool :=
  match a, b with [], [] => true | x :: r, y :: s => (e x y && leqb e r s)%bool | _, _ => false end.
Definition wname (w : warning) := match w with FileNotFound n => n | UnknownParser n => n | ParseError n => n | SuppNotLoaded n => n end.
(* case: sources, expected status (0 report / 1 no transactions / 2 no sources),
   per merchant id the ordered (source, position) list seen in the report, optional list of reported names *)
Definition ok (c : list (source unit (option (list Row) * option (list nat))) * nat * list (nat * list (string * nat)) * option (list string)) : bool :=
  let '(ss, status, seqs, ws) := c in
  match run ss with
  | Report t _ _ w =>
      (Nat.eqb status 0
       && forallb (fun e => leqb key_eqb (map (fun x => (fst (fst x), snd (fst x))) (filter (fun x => Nat.eqb (snd x) (fst e)) t)) (snd e)) seqs
       && Nat.eqb (length t) (fold_right (fun e n => length (snd e) + n) 0 seqs)
       && match ws with Some l => leqb String.eqb (map wname w) l | None => true end)%bool
  | ErrNoTransactions w => (Nat.eqb status 1 && match ws with Some l => leqb String.eqb (map wname w) l | None => true end)%bool
  | ErrNoSources => Nat.eqb status 2
  end.
Fixpoint failing (i : nat) (l : list _) : list nat :=
  match l with [] => [] | c :: r => if ok c then failing (Datatypes.S i) r else i :: failing (Datatypes.S i) r end.
'''


def coq_case(spec, per_source, seqs, rc, names_reported=None, state_override=None):
    """Build one Coq case; returns None when the observation cannot be mapped (counted as unmapped)."""
    mids = {}
    srcs = []
    pos = {}   # (source name, date, desc, amount) -> list of (k, merchant)
    for i, (s, ps) in enumerate(zip(spec['sources'], per_source)):
        st = s['state'] if not state_override or state_override[0] != i else state_override[1]
        cst = {'present': 'Present', 'missing': 'Missing'}.get(st, 'Unreadable')
        content = 'None'
        if 'txns' in ps and st == 'present':
            items = []
            for k, t in enumerate(ps['txns']):
                mid = mids.setdefault(t[3], len(mids))
                items.append(f'({k}, {mid})')
                pos.setdefault((s['name'], t[0], t[1], t[2]), []).append((i, k, t[3]))
            content = 'Some [' + '; '.join(items) + ']'
        elif ps.get('skipped') == 'error' and st == 'present':
            content = 'None'
        sr = 'Some [' + '; '.join('1' for r in s['rows'] if not r['bad']) + ']' if s['supplemental'] else 'None'
        srcs.append(f"S {coq_str('s%d' % i)} {'true' if s['supplemental'] else 'false'} {cst} ({content}) ({sr})")
    idx = {s['name']: i for i, s in enumerate(spec['sources'])}
    used = set()
    seq_items = []
    for m, seq in seqs.items():
        if m not in mids:
            return None
        out = []
        for (src, dt, desc, amt) in seq:
            cands = [(si, k) for (si, k, mm) in pos.get((src, dt, desc, amt), []) if mm == m and (si, k) not in used]
            if not cands:
                return None
            si, k = cands[0]
            used.add((si, k))
            out.append(f"({coq_str('s%d' % si)}, {k})")
        seq_items.append(f"({mids[m]}, [{'; '.join(out)}])")
    status = 0 if rc == 0 else 1
    ws = 'None'
    if names_reported is not None:
        ws = 'Some [' + '; '.join(coq_str('s%d' % idx[n]) for n in names_reported) + ']'
    return f"([{'; '.join(srcs)}], {status}, [{'; '.join(seq_items)}], {ws})"


def model_check(rows, name='C11'):
    bad = []
    CH = 400
    for off in range(0, len(rows), CH):
        body = 'Definition cases := [\n' + ';\n'.join(rows[off:off + CH]) + '\n].\nEval vm_compute in failing 0 cases.\n'
        rc, out, err = run_cases(f'{name}_cases_{off // CH}', HEADER, body)
        m = re.search(r'=\s*\[(.*?)\]\s*:\s*list nat', out, re.S)
        if rc != 0 or not m:
            return None, (out + err)[-800:]
        bad += [off + int(x) for x in m.group(1).replace('%nat', '').replace('\n', ' ').split(';') if x.strip()]
    return bad, ''


# ------------------------------------------------------------------ the settings-resolution table (C11/Config.v), every row
MODE_RAWS = [(None, 'MKAbsent'), ('first_match', 'MKFirst'), ('"first_match"', 'MKFirst'), ('most_specific', 'MKMost'),
             ("'most_specific'   # chosen in 2024", 'MKMost'), ('First_Match', 'MKOther'), ('MOST_SPECIFIC', 'MKOther'),
             ('" most_specific "', 'MKOther'), ('mostspecific', 'MKOther'), ('""', 'MKOther'), ('', 'MKOther'), ('1', 'MKOther'), ('true', 'MKOther')]


def config_rows():
    rows = []
    for raw, cls in MODE_RAWS:
        for mk in (True, False):
            for me in (True, False):
                for lc in (True, False):
                    for vk in (True, False):
                        for vs in ('VMissing', 'VBroken', 'VGood'):
                            for sv in (True, False):
                                rows.append({'mode_raw': raw, 'mode_class': cls, 'merchants_key': mk, 'merchants_exists': me,
                                             'legacy_csv': lc, 'views_key': vk, 'views': vs, 'stray_views': sv})
    return rows


def config_spec(row):
    """The documented behaviour, restated over one row (direct oracle, independent of the Coq model)."""
    mode = 'most_specific' if row['mode_class'] == 'MKMost' else 'first_match'
    merchants = ('NewRules' if row['merchants_exists'] else 'NoRules') if row['merchants_key'] else ('LegacyCsv' if row['legacy_csv'] else 'NoRules')
    views = row['views_key'] and row['views'] == 'VGood'
    warns = (['InvalidRuleMode'] if row['mode_class'] == 'MKOther' else []) + \
            (['MerchantsFileNotFound'] if row['merchants_key'] and not row['merchants_exists'] else []) + \
            ([{'VMissing': 'ViewsFileNotFound', 'VBroken': 'ViewsError'}[row['views']]] if row['views_key'] and row['views'] != 'VGood' else [])
    return {'mode': mode, 'merchants': merchants, 'views': bool(views), 'warnings': warns}


def run_config_rows(rows):
    base = B.work_root(PROP, 'cfgtable')
    os.makedirs(base, exist_ok=True)
    return run_impl(IMPL_CFG, {'base': base, 'rows': rows}, timeout=300)['results']


CFG_HEADER = '''From Coq Require Import List Bool.
From Tally Require Import C11.Config.
Import ListNotations.
Definition weqb (a b : cwarning) := match a, b with InvalidRuleMode, InvalidRuleMode | MerchantsFileNotFound, MerchantsFileNotFound
  | ViewsFileNotFound, ViewsFileNotFound | ViewsError, ViewsError => true | _, _ => false end.
Fixpoint wleqb (a b : list cwarning) := match a, b with [], [] => true | x :: r, y :: s => (weqb x y && wleqb r s)%bool | _, _ => false end.
Definition ok (c : facts * (rmode * merchants * bool * list cwarning)) : bool :=
  let '(f, (m, r, v, w)) := c in let x := resolve f in
  (match r_mode x, m with RFirstMatch, RFirstMatch | RMostSpecific, RMostSpecific => true | _, _ => false end
   && match r_merchants x, r with NoRules, NoRules | NewRules, NewRules | LegacyCsv, LegacyCsv => true | _, _ => false end
   && Bool.eqb (r_views x) v && wleqb (r_warnings x) w)%bool.
Fixpoint failing (i : nat) (l : list _) : list nat :=
  match l with [] => [] | c :: r => if ok c then failing (S i) r else i :: failing (S i) r end.
'''


def config_table_check(run, broken, proofs_ok):
    """Direct oracle + model-vs-implementation for the decision table; returns coverage numbers."""
    rows = config_rows()
    res = run_config_rows(rows)
    bad = []
    for row, r in zip(rows, res):
        want = config_spec(row)
        if 'error' in r or {k: r[k] for k in want} != want:
            bad.append((row, r, want))
    if bad:
        row, r, want = bad[0]
        run.violation('config-resolution', {'kind': 'counterexample', 'check': {'type': 'config', 'row': row}, 'law': 'config/resolution',
                                            'budget': None, 'observed': r, 'expected': want, 'n_failing': len(bad),
                                            'obligation': 'c11_config_resolution on load_config'})
    n_coq = 0
    if proofs_ok:
        cases = []
        b = {True: 'true', False: 'false'}
        for row, r in zip(rows, res):
            if 'error' in r or r['mode'] not in ('first_match', 'most_specific') or r['merchants'].startswith('other'):
                continue      # already a violation above; not expressible as a model value
            f = (f"mkFacts {row['mode_class']} {b[row['merchants_key']]} {b[row['merchants_exists']]} {b[row['legacy_csv']]} "
                 f"{b[row['views_key']]} {row['views']} {b[row['stray_views']]}")
            o = (f"({'RMostSpecific' if r['mode'] == 'most_specific' else 'RFirstMatch'}, {r['merchants']}, {b[bool(r['views'])]}, "
                 f"[{'; '.join(r['warnings'])}])")
            cases.append(f'({f}, {o})')
        body = 'Definition cases := [\n' + ';\n'.join(cases) + '\n].\nEval vm_compute in failing 0 cases.\n'
        rc, out, err = run_cases('C11_cfg', CFG_HEADER, body)
        m = re.search(r'=\s*\[(.*?)\]\s*:\s*list nat', out, re.S)
        n_coq = len(cases)
        if rc != 0 or not m:
            broken.append({'kind': 'broken-correspondence', 'obligation': 'model_vs_impl(C11.Config.resolve, load_config)',
                           'detail': 'cases.v did not evaluate: ' + (out + err)[-600:]})
        else:
            idx = [int(x) for x in m.group(1).replace('%nat', '').replace('\n', ' ').split(';') if x.strip()]
            if idx:
                broken.append({'kind': 'broken-correspondence', 'obligation': 'model_vs_impl(C11.Config.resolve, load_config)',
                               'detail': {'n': len(idx), 'case': cases[idx[0]]}})
    return {'config_table_rows_run_on_load_config': len(rows), 'config_table_rows_checked_in_coq': n_coq,
            'config_table_exhaustive': True, 'config_rows_failing': len(bad)}


# ------------------------------------------------------------------ main
def recheck(check, spec):
    """Re-evaluate one recorded check on a fresh directory; returns the failures (used by shrinking and replay)."""
    root = B.work_root(PROP, 'replay')
    if check['type'] == 'config':
        r = run_config_rows([check['row']])[0]
        want = config_spec(check['row'])
        return [] if 'error' not in r and {k: r[k] for k in want} == want else \
            [{'law': 'config/resolution', 'detail': f'load_config resolved {r}, documented: {want}'}]
    if check['type'] == 'compose':
        return check_compose(root, spec)[0]
    if check['type'] == 'frame':
        var = check.get('variant')
        if check.get('rebuild'):
            var = B.toggle(spec, check['kind'], check['i'], random.Random(1))
        if var is None:
            return []
        return check_frame(root, spec, check['kind'], check['i'], var)[0]
    if check['type'] == 'missing':
        return check_missing(root, spec, check['name'], check['state'])[0]
    return []


def main(tier):
    run = Run(PROP, tier)
    run.assumptions = [
        'PARTIAL: the cmd_run loop is a hand model (C11/Model.v); stages are universally quantified parameters proved in C05/C01/C02/C09/C06/C10/C12',
        'the tie is whole-command differential testing on generated budgets (generic `format:` sources only; amex/boa legacy parsers, '
        'regex: delimiters, --only/--category filters, markdown/summary output and interactive CSV migration are outside the generator)',
        'amounts are multiples of 0.25 so that every float sum is exact in any order',
        'merchant names never collide under report.make_merchant_id (that collision is C12 territory)']
    res = run.proof_step(COQ_FILES, extra_trusted=['harness/budget_common.py (budget generator, CLI runners)',
                                                   'harness/c11.py + harness/impl_c11.py (oracles, correspondence)'])
    broken = []
    if not res['ok']:
        broken.append({'kind': 'broken-obligation', 'detail': first_error(res['log'])})
    if res['hygiene']:
        broken.append({'kind': 'hygiene', 'detail': res['hygiene']})

    B.clean_work(PROP)
    cfg_cov = config_table_check(run, broken, res['ok'])
    rnd = random.Random(run.seed * 7919 + 11)
    n = 80 if tier == "quick" else 400
    per = 3 if tier == 'quick' else 5
    jobs = [(k, spec, toggles, ([i for i, x in enumerate(spec['sources']) if x['name'] == miss[0]][0], miss[1]) if miss else None)
            for k, (spec, toggles, miss) in enumerate(corpus())]
    n += len(jobs)
    plan_toggles.count = collections.Counter()
    for k in range(len(jobs), n):
        spec = B.gen_budget(rnd)
        toggles = plan_toggles(spec, rnd, per)
        miss = None
        names = [s['name'] for s in spec['sources']]
        if k % 3 == 0 and len(set(names)) == len(names):
            present = [i for i, s in enumerate(spec['sources']) if s['state'] == 'present']
            supp = [i for i in present if spec['sources'][i]['supplemental']]
            if supp and k % 2 == 0:
                miss = (supp[0], rnd.choice([x for x in B.BAD_STATES if x != 'badutf8']))   # the loader decodes with errors='replace'
            elif present:
                nons = [i for i in present if not spec['sources'][i]['supplemental']]
                if nons:
                    miss = (rnd.choice(nons), rnd.choice(B.BAD_STATES))
        jobs.append((k, spec, toggles, miss))
    results = B.pmap(eval_budget, jobs)

    # ---- direct-oracle verdicts
    n_cli = sum(r['n_cli'] for r in results)
    failing = [(jobs[r['k']][1], f) for r in results for f in r['fails']]
    groups = {}
    for spec, f in failing:
        groups.setdefault((signature(f, spec), f['law']), []).append((f.get('budget') or spec, f))
    for (sig, law), items in groups.items():
        spec, f = min(items, key=lambda x: (not x[1].get('strong', False), len(json.dumps(x[0]))))
        chk = dict(f['check'])
        small = spec
        if law != 'harness-error':
            if chk['type'] == 'frame':
                chk = {'type': 'frame', 'kind': chk['kind'], 'i': chk['i'], 'variant': chk['variant']}
            else:
                def still(c, chk=chk, law=law, strong=f.get('strong', False)):
                    return any(x['law'] == law and x.get('strong', False) == strong for x in recheck(chk, c))
                if chk['type'] in ('compose', 'missing'):
                    small = B.shrink_budget(spec, still, max_steps=12 if tier == 'quick' else 80)
        again = recheck(chk, small) if law != 'harness-error' else [f]
        det = [x for x in again if x['law'] == law] or [f]
        run.violation(law.replace('/', '-'), {'kind': 'counterexample', 'budget': small, 'check': chk, 'law': law,
                                              'observed': det[0]['detail'], 'expected': 'C11: report = totals(classify(parse(sources))); '
                                              'one setting moves only what it governs; a missing/unreadable source is reported and isolated',
                                              'obligation': 'c11_* on the implementation', 'broken': broken, 'n_failing': len(items),
                                              'shrunk_from': len(json.dumps(spec))}, signature=sig)

    # ---- model vs implementation inside Coq
    rows, unmapped = [], 0
    if res['ok']:
        for r in results:
            if 'direct' not in r:
                continue
            spec = jobs[r['k']][1]
            c = coq_case(spec, r['direct']['per_source'], r['seqs'], r['rc'])
            if c is None:
                unmapped += 1
            else:
                rows.append((c, r['k'], 'base'))
            ms = r.get('missing')
            if ms and ms['rc'] in (0, 1):
                c = coq_case(spec, r['direct']['per_source'], ms['seqs'], ms['rc'], names_reported=ms['names_reported'],
                             state_override=(ms['i'], ms['state']))
                if c is None:
                    unmapped += 1
                else:
                    rows.append((c, r['k'], 'missing'))
        bad, err = model_check([x[0] for x in rows])
        if bad is None:
            broken.append({'kind': 'broken-correspondence', 'obligation': 'model_vs_impl(C11.Model.run_up, tally up)',
                           'detail': 'cases.v did not evaluate: ' + err})
        elif bad:
            k = rows[bad[0]][1]
            broken.append({'kind': 'broken-correspondence', 'obligation': 'model_vs_impl(C11.Model.run_up, tally up)',
                           'detail': {'budget': jobs[k][1], 'which': rows[bad[0]][2], 'n': len(bad), 'case': rows[bad[0]][0][:1500]}})
    if broken and not [1 for (sig, law) in groups if sig is None]:
        run.violation('broken', {'kind': broken[0]['kind'], 'obligation': broken[0].get('obligation') or
                                 (broken[0]['detail'].get('obligation') if isinstance(broken[0]['detail'], dict) else None),
                                 'broken': broken, 'searched': f'{n} generated budgets ({n_cli} CLI runs) against the C11 oracles, none fails'},
                      found_input=False)

    # ---- coverage
    live = collections.defaultdict(lambda: [0, 0])
    for r in results:
        for kind, lv in r['live']:
            live[kind][1] += 1
            live[kind][0] += int(lv)
    nontrivial = set()
    hist_src, hist_kind = collections.Counter(), collections.Counter()
    for r in results:
        spec = jobs[r['k']][1]
        hist_src[len(spec['sources'])] += 1
        hist_kind[spec['rules']['kind'] + '/' + (spec.get('rule_mode') or 'default') + ('/views' if spec.get('views') else '')] += 1
        contributing = [p for p in r.get('direct', {}).get('per_source', []) if p.get('txns')]
        if len(contributing) >= 2 and r.get('nmerch', 0) >= 2:
            nontrivial.add(json.dumps(spec, sort_keys=True))
    miss_stats = collections.Counter((r['missing']['state'], 'supp' if r['missing']['supp'] else 'src', 'reported' if r['missing']['reported'] else 'silent')
                                     for r in results if 'missing' in r)
    run.cov.update({
        'evaluations': n_cli + len(rows) + 2 * cfg_cov['config_table_rows_run_on_load_config'], 'distinct_nontrivial': len(nontrivial),
        'rule': 'generated budget directories: 1-4 sources with independent column order / date format / delimiter / has_header / '
                'decimal separator / sign, optional supplemental source referenced by a rule, .rules (variables, transforms, let/field, '
                'tag-only, priority) or legacy CSV or no rules, first_match / most_specific, with and without views, a missing / '
                'directory / undecodable source file; non-trivial = distinct budgets in which >= 2 sources contribute and >= 2 merchants appear',
        **cfg_cov,
        'budgets': n, 'cli_runs_fresh_process': n_cli, 'model_vs_impl_cases_in_coq': len(rows), 'unmapped_cases': unmapped,
        'live_toggles_per_setting': {k: {'live': v[0], 'toggled': v[1]} for k, v in sorted(live.items())},
        'missing_source_runs': {' '.join(k): v for k, v in miss_stats.items()},
        'sources_per_budget_histogram': dict(hist_src), 'rules_kind_histogram': dict(hist_kind),
        'transactions_per_report_max': max([r.get('ntx', 0) for r in results] or [0]),
        'oracle_failures_by_law': {f'{law} [{sig or "VIOLATION"}]': len(v) for (sig, law), v in groups.items()},
        'samples': [jobs[0][1], jobs[min(5, n - 1)][1]]})
    run.finish()


def replay(path):
    obj = json.load(open(path))
    if obj.get('kind') != 'counterexample':
        main('quick')
        return 0
    fails = recheck(obj['check'], obj['budget'])
    hit = [f for f in fails if f['law'] == obj.get('law')] or fails
    print(json.dumps({'failing': [{'law': f['law'], 'detail': f['detail']} for f in hit]}, indent=1))
    if hit:
        print(f'VIOLATION property=C11 replay={path}')
        return 1
    return 0
